----------------------------- MODULE Bcd -----------------------------
(* Binary coded decimal as used by the UT0311-L0x protocol (property C12).               *)
(* Text is a sequence of the UTF-8 *bytes* of a string: a decimal digit is a byte 48..57,  *)
(* every byte of a multi-byte rune is >= 128 and therefore "another character".            *)
EXTENDS Integers, Sequences

Err == [t |-> "err"]
Ok(v) == [t |-> "ok", v |-> v]

IsDigitByte(c) == c \in 48..57
AllDigits(s) == \A i \in 1..Len(s) : IsDigitByte(s[i])

\* left-pad with one '0' when the length is odd
Pad(s) == IF Len(s) % 2 = 1 THEN <<48>> \o s ELSE s

\* ceil(n/2) bytes, two digits per byte, most significant first
BcdEncode(s) ==
  IF ~AllDigits(s) THEN Err
  ELSE LET p == Pad(s) IN
       Ok([i \in 1..(Len(p) \div 2) |-> 16 * (p[2 * i - 1] - 48) + (p[2 * i] - 48)])

ValidBcdByte(b) == b \div 16 <= 9 /\ b % 16 <= 9
AllBcd(b) == \A i \in 1..Len(b) : ValidBcdByte(b[i])

\* 2n digits of n bytes; error iff any nibble exceeds 9
BcdDecode(b) ==
  IF ~AllBcd(b) THEN Err
  ELSE Ok([i \in 1..(2 * Len(b)) |-> 48 + (IF i % 2 = 1 THEN b[(i + 1) \div 2] \div 16 ELSE b[i \div 2] % 16)])

\* numeric helpers used by the calendar / wire layers: digits (as numbers) of a byte string
Bcd2(b) == 10 * (b \div 16) + (b % 16)            \* value of one BCD byte (valid nibbles)
ToBcd2(n) == 16 * (n \div 10) + (n % 10)          \* BCD byte of 0..99

\* ---- the laws of the property, as operators over one input ----
LawEncodeShape(s) ==
  LET r == BcdEncode(s) IN
  IF AllDigits(s) THEN r.t = "ok" /\ Len(r.v) = (Len(s) + 1) \div 2 ELSE r = Err
LawDecodeEncode(s) ==
  AllDigits(s) => BcdDecode(BcdEncode(s).v) = Ok(Pad(s))
LawDecodeShape(b) ==
  LET r == BcdDecode(b) IN
  IF AllBcd(b) THEN r.t = "ok" /\ Len(r.v) = 2 * Len(b) /\ AllDigits(r.v) ELSE r = Err
LawEncodeDecode(b) ==
  AllBcd(b) => BcdEncode(BcdDecode(b).v) = Ok(b)
======================================================================
