SPECIFICATION FairSpec
CONSTANTS
  T = 2
  MaxDgrams = 2
  UseMutex = TRUE
  RearmWindow = FALSE
  HandOff = TRUE
PROPERTY ReaderQuits
CHECK_DEADLOCK FALSE
