SPECIFICATION Spec
CONSTANTS
  Cfgs = {1, 2, 3}
  MaxSteps = 6
  SharesDeviceList = FALSE
  SharesReturnedMap = FALSE
  SharesBuffer = TRUE
INVARIANT RoutesBySnapshot
INVARIANT HeldStable
CHECK_DEADLOCK FALSE
