--------------------------- MODULE Trace_C12 ---------------------------
(* C12: every recorded call of bcd.Encode / bcd.Decode in the real code must be explained    *)
(* by the specification operators of Bcd.tla.                                                *)
(* Event kinds:                                                                              *)
(*   enc   in = UTF-8 bytes of the string, out = result, rt = Decode(out) when out is ok      *)
(*   dec   in = bytes, out = result, rt = Encode(out) when out is ok                          *)
(*   dec3  summarised exhaustive 3-byte decode: for the two leading bytes p, `okset` is the    *)
(*         set of third bytes for which Decode succeeded and `echo` says every success         *)
(*         returned exactly the six digits of its input (checked by the harness against       *)
(*         fmt "%02x" rendering, which for valid BCD *is* the digit string)                   *)
EXTENDS TraceKit, Bcd

P == "C12"

ResOf(o) == IF o.t = "ok" THEN Ok(o.v) ELSE [t |-> o.t]

CheckEnc(e) ==
  LET want == BcdEncode(e.in) got == ResOf(e.out) IN
  /\ Judge(P, "EncodeExact", got = want, got, want)
  /\ Judge(P, "NoPanic", e.out.t # "panic", e.out.t, "no panic")
  /\ (IF e.out.t = "ok" /\ want.t = "ok"
        THEN Judge(P, "DecodeOfEncode", ResOf(e.rt) = Ok(Pad(e.in)), ResOf(e.rt), Ok(Pad(e.in)))
        ELSE TRUE)

CheckDec(e) ==
  LET want == BcdDecode(e.in) got == ResOf(e.out) IN
  /\ Judge(P, "DecodeExact", got = want, got, want)
  /\ Judge(P, "NoPanic", e.out.t # "panic", e.out.t, "no panic")
  /\ (IF e.out.t = "ok" /\ want.t = "ok"
        THEN Judge(P, "EncodeOfDecode", ResOf(e.rt) = Ok(e.in), ResOf(e.rt), Ok(e.in))
        ELSE TRUE)

CheckDec3(e) ==
  LET want == IF ValidBcdByte(e.p[1]) /\ ValidBcdByte(e.p[2]) THEN {b \in 0..255 : ValidBcdByte(b)} ELSE {}
      got == {e.okset[i] : i \in 1..Len(e.okset)} IN
  /\ Judge(P, "Decode3AcceptSet", got = want, e.p, "accept set")
  /\ Judge(P, "Decode3Digits", e.echo, e.p, "digits echo the input")

Check(e) == CASE e.fn = "enc" -> CheckEnc(e)
              [] e.fn = "dec" -> CheckDec(e)
              [] e.fn = "dec3" -> CheckDec3(e)

TraceNext == l <= Len(Trace) /\ Check(Trace[l]) /\ l' = l + 1
========================================================================
