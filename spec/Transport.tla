----------------------------- MODULE Transport -----------------------------
(* The request/response transport of uhppote-core (uhppote/UT0311.go + sendto in            *)
(* uhppote/uhppote.go) as a state machine: calls x process-wide guard x sockets x clock x    *)
(* adversarial network x controllers.                                                        *)
(*                                                                                          *)
(* One action per critical section of the code:                                             *)
(*   Enter     the API call is made: id-0 refusal or request marshalled                      *)
(*   Lock      guard.Lock() (only with a fixed bind port)                                    *)
(*   Send      ListenUDP/Dial + SetDeadline + Write, atomically relative to a tick:          *)
(*             exactly one datagram / segment leaves for Route(c)                            *)
(*   Recv      one datagram taken from the socket: skipped (broadcast filter), accepted or     *)
(*             refused                                                                       *)
(*   Timeout   the absolute deadline expired in a read                                       *)
(*   PeerErr   the peer refused / reset (TCP), ICMP port unreachable (connected UDP)         *)
(*   Finish    deferred Close + guard.Unlock                                                 *)
(*   Return    the caller has the result                                                     *)
(* and of the environment: Deliver (network -> socket queue), Stray (anybody may send          *)
(* anything to an unconnected socket), Tick.                                                  *)
(*                                                                                          *)
(* Client steps are urgent: time passes (Tick) only when no client step, delivery or time-out  *)
(* is due. Design switches re-introduce defects for the expected-to-fail configurations.       *)
EXTENDS Integers, Sequences, FiniteSets, TLC

CONSTANTS
  Calls,               \* call identifiers
  T,                   \* timeout in ticks
  MaxNow,              \* clock bound
  FixedPort,           \* BOOLEAN: every call binds the same fixed local port (else an ephemeral one each)
  CallCfg,             \* [Calls -> [path: {"bcast","udp","tcp"}, kind: {"normal","status","setaddr","badid"}, ctl: controller]]
  ReplyClasses,        \* classes of datagram a controller may answer with
  StrayClasses,        \* classes of datagram strangers may inject (broadcast path only)
  MaxReplies,          \* datagrams per controller answer (1 or 2)
  MaxStray,            \* total stray datagrams
  MaxEnter,            \* calls start at now <= MaxEnter
  MaxDelay,            \* controller reply delay bound (T-1: always timely)
  PeerFaults,          \* subset of {"silence","refused","reset","closed","blackhole"} the controller side may choose instead of replying
                       \* (blackhole: TCP only - the SYN is never answered, the connect itself must give up at the deadline;
                       \*  slowstall: TCP only - the handshake completes only after a delay, then the peer accepts and stalls:
                       \*  dial, write and read share ONE absolute deadline taken when the dial starts)
  DeadlineBeforeLock,  \* design switch (defect F10: deadline computed before waiting for the guard)
  NoGuard,             \* design switch (no process-wide lock around a fixed port)
  GuardPerClient,      \* design switch (the lock belongs to a client instead of the process: clients do not exclude each other)
  RearmPerRead,        \* design switch (deadline re-armed before every read: a flood keeps a call alive)
  NoCloseOnError,      \* design switch (socket not closed on the error path)
  RearmAfterConnect,   \* design switch (TCP: the deadline is taken again once the connection is established)
  UdpStrays            \* "none": strangers send to broadcast-path calls only (bounds the exhaustive configurations)
                       \* "dropped": they also send to the port of a connected-UDP call - the socket is connected to the
                       \*            controller, the kernel never shows them to the call
                       \* "received": design switch (the directed UDP path on an UNconnected socket: they are read)

VARIABLES now, pc, guard, dl, askedAt, q, open, pend, out, plan, strays, sends, hist

vars == <<now, pc, guard, dl, askedAt, q, open, pend, out, plan, strays, sends, hist>>

None == "none"
Path(c) == CallCfg[c].path
Kind(c) == CallCfg[c].kind
Ctl(c) == CallCfg[c].ctl
\* Several clients coexist in the process (Rig L builds one per delivery path); the guard of the code is a
\* package-level mutex, i.e. shared by all of them.
Client(c) == Path(c)

\* ---- how a datagram of class `cls` is treated by a call (C03) ---------------------------------
(* valid      64 bytes, right protocol id, the call's function code, the call's serial, all fields ok *)
(* badlen     wrong length; badserial / serial0: another (or no) serial number                        *)
(* badcode    wrong function code; badproto: wrong protocol id; proto19: protocol id 0x19              *)
(* malformed  passes as the controller's but a field is outside its domain                            *)
Verdict(c, cls) ==
  CASE cls = "valid" -> "accept"
    [] cls = "proto19" -> IF Kind(c) = "status" THEN "accept" ELSE "fail"
    [] cls \in {"badlen", "badserial", "serial0"} -> IF Path(c) = "bcast" THEN "skip" ELSE "fail"
    [] cls \in {"badcode", "badproto", "malformed"} -> "fail"

Init ==
  /\ now = 0
  /\ pc = [c \in Calls |-> "idle"]
  /\ guard = {}
  /\ dl = [c \in Calls |-> -1]
  /\ askedAt = [c \in Calls |-> -1]
  /\ q = [c \in Calls |-> <<>>]
  /\ open = {}
  /\ pend = {}
  /\ out = [c \in Calls |-> [kind |-> None, from |-> None, cls |-> None, at |-> -1]]
  /\ plan = [c \in Calls |-> <<>>]
  /\ strays = 0
  /\ sends = [c \in Calls |-> 0]
  /\ hist = <<>>

Log(e) == hist' = Append(hist, e)

\* ---- client ------------------------------------------------------------------------------------
Enter(c) ==
  /\ pc[c] = "idle" /\ now <= MaxEnter
  /\ IF Kind(c) = "badid"
       THEN /\ pc' = [pc EXCEPT ![c] = "done"]
            /\ out' = [out EXCEPT ![c] = [kind |-> "rejected", from |-> None, cls |-> None, at |-> now]]
            /\ UNCHANGED dl
       ELSE /\ pc' = [pc EXCEPT ![c] = "entered"]
            /\ dl' = IF DeadlineBeforeLock THEN [dl EXCEPT ![c] = now + T] ELSE dl
            /\ UNCHANGED out
  /\ Log([a |-> "Enter", c |-> c, t |-> now])
  /\ UNCHANGED <<now, guard, askedAt, q, open, pend, plan, strays, sends>>

NeedsGuard == FixedPort /\ ~NoGuard
\* `guard` is the set of calls holding the lock: at most one in the design as built (a process-wide mutex)
Excludes(h, c) == IF GuardPerClient THEN Client(h) = Client(c) ELSE TRUE
CanLock(c) == \A h \in guard : ~Excludes(h, c)

Lock(c) ==
  /\ pc[c] = "entered"
  /\ IF NeedsGuard THEN CanLock(c) /\ guard' = guard \cup {c} ELSE UNCHANGED guard
  /\ pc' = [pc EXCEPT ![c] = "locked"]
  /\ UNCHANGED <<now, dl, askedAt, q, open, pend, out, plan, strays, sends, hist>>

\* what the controller side does with a request: a peer fault, or a sequence of 1..MaxReplies datagrams
ReplySeqs == UNION {[1..n -> ReplyClasses \X (0..MaxDelay)] : n \in 1..MaxReplies}
Ordered(s) == \A i \in 1..(Len(s) - 1) : s[i][2] <= s[i + 1][2]
Plans(c) == (IF Path(c) = "tcp" /\ "slowstall" \in PeerFaults THEN {<<<<"slowstall", cd>>>> : cd \in 1..(T - 1)} ELSE {}) \cup
            {<<<<f, 0>>>> : f \in PeerFaults \cap (IF Path(c) = "tcp" THEN {"silence", "refused", "reset", "closed", "blackhole"} ELSE IF Path(c) = "udp" THEN {"silence", "refused"} ELSE {"silence"})}
            \cup {s \in ReplySeqs : Ordered(s)}
IsFault(p) == Len(p) = 1 /\ p[1][1] \in {"silence", "refused", "reset", "closed", "blackhole", "slowstall"}

\* a fixed port that is still held by an open socket cannot be bound again (the OS port table)
PortBusy(c) == FixedPort /\ open # {}

Send(c) ==
  /\ pc[c] = "locked"
  /\ LET d == IF DeadlineBeforeLock THEN dl[c] ELSE now + T IN
     IF PortBusy(c) \/ d <= now
       THEN \* bind fails / the deadline already expired: the dial or write fails, nothing leaves
            /\ out' = [out EXCEPT ![c] = [kind |-> IF PortBusy(c) THEN "binderr" ELSE "timeout", from |-> None, cls |-> None, at |-> now]]
            /\ pc' = [pc EXCEPT ![c] = "closing"]
            /\ Log([a |-> "SendFailed", c |-> c, t |-> now])
            /\ UNCHANGED <<dl, askedAt, open, pend, plan, sends>>
       ELSE \E p \in Plans(c) :
            /\ plan' = [plan EXCEPT ![c] = p]
            /\ IF p[1][1] = "refused" /\ Path(c) = "tcp"
                 THEN \* connection refused: the dial fails, nothing was sent
                      /\ out' = [out EXCEPT ![c] = [kind |-> "peererr", from |-> None, cls |-> "refused", at |-> now]]
                      /\ pc' = [pc EXCEPT ![c] = "closing"]
                      /\ askedAt' = [askedAt EXCEPT ![c] = now]
                      /\ UNCHANGED <<dl, open, pend, sends>>
                 ELSE IF p[1][1] = "slowstall"
                 THEN \* the dial starts (socket bound, deadline armed) but the handshake takes p[1][2] ticks: see Connect
                      /\ dl' = [dl EXCEPT ![c] = d]
                      /\ open' = open \cup {c}
                      /\ askedAt' = [askedAt EXCEPT ![c] = now]
                      /\ pc' = [pc EXCEPT ![c] = "dialing"]
                      /\ UNCHANGED <<out, pend, sends>>
                 ELSE IF p[1][1] = "blackhole"
                 THEN \* the SYN is never answered: the socket is bound and the dial waits, bounded by the same deadline;
                      \* no request ever leaves
                      /\ dl' = [dl EXCEPT ![c] = d]
                      /\ open' = open \cup {c}
                      /\ askedAt' = [askedAt EXCEPT ![c] = now]
                      /\ pc' = [pc EXCEPT ![c] = "sent"]
                      /\ UNCHANGED <<out, pend, sends>>
                 ELSE /\ dl' = [dl EXCEPT ![c] = d]
                      /\ open' = open \cup {c}
                      /\ sends' = [sends EXCEPT ![c] = @ + 1]
                      /\ askedAt' = [askedAt EXCEPT ![c] = now]
                      /\ IF Kind(c) = "setaddr"
                           THEN \* controllers do not answer function 0x96: success once sent, nothing is read
                                /\ out' = [out EXCEPT ![c] = [kind |-> "ok", from |-> None, cls |-> None, at |-> now]]
                                /\ pc' = [pc EXCEPT ![c] = "closing"]
                                /\ UNCHANGED pend
                           ELSE /\ pc' = [pc EXCEPT ![c] = "sent"]
                                /\ UNCHANGED out
                                /\ pend' = IF IsFault(p) THEN pend
                                           ELSE pend \cup {[to |-> c, cls |-> p[i][1], at |-> now + p[i][2], reqOf |-> c, n |-> i] : i \in 1..Len(p)}
            /\ Log([a |-> "Send", c |-> c, t |-> now, plan |-> p])
  /\ UNCHANGED <<now, guard, q, strays>>

\* the slow handshake completes: the request is written now - under the deadline that was armed when the dial started
Connect(c) ==
  /\ pc[c] = "dialing" /\ now >= askedAt[c] + plan[c][1][2] /\ now < dl[c]
  /\ sends' = [sends EXCEPT ![c] = @ + 1]
  /\ IF Kind(c) = "setaddr"
       THEN /\ out' = [out EXCEPT ![c] = [kind |-> "ok", from |-> None, cls |-> None, at |-> now]]
            /\ pc' = [pc EXCEPT ![c] = "closing"]
       ELSE /\ pc' = [pc EXCEPT ![c] = "sent"] /\ UNCHANGED out
  /\ dl' = IF RearmAfterConnect THEN [dl EXCEPT ![c] = now + T] ELSE dl
  /\ Log([a |-> "Connect", c |-> c, t |-> now])
  /\ UNCHANGED <<now, guard, askedAt, q, open, pend, plan, strays>>

\* sockets a datagram addressed to call `to`'s local port can end up in
Receivers(p) ==
  IF Path(p.to) = "tcp" THEN {p.to} \cap open                    \* travels on its own connection
  ELSE IF ~FixedPort THEN {p.to} \cap open                        \* its own ephemeral port
  ELSE {r \in open : Path(r) # "tcp" /\ (Path(r) = "bcast" \/ Ctl(r) = Ctl(p.reqOf))}   \* the shared port; connected sockets filter by peer

Deliver(p) ==
  /\ p \in pend /\ p.at <= now
  /\ \A p2 \in pend : (p2.reqOf = p.reqOf /\ p2.n < p.n) => FALSE       \* a controller's datagrams arrive in order
  /\ pend' = pend \ {p}
  /\ IF Receivers(p) = {} THEN UNCHANGED q
     ELSE \E r \in Receivers(p) : q' = [q EXCEPT ![r] = Append(@, [cls |-> p.cls, reqOf |-> p.reqOf])]
  /\ UNCHANGED <<now, pc, guard, dl, askedAt, open, out, plan, strays, sends, hist>>

\* a stranger (or another controller answering the same broadcast) sends to the call's port;
\* only unconnected (broadcast path) sockets receive from strangers
Stray(c, cls) ==
  /\ pc[c] = "sent" /\ (Path(c) = "bcast" \/ (Path(c) = "udp" /\ UdpStrays # "none")) /\ strays < MaxStray /\ now < dl[c]
  /\ strays' = strays + 1
  /\ q' = IF Path(c) = "bcast" \/ UdpStrays = "received" THEN [q EXCEPT ![c] = Append(@, [cls |-> cls, reqOf |-> None])] ELSE q
  /\ Log([a |-> "Stray", c |-> c, t |-> now, rel |-> now - askedAt[c], cls |-> cls])
  /\ UNCHANGED <<now, pc, guard, dl, askedAt, open, pend, out, plan, sends>>

\* whatever another controller answers carries that controller's serial number: to this call it is a
\* wrong-serial datagram (unless its length is wrong already). The protocol has no request id, so the
\* reply to ANOTHER call's request to the SAME controller and function is indistinguishable (NoCrossedReply)
EffectiveClass(c, d) ==
  IF d.reqOf # None /\ Ctl(d.reqOf) # Ctl(c) /\ d.cls # "badlen" THEN "badserial" ELSE d.cls

Recv(c) ==
  /\ pc[c] = "sent" /\ q[c] # <<>> /\ now < dl[c]
  /\ LET d == Head(q[c]) v == Verdict(c, EffectiveClass(c, d)) IN
     /\ q' = [q EXCEPT ![c] = Tail(@)]
     /\ dl' = IF RearmPerRead THEN [dl EXCEPT ![c] = now + T] ELSE dl
     /\ CASE v = "skip" -> UNCHANGED <<pc, out>>
          [] v = "accept" -> /\ out' = [out EXCEPT ![c] = [kind |-> "ok", from |-> d.reqOf, cls |-> d.cls, at |-> now]]
                             /\ pc' = [pc EXCEPT ![c] = "closing"]
          [] v = "fail" -> /\ out' = [out EXCEPT ![c] = [kind |-> "fail", from |-> d.reqOf, cls |-> d.cls, at |-> now]]
                           /\ pc' = [pc EXCEPT ![c] = "closing"]
          [] OTHER -> FALSE     \* (no such verdict; states the CASE is exhaustive - needed by spec/proofs/TransportProofs.tla)
  /\ UNCHANGED <<now, guard, askedAt, open, pend, plan, strays, sends, hist>>

Timeout(c) ==
  /\ pc[c] \in {"sent", "dialing"} /\ now >= dl[c]
  /\ out' = [out EXCEPT ![c] = [kind |-> "timeout", from |-> None, cls |-> None, at |-> now]]
  /\ pc' = [pc EXCEPT ![c] = "closing"]
  /\ UNCHANGED <<now, guard, dl, askedAt, q, open, pend, plan, strays, sends, hist>>

\* TCP reset / ICMP port unreachable / the TCP peer closes the connection without having sent a byte ("closed": an orderly
\* end of stream is no reply - the call fails, it does not report a result): the read fails at once
PeerErr(c) ==
  /\ pc[c] = "sent" /\ plan[c] # <<>> /\ plan[c][1][1] \in {"reset", "refused", "closed"}
  /\ out' = [out EXCEPT ![c] = [kind |-> "peererr", from |-> None, cls |-> plan[c][1][1], at |-> now]]
  /\ pc' = [pc EXCEPT ![c] = "closing"]
  /\ UNCHANGED <<now, guard, dl, askedAt, q, open, pend, plan, strays, sends, hist>>

\* deferred Close + guard.Unlock: from here on the port and the guard are free for the next call ...
Finish(c) ==
  /\ pc[c] = "closing"
  /\ open' = IF NoCloseOnError /\ out[c].kind \notin {"ok"} THEN open ELSE open \ {c}
  /\ guard' = guard \ {c}
  /\ pc' = [pc EXCEPT ![c] = "returning"]
  /\ Log([a |-> "Return", c |-> c, t |-> now, kind |-> out[c].kind, cls |-> out[c].cls, from |-> out[c].from,
          rel |-> IF askedAt[c] = -1 THEN -1 ELSE now - askedAt[c]])
  /\ UNCHANGED <<now, dl, askedAt, q, pend, out, plan, strays, sends>>

\* ... and only then does the caller see the result (another call may be served in between)
Return(c) ==
  /\ pc[c] = "returning"
  /\ pc' = [pc EXCEPT ![c] = "done"]
  /\ UNCHANGED <<now, guard, dl, askedAt, q, open, pend, out, plan, strays, sends, hist>>

\* ---- time ----------------------------------------------------------------------------------------
Urgent ==
  \/ \E p \in pend : p.at <= now
  \/ \E c \in Calls : pc[c] = "sent" /\ (q[c] # <<>> \/ now >= dl[c] \/ (plan[c] # <<>> /\ plan[c][1][1] \in {"reset", "refused", "closed"}))
  \/ \E c \in Calls : pc[c] \in {"closing", "locked", "returning"}
  \/ \E c \in Calls : pc[c] = "dialing" /\ (now >= askedAt[c] + plan[c][1][2] \/ now >= dl[c])
  \/ \E c \in Calls : pc[c] = "entered" /\ (CanLock(c) \/ ~NeedsGuard)

Tick ==
  /\ now < MaxNow /\ ~Urgent
  /\ \E c \in Calls : pc[c] # "done" /\ (pc[c] # "idle" \/ now < MaxEnter)
  /\ now' = now + 1
  /\ UNCHANGED <<pc, guard, dl, askedAt, q, open, pend, out, plan, strays, sends, hist>>

Next ==
  \/ Tick
  \/ \E c \in Calls : Enter(c) \/ Lock(c) \/ Send(c) \/ Connect(c) \/ Recv(c) \/ Timeout(c) \/ PeerErr(c) \/ Finish(c) \/ Return(c)
  \/ \E c \in Calls, cls \in StrayClasses : Stray(c, cls)
  \/ \E p \in pend : Deliver(p)

Spec == Init /\ [][Next]_vars
FairSpec == Spec /\ WF_vars(Next)

\* ---- properties -----------------------------------------------------------------------------------
Normal(c) == Kind(c) \in {"normal", "status"}
AllDone == \A c \in Calls : pc[c] = "done"

TypeOK == now \in 0..MaxNow /\ guard \subseteq Calls /\ open \subseteq Calls
GuardExclusive == Cardinality(guard) <= 1

\* C03 -- only a well-formed reply from the addressed controller is ever accepted
AcceptOnlyValid == \A c \in Calls : (out[c].kind = "ok" /\ Normal(c)) => Verdict(c, out[c].cls) = "accept"
\* C03 -- on the broadcast path wrong-length / wrong-serial datagrams never fail a call
BcastKeepsWaiting == \A c \in Calls : (out[c].kind = "fail" /\ Path(c) = "bcast") => out[c].cls \notin {"badlen", "badserial", "serial0"}
\* C03 -- a datagram that passes as the controller's but is bad fails the call; directed paths: the first datagram decides
FailOnlyOnBad == \A c \in Calls : out[c].kind = "fail" => Verdict(c, EffectiveClass(c, [cls |-> out[c].cls, reqOf |-> out[c].from])) = "fail"
\* C03 -- set-address succeeds once sent and never consumes a datagram
SetAddrNeverReads == \A c \in Calls : (Kind(c) = "setaddr" /\ pc[c] = "done") => (out[c].kind \in {"ok", "timeout", "peererr", "binderr"} /\ out[c].from = None)

\* C06 / C07 -- exactly one request per accepted call, none for a refused one
ExactlyOneSend == \A c \in Calls : pc[c] = "done" =>
                    sends[c] = (IF out[c].kind \in {"rejected", "binderr"} \/ (out[c].kind = "timeout" /\ askedAt[c] = -1)
                                   \/ (out[c].kind = "peererr" /\ out[c].cls = "refused" /\ Path(c) = "tcp")
                                   \/ (plan[c] # <<>> /\ plan[c][1][1] = "blackhole") THEN 0 ELSE 1)
RejectedSendsNothing == \A c \in Calls : Kind(c) = "badid" => sends[c] = 0 /\ (pc[c] = "done" => out[c].kind = "rejected")

\* C08 -- replies are never crossed between calls
NoCrossedReplyStrict == \A c \in Calls : (out[c].kind = "ok" /\ Normal(c)) => out[c].from = c
\* ... outside C08's domain (late replies, failure-inducing strays) a reply can be taken over only from a call that had given up
NoCrossedReply == \A c \in Calls : (out[c].kind = "ok" /\ Normal(c)) =>
                    (out[c].from = c \/ (out[c].from \in Calls /\ pc[out[c].from] \in {"closing", "returning", "done"}))
PortExclusive == FixedPort => Cardinality(open) <= 1
NoBindError == \A c \in Calls : out[c].kind # "binderr"
\* C08 / C09 -- a controller that answers validly within T of being asked is heard, whatever time was spent queueing
AnsweredFirstValid(c) == plan[c] # <<>> /\ ~IsFault(plan[c]) /\ plan[c][1][1] = "valid" /\ plan[c][1][2] < T
TimelyAnswerAccepted ==
  \A c \in Calls : (pc[c] = "done" /\ Normal(c) /\ AnsweredFirstValid(c) /\ strays = 0) => out[c].kind = "ok"

\* C06 -- the directed UDP path uses a socket CONNECTED to the controller: whatever strangers send to the call's port, a
\* controller that answers validly in time is heard (and nothing a stranger sends can end the call)
StrangersCannotTouchDirected ==
  \A c \in Calls : (pc[c] = "done" /\ Normal(c) /\ Path(c) = "udp" /\ AnsweredFirstValid(c)) => out[c].kind = "ok"

\* C09 -- every call ends within its timeout of being served, never gives up early, releases its socket
DeadlineFromAsk == \A c \in Calls : (askedAt[c] # -1 /\ pc[c] \in {"sent", "dialing"}) => dl[c] = askedAt[c] + T
NoEarlyGiveUp == \A c \in Calls : out[c].kind = "timeout" => (askedAt[c] # -1 /\ out[c].at >= askedAt[c] + T)
BoundedReturn == \A c \in Calls : (pc[c] \in {"sent", "dialing"}) => now <= askedAt[c] + T
Released == \A c \in Calls : pc[c] \in {"returning", "done"} => (c \notin open /\ c \notin guard)
Termination == \A c \in Calls : (pc[c] = "entered") ~> (pc[c] = "done")

\* history variables are output only
View == <<now, pc, guard, dl, askedAt, q, open, pend, out, plan, strays, sends>>
=============================================================================
