SPECIFICATION Spec
CONSTANTS
  MaxDgrams = 3
  Senders = {"s1"}
  SpawnPerEvent = FALSE
  DropWhenBusy = TRUE
  DoneOnClose = FALSE
INVARIANT ErrorsInOrderOnce
INVARIANT Complete
CHECK_DEADLOCK FALSE
