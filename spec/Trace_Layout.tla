-------------------------- MODULE Trace_Layout --------------------------
(* C18: the codec is generic over message layouts. Each event is one layout declared with the        *)
(* codec's field tags (built by the harness with reflect.StructOf), a value of it, its encoding, the     *)
(* decoding of that, the decoding of a copy whose function code or fixed value was changed, and          *)
(* whether the decoded value changed when the input buffer was overwritten. The layout itself is part     *)
(* of the event: the specification's EncodedOK / DecodeFields are applied to it as they are to the        *)
(* shipped message tables.                                                                               *)
EXTENDS TraceKit, Wire

CheckLayout(e) ==
  IF Has(e, "skip") THEN TRUE
  ELSE LET L == e.layout IN
  /\ Judge("C18", "WellFormedLayout", FitsIn64(L) /\ NoOverlap(L), L, "fits, no overlap")     \* (the generator's duty)
  /\ Judge("C18", "NoPanic", e.enc.t # "panic" /\ e.dec.t # "panic" /\ e.decwrong.t # "panic", <<e.enc, e.dec.t, e.decwrong.t>>, L)
  /\ Judge("C18", "NoPanicZeroValue", e.enczero.t # "panic", e.enczero, L)     \* unset addresses, nil slices / pointers
  /\ Judge("C18", "EncodeExact", e.enc.t = "ok" /\ EncodedOK(L, 23, e.vals, e.enc.b), e.enc, <<L, e.vals>>)
  /\ Judge("C18", "EncodeViaPointer", e.encptr = e.enc, e.encptr, e.enc)      \* Marshal(&msg) = Marshal(msg)
  /\ (IF e.enc.t = "ok"
        THEN /\ Judge("C18", "RoundTrip", e.dec.t = "ok" /\ e.dec.v = e.vals, e.dec, e.vals)
             /\ Judge("C18", "ReuseIndependent", e.decreuse.t = "none" \/ (e.decreuse.t = "ok" /\ e.decreuse.v = e.vals), e.decreuse, e.vals)
             /\ Judge("C18", "NoAlias", ~e.aliased, L, "decoded values share no memory with the input buffer")
             /\ Judge("C18", "TagsEnforced", e.decwrong.t = "err", e.decwrong, "a wrong function code / fixed value is refused")
        ELSE TRUE)

TraceNext == l <= Len(Trace) /\ CheckLayout(Trace[l]) /\ l' = l + 1
=========================================================================
