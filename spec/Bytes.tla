---------------------------- MODULE Bytes ----------------------------
(* Byte-level vocabulary of the UT0311-L0x wire format.                                   *)
(* A byte is an integer 0..255, a message a sequence of 64 bytes. TLC integers are 32-bit   *)
(* signed, so every 32-bit quantity is a pair <<hi16, lo16>> ("u32 pair").                  *)
EXTENDS Integers, Sequences

Byte == 0..255
IsByte(b) == b \in Byte
IsBytes(s) == \A i \in 1..Len(s) : s[i] \in Byte

Zeros(n) == [i \in 1..n |-> 0]
Zero64 == Zeros(64)

\* little-endian / big-endian 16 bit
LE16(n) == <<n % 256, n \div 256>>
BE16(n) == <<n \div 256, n % 256>>
FromLE16(b) == b[1] + 256 * b[2]
FromBE16(b) == 256 * b[1] + b[2]

\* 32-bit values as pairs <<hi, lo>> of 16-bit halves
IsU32(p) == p[1] \in 0..65535 /\ p[2] \in 0..65535
LE32(p) == LE16(p[2]) \o LE16(p[1])
FromLE32(b) == <<b[3] + 256 * b[4], b[1] + 256 * b[2]>>
U32Zero == <<0, 0>>
U32Max == <<65535, 65535>>
U32LE(p, q) == p[1] < q[1] \/ (p[1] = q[1] /\ p[2] <= q[2])
\* small constants as pairs
U32(n) == <<n \div 65536, n % 65536>>

\* 24-bit little endian (PIN): pair with hi < 256
LE24(p) == LE16(p[2]) \o <<p[1] % 256>>
FromLE24(b) == <<b[3], b[1] + 256 * b[2]>>

\* sub-sequence s[from..to] (1-based, inclusive), total
Slice(s, from, to) == [i \in 1..(IF to >= from THEN to - from + 1 ELSE 0) |-> s[from + i - 1]]

\* msg with bytes `b` written at 0-based offset `off`
Overlay(msg, off, b) == [i \in 1..Len(msg) |-> IF i > off /\ i <= off + Len(b) THEN b[i - off] ELSE msg[i]]

\* field at 0-based offset `off`, `n` bytes
Field(msg, off, n) == [i \in 1..n |-> msg[off + i]]
======================================================================
