SPECIFICATION Spec
CONSTANTS
  MaxDgrams = 3
  Senders = {"s1"}
  SpawnPerEvent = TRUE
INVARIANT EventsInOrderOnce
CHECK_DEADLOCK FALSE
