SPECIFICATION Spec
CONSTANTS
  Calls = {"a"}
  T = 2
  MaxNow = 9
  FixedPort = FALSE
  CallCfg <- C2same
  ReplyClasses = {"valid"}
  StrayClasses = {"badserial"}
  MaxReplies = 1
  MaxStray = 3
  MaxEnter = 0
  MaxDelay = 0
  PeerFaults = {"silence"}
  DeadlineBeforeLock = FALSE
  NoGuard = FALSE
  GuardPerClient = FALSE
  RearmPerRead = TRUE
  NoCloseOnError = FALSE
  RearmAfterConnect = FALSE
  UdpStrays = "none"
VIEW View
CHECK_DEADLOCK FALSE
INVARIANT BoundedReturn
