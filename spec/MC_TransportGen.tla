------------------------- MODULE MC_TransportGen -------------------------
(* Specification -> code (G): behaviours of Transport.tla written out as scripts. Run with      *)
(* `tlc -simulate`; every behaviour that reaches AllDone is exported once (its history          *)
(* variable), as ndjson: first line the configuration, then one line per logged step.           *)
EXTENDS MC_Transport, Json, IOUtils

Header == [a |-> "Cfg", T |-> T, fixed |-> FixedPort, calls |-> CallCfg, group |-> IOEnv.VF_GROUP]
Export ==
  IF AllDone
    THEN ndJsonSerialize(IOEnv.VF_OUT \o "/beh_" \o IOEnv.VF_GROUP \o "_" \o ToString(TLCGet("stats").traces) \o ".ndjson", <<Header>> \o hist)
    ELSE TRUE
\* stop a behaviour once everything returned (nothing more to learn from it)
NotDoneYet == TRUE
==========================================================================
