------------------------------- MODULE Api -------------------------------
(* The API layer of uhppote-core as a specification: for each of the 32 request-issuing      *)
(* operations, which argument tuples are refused (Reject), which request goes on the wire     *)
(* (Request), and what a reply means (Interpret, sentinels included).                         *)
(*                                                                                          *)
(* Arguments arrive as JSON records written by a deliberately dumb projection in the harness: *)
(*   serial, card, index, pin, passcodes   <<hi16, lo16>>                                     *)
(*   maps                                  sequences of <<key, value>> (absent key = zero)    *)
(*   dates / date-times                    tagged civil records (Calendar.tla)                *)
(*   net.IP                                its raw bytes (length 0, 4, 16 or other)           *)
(*   netip.AddrPort                        [valid, ip (4 or 16 raw bytes), zone, port]        *)
EXTENDS Wire, Messages

\* ---- helpers ---------------------------------------------------------------------------
Lookup(pairs, key, default) ==
  IF \E i \in 1..Len(pairs) : pairs[i][1] = key
    THEN pairs[CHOOSE i \in 1..Len(pairs) : pairs[i][1] = key][2]
    ELSE default
HasKey(pairs, key) == \E i \in 1..Len(pairs) : pairs[i][1] = key

\* net.IP -> 4 bytes, or <<>> when it is not an IPv4 address (To4 semantics: 4 bytes, or the
\* 16-byte IPv4-mapped form ::ffff:a.b.c.d)
V4InV6Prefix == <<0, 0, 0, 0, 0, 0, 0, 0, 0, 0, 255, 255>>
To4(ip) == IF Len(ip) = 4 THEN ip
           ELSE IF Len(ip) = 16 /\ Slice(ip, 1, 12) = V4InV6Prefix THEN Slice(ip, 13, 16)
           ELSE <<>>
IsV4(ip) == To4(ip) # <<>>

\* card number formats
U32Val(p) == p[1] * 65536 + p[2]                 \* only used when p[1] < 1526 (value < 10^8)
IsW26(n) == /\ n[1] < 1526                        \* n < 100 007 936, so the product below cannot overflow TLC's 32-bit integers
            /\ U32Val(n) <= 99999999
            /\ U32Val(n) \div 100000 <= 255
            /\ U32Val(n) % 100000 <= 65535
FormatOK(n, f) == CASE f = 0 -> TRUE            \* any
                    [] f = 1 -> IsW26(n)         \* Wiegand-26
                    [] OTHER -> FALSE            \* unknown format: matches nothing
CardFormatsOK(n, formats) == Len(formats) = 0 \/ \E i \in 1..Len(formats) : FormatOK(n, formats[i])

Le999999(p) == p[1] < 15 \/ (p[1] = 15 /\ p[2] <= 16959)       \* 999999 = 15 * 65536 + 16959

ReservedCard(n) == n = <<0, 0>> \/ n = <<65535, 65535>> \/ n = <<255, 65535>>

\* ---- Reject: the ONLY reasons for which a call may be refused before anything is sent ----------
Reject(op, a) ==
  \/ op # "GetDevices" /\ a.serial = <<0, 0>>
  \/ op = "PutCard" /\ (\/ ReservedCard(a.card.n)
                        \/ ~CardFormatsOK(a.card.n, a.formats)
                        \/ ~Le999999(a.card.pin))
  \/ op = "SetListener" /\ ~( /\ a.addr.valid
                              /\ Len(a.addr.ip) = 4 /\ ~a.addr.zone
                              /\ (a.addr.port # 0 \/ a.addr.ip = <<0, 0, 0, 0>>) )
  \/ op = "SetAddress" /\ (~IsV4(a.addr) \/ ~IsV4(a.mask) \/ ~IsV4(a.gw))
  \/ op = "SetDoorPasscodes" /\ a.door \notin 1..4
  \/ op = "SetTimeProfile" /\ (\/ a.profile.from.t = "zero"
                               \/ a.profile.to.t = "zero"
                               \/ \E k \in 1..3 : \/ ~HasKey(a.profile.segments, k)
                                                  \/ LET s == Lookup(a.profile.segments, k, [start |-> HM(0, 0), end |-> HM(0, 0)]) IN HHmmLT(s.end, s.start))

\* ---- Request: the field values of the request message ----------------------------------------
Weekday(pairs, d) == Lookup(pairs, d, FALSE)     \* time.Weekday: Sunday = 0 .. Saturday = 6
Passcode(codes, i) == IF Len(codes) >= i /\ Le999999(codes[i]) THEN codes[i] ELSE <<0, 0>>
ZeroSeg == [start |-> HM(0, 0), end |-> HM(0, 0)]

Fields(op, a) ==
  CASE op = "GetDevices" -> [SerialNumber |-> <<0, 0>>]
    [] op \in {"GetDevice", "GetListener", "GetTime", "GetStatus", "GetCards", "GetEventIndex"} ->
         [SerialNumber |-> a.serial]
    [] op \in {"DeleteCards", "ClearTimeProfiles", "ClearTaskList", "RefreshTaskList", "RestoreDefaultParameters"} ->
         [SerialNumber |-> a.serial, MagicWord |-> MagicWord]
    [] op = "SetAddress" -> [SerialNumber |-> a.serial, Address |-> To4(a.addr), Mask |-> To4(a.mask),
                             Gateway |-> To4(a.gw), MagicWord |-> MagicWord]
    [] op = "SetListener" -> [SerialNumber |-> a.serial, AddrPort |-> [ip |-> a.addr.ip, port |-> a.addr.port], Interval |-> a.interval]
    [] op = "SetTime" -> [SerialNumber |-> a.serial, DateTime |-> a.dt]
    [] op = "GetDoorControlState" -> [SerialNumber |-> a.serial, Door |-> a.door]
    [] op = "SetDoorControlState" -> [SerialNumber |-> a.serial, Door |-> a.door, ControlState |-> a.state % 256, Delay |-> a.delay]
    [] op = "GetCardByIndex" -> [SerialNumber |-> a.serial, Index |-> a.index]
    [] op = "GetCardByID" -> [SerialNumber |-> a.serial, CardNumber |-> a.card]
    [] op = "DeleteCard" -> [SerialNumber |-> a.serial, CardNumber |-> a.card]
    [] op = "PutCard" -> [SerialNumber |-> a.serial, CardNumber |-> a.card.n, From |-> a.card.from, To |-> a.card.to,
                          Door1 |-> Lookup(a.card.doors, 1, 0), Door2 |-> Lookup(a.card.doors, 2, 0),
                          Door3 |-> Lookup(a.card.doors, 3, 0), Door4 |-> Lookup(a.card.doors, 4, 0),
                          PIN |-> a.card.pin]
    [] op = "GetTimeProfile" -> [SerialNumber |-> a.serial, ProfileID |-> a.profile]
    [] op = "SetTimeProfile" ->
         LET p == a.profile seg(k) == Lookup(p.segments, k, ZeroSeg) IN
         [SerialNumber |-> a.serial, ProfileID |-> p.id, From |-> p.from, To |-> p.to,
          Monday |-> Weekday(p.weekdays, 1), Tuesday |-> Weekday(p.weekdays, 2), Wednesday |-> Weekday(p.weekdays, 3),
          Thursday |-> Weekday(p.weekdays, 4), Friday |-> Weekday(p.weekdays, 5), Saturday |-> Weekday(p.weekdays, 6),
          Sunday |-> Weekday(p.weekdays, 0),
          Segment1Start |-> seg(1).start, Segment1End |-> seg(1).end,
          Segment2Start |-> seg(2).start, Segment2End |-> seg(2).end,
          Segment3Start |-> seg(3).start, Segment3End |-> seg(3).end,
          LinkedProfileID |-> p.linked]
    [] op = "AddTask" ->
         LET t == a.task IN
         [SerialNumber |-> a.serial, From |-> t.from, To |-> t.to,
          Monday |-> Weekday(t.weekdays, 1), Tuesday |-> Weekday(t.weekdays, 2), Wednesday |-> Weekday(t.weekdays, 3),
          Thursday |-> Weekday(t.weekdays, 4), Friday |-> Weekday(t.weekdays, 5), Saturday |-> Weekday(t.weekdays, 6),
          Sunday |-> Weekday(t.weekdays, 0),
          Start |-> t.start, Door |-> t.door, Task |-> t.task % 256, MoreCards |-> t.cards]
    [] op = "RecordSpecialEvents" -> [SerialNumber |-> a.serial, Enable |-> a.enable]
    [] op = "SetPCControl" -> [SerialNumber |-> a.serial, MagicWord |-> MagicWord, Enable |-> a.enable]
    [] op = "GetEvent" -> [SerialNumber |-> a.serial, Index |-> a.index]
    [] op = "SetEventIndex" -> [SerialNumber |-> a.serial, Index |-> a.index, MagicWord |-> MagicWord]
    [] op = "SetDoorPasscodes" -> [SerialNumber |-> a.serial, Door |-> a.door,
                                   Passcode1 |-> Passcode(a.codes, 1), Passcode2 |-> Passcode(a.codes, 2),
                                   Passcode3 |-> Passcode(a.codes, 3), Passcode4 |-> Passcode(a.codes, 4)]
    [] op = "OpenDoor" -> [SerialNumber |-> a.serial, Door |-> a.door]
    [] op = "SetInterlock" -> [SerialNumber |-> a.serial, Interlock |-> a.interlock]
    [] op = "ActivateKeypads" -> [SerialNumber |-> a.serial,
                                  Reader1 |-> Lookup(a.readers, 1, FALSE), Reader2 |-> Lookup(a.readers, 2, FALSE),
                                  Reader3 |-> Lookup(a.readers, 3, FALSE), Reader4 |-> Lookup(a.readers, 4, FALSE)]

\* the one 64-byte request of an accepted call
Request(op, a) == EncodeLayout(Req[op], Fields(op, a))

\* what must be handed to the transport by a call: nothing when refused, else exactly the request
Sent(op, a) == IF Reject(op, a) THEN <<>> ELSE <<Request(op, a)>>

\* ---- Interpret: what a reply means ---------------------------------------------------------------
(* `dec` is Wire!DecodeFields(Rsp[op], reply): per field [dom, vals] (Wire.tla). A result component *)
(* x taken from field `name` is acceptable when the field is a don't-care or x is one of the values  *)
(* the field may be reported as (its protocol decoding, or its zero "no value" when it is outside    *)
(* its domain).                                                                                      *)
FD(op, dec, name) == dec[FieldIndex(Rsp[op], name)]
M1(op, dec, x, name) == LET d == FD(op, dec, name) IN d.dom = "any" \/ x \in d.vals
\* the (single) in-domain value of a field that is in its domain
ValOf(op, dec, name) == CHOOSE v \in FD(op, dec, name).vals : TRUE
IsIn(op, dec, name) == FD(op, dec, name).dom = "in"

\* an error is an acceptable outcome when some field is outside its domain (or a don't-care)
SomeFieldOut(dec) == \E k \in 1..Len(dec) : dec[k].dom \in {"out", "any"}

BoolRet(op) == CASE op = "RefreshTaskList" -> "Refreshed"
                 [] op = "SetEventIndex" -> "Changed"
                 [] OTHER -> "Succeeded"
BoolOps == {"SetListener", "PutCard", "DeleteCard", "DeleteCards", "SetTimeProfile", "ClearTimeProfiles", "ClearTaskList",
            "AddTask", "RefreshTaskList", "RecordSpecialEvents", "SetDoorPasscodes", "SetPCControl", "SetInterlock",
            "ActivateKeypads", "RestoreDefaultParameters"}

PairsAre(pairs, vals) == Len(pairs) = Len(vals) /\ \A i \in 1..Len(vals) : pairs[i][1] = i
CardOK(op, dec, r) ==
  /\ r.t = "card" /\ M1(op, dec, r.n, "CardNumber") /\ M1(op, dec, r.from, "From") /\ M1(op, dec, r.to, "To")
  /\ Len(r.doors) = 4 /\ \A i \in 1..4 : r.doors[i][1] = i
  /\ M1(op, dec, r.doors[1][2], "Door1") /\ M1(op, dec, r.doors[2][2], "Door2")
  /\ M1(op, dec, r.doors[3][2], "Door3") /\ M1(op, dec, r.doors[4][2], "Door4")
  /\ M1(op, dec, r.pin, "PIN")

\* controller date + time of a status, combined into one civil date-time
SysDTOK(op, dec, x) ==
  LET d == FD(op, dec, "SystemDate") t == FD(op, dec, "SystemTime") IN
  IF d.dom = "any" \/ t.dom = "any" THEN TRUE
  ELSE IF d.dom = "out" \/ t.dom = "out" THEN x = ZeroDT
  ELSE LET dv == CHOOSE v \in d.vals : TRUE tv == CHOOSE v \in t.vals : TRUE IN
       IF dv.t = "zero" THEN x = ZeroDT ELSE x = DT(dv.y, dv.m, dv.d, tv.h, tv.mi, tv.s)

StatusOK(op, dec, r) ==
  /\ r.t = "status" /\ M1(op, dec, r.serial, "SerialNumber")
  /\ Len(r.doorstate) = 4 /\ Len(r.doorbutton) = 4
  /\ \A i \in 1..4 : r.doorstate[i][1] = i /\ r.doorbutton[i][1] = i
  /\ M1(op, dec, r.doorstate[1][2], "Door1State") /\ M1(op, dec, r.doorstate[2][2], "Door2State")
  /\ M1(op, dec, r.doorstate[3][2], "Door3State") /\ M1(op, dec, r.doorstate[4][2], "Door4State")
  /\ M1(op, dec, r.doorbutton[1][2], "Door1Button") /\ M1(op, dec, r.doorbutton[2][2], "Door2Button")
  /\ M1(op, dec, r.doorbutton[3][2], "Door3Button") /\ M1(op, dec, r.doorbutton[4][2], "Door4Button")
  /\ M1(op, dec, r.syserror, "SystemError") /\ SysDTOK(op, dec, r.sysdt)
  /\ M1(op, dec, r.seq, "SequenceId") /\ M1(op, dec, r.special, "SpecialInfo")
  /\ M1(op, dec, r.relays, "RelayState") /\ M1(op, dec, r.inputs, "InputState")
  \* the status event is present exactly when its index is non-zero
  /\ (IF ValOf(op, dec, "EventIndex") = <<0, 0>> THEN r.event.t = "none"
      ELSE /\ r.event.t = "ev" /\ M1(op, dec, r.event.index, "EventIndex") /\ M1(op, dec, r.event.type, "EventType")
           /\ M1(op, dec, r.event.granted, "Granted") /\ M1(op, dec, r.event.door, "Door")
           /\ M1(op, dec, r.event.direction, "Direction") /\ M1(op, dec, r.event.card, "CardNumber")
           /\ M1(op, dec, r.event.timestamp, "Timestamp") /\ M1(op, dec, r.event.reason, "Reason"))

SegOK(op, dec, seg, k, ns, ne) == seg[1] = k /\ M1(op, dec, seg[2].start, ns) /\ M1(op, dec, seg[2].end, ne)
ProfileOK(op, dec, r) ==
  /\ r.t = "profile" /\ M1(op, dec, r.id, "ProfileID") /\ M1(op, dec, r.linked, "LinkedProfileID")
  /\ M1(op, dec, r.from, "From") /\ M1(op, dec, r.to, "To")
  /\ Len(r.weekdays) = 7 /\ \A i \in 1..7 : r.weekdays[i][1] = i - 1
  /\ M1(op, dec, r.weekdays[1][2], "Sunday") /\ M1(op, dec, r.weekdays[2][2], "Monday") /\ M1(op, dec, r.weekdays[3][2], "Tuesday")
  /\ M1(op, dec, r.weekdays[4][2], "Wednesday") /\ M1(op, dec, r.weekdays[5][2], "Thursday") /\ M1(op, dec, r.weekdays[6][2], "Friday")
  /\ M1(op, dec, r.weekdays[7][2], "Saturday")
  /\ Len(r.segments) = 3
  /\ SegOK(op, dec, r.segments[1], 1, "Segment1Start", "Segment1End")
  /\ SegOK(op, dec, r.segments[2], 2, "Segment2Start", "Segment2End")
  /\ SegOK(op, dec, r.segments[3], 3, "Segment3Start", "Segment3End")

\* name of the configured controller with this serial number ("" when not configured)
CfgName(cfg, serial) ==
  IF \E i \in 1..Len(cfg.devices) : cfg.devices[i].serial = serial
    THEN cfg.devices[CHOOSE i \in 1..Len(cfg.devices) : cfg.devices[i].serial = serial].name ELSE ""

DeviceOK(op, dec, cfg, r) ==
  /\ r.t = "device" /\ M1(op, dec, r.serial, "SerialNumber") /\ M1(op, dec, r.ip, "IpAddress")
  /\ M1(op, dec, r.mask, "SubnetMask") /\ M1(op, dec, r.gw, "Gateway") /\ M1(op, dec, r.mac, "MacAddress")
  /\ M1(op, dec, r.version, "Version") /\ M1(op, dec, r.date, "Date")
  /\ r.name = CfgName(cfg, ValOf(op, dec, "SerialNumber"))
  /\ r.addr.t = "ap" /\ M1(op, dec, r.addr.ip, "IpAddress")        \* (the derived port is a don't-care for GetDevice)

\* sentinel verdicts that precede the value: "nil" (no such record), "err" (documented error), "val"
Sentinel(op, a, dec) ==
  CASE op = "GetCardByIndex" ->
         (IF ValOf(op, dec, "CardNumber") \in {<<0, 0>>, <<65535, 65535>>} THEN {"nil"} ELSE {"val"})
    [] op = "GetCardByID" ->
         LET n == ValOf(op, dec, "CardNumber") IN
         IF n = <<0, 0>> THEN {"nil"}
         ELSE IF n = <<65535, 65535>> THEN (IF a.card = n THEN {"nil", "err", "val"} ELSE {"nil", "err"})
         ELSE IF n # a.card THEN {"err"} ELSE {"val"}
    [] op = "GetEvent" ->
         (IF ValOf(op, dec, "Type") = 255 THEN {"err"}
          ELSE IF ValOf(op, dec, "Index") = <<0, 0>> THEN {"nil"} ELSE {"val"})
    [] op = "GetTimeProfile" ->
         LET id == ValOf(op, dec, "ProfileID") IN
         IF id = 0 THEN {"nil"} ELSE IF id # a.profile THEN {"err"} ELSE {"val"}
    [] OTHER -> {"val"}

ValueOK(op, a, cfg, dec, r) ==
  CASE op \in BoolOps -> r.t = "bool" /\ M1(op, dec, r.v, BoolRet(op))
    [] op = "GetCards" -> r.t = "u32" /\ M1(op, dec, r.v, "Records")
    [] op = "OpenDoor" -> r.t = "result" /\ M1(op, dec, r.serial, "SerialNumber") /\ M1(op, dec, r.ok, "Succeeded")
    [] op = "GetDevice" -> DeviceOK(op, dec, cfg, r)
    [] op = "GetListener" -> r.t = "listener" /\ M1(op, dec, [ip |-> r.ip, port |-> r.port], "AddrPort") /\ M1(op, dec, r.interval, "Interval")
    [] op \in {"GetTime", "SetTime"} -> r.t = "time" /\ M1(op, dec, r.serial, "SerialNumber") /\ M1(op, dec, r.dt, "DateTime")
    [] op \in {"GetDoorControlState", "SetDoorControlState"} ->
         r.t = "dcs" /\ M1(op, dec, r.serial, "SerialNumber") /\ M1(op, dec, r.door, "Door")
         /\ M1(op, dec, r.state, "ControlState") /\ M1(op, dec, r.delay, "Delay")
    [] op = "GetStatus" -> StatusOK(op, dec, r)
    [] op \in {"GetCardByIndex", "GetCardByID"} -> CardOK(op, dec, r)
    [] op = "GetTimeProfile" -> ProfileOK(op, dec, r)
    [] op = "GetEvent" ->
         r.t = "event" /\ M1(op, dec, r.serial, "SerialNumber") /\ M1(op, dec, r.index, "Index") /\ M1(op, dec, r.type, "Type")
         /\ M1(op, dec, r.granted, "Granted") /\ M1(op, dec, r.door, "Door") /\ M1(op, dec, r.direction, "Direction")
         /\ M1(op, dec, r.card, "CardNumber") /\ M1(op, dec, r.timestamp, "Timestamp") /\ M1(op, dec, r.reason, "Reason")
    [] op = "GetEventIndex" -> r.t = "evindex" /\ M1(op, dec, r.serial, "SerialNumber") /\ M1(op, dec, r.index, "Index")
    [] op = "SetEventIndex" -> r.t = "evindexresult" /\ M1(op, dec, r.serial, "SerialNumber") /\ r.index = a.index /\ M1(op, dec, r.changed, "Changed")

\* Is `r` an acceptable result of operation `op` with arguments `a` for the (header-correct) reply `msg`?
ResultOK(op, a, cfg, msg, r) ==
  LET dec == DecodeFields(Rsp[op], msg) s == Sentinel(op, a, dec) IN
  CASE r.t = "err" -> SomeFieldOut(dec) \/ "err" \in s
    [] r.t = "nil" -> "nil" \in s
    [] OTHER -> "val" \in s /\ ValueOK(op, a, cfg, dec, r)

\* ---- Route: where a request goes (C06) ---------------------------------------------------------
(* cfg = [bind, broadcast, devices]; addresses are [valid, ip, port]; a device is [name, serial,   *)
(* addr, proto]. A controller is reached directly only when it is configured with a usable address: *)
(* valid, not 0.0.0.0, port not 0; over TCP only when its protocol is exactly "tcp".                 *)
DefaultBroadcast == [ip |-> <<255, 255, 255, 255>>, port |-> 60000]
BroadcastOf(cfg) == IF cfg.broadcast.valid THEN [ip |-> cfg.broadcast.ip, port |-> cfg.broadcast.port] ELSE DefaultBroadcast
Usable(a) == a.valid /\ a.ip # <<0, 0, 0, 0>> /\ a.port # 0
DeviceOf(cfg, serial) == {i \in 1..Len(cfg.devices) : cfg.devices[i].serial = serial}
Route(op, cfg, serial) ==
  IF op = "GetDevices" THEN [m |-> "Broadcast", ip |-> BroadcastOf(cfg).ip, port |-> BroadcastOf(cfg).port]
  ELSE LET ds == DeviceOf(cfg, serial) IN
       IF ds = {} \/ ~Usable(cfg.devices[CHOOSE i \in ds : TRUE].addr)
         THEN [m |-> "BroadcastTo", ip |-> BroadcastOf(cfg).ip, port |-> BroadcastOf(cfg).port]
         ELSE LET d == cfg.devices[CHOOSE i \in ds : TRUE] IN
              [m |-> IF d.proto = "tcp" THEN "SendTCP" ELSE "SendUDP", ip |-> d.addr.ip, port |-> d.addr.port]

\* ---- Discovery (C11) -------------------------------------------------------------------------------
(* GetDevices returns one entry per well-formed get-device reply, in arrival order, duplicates kept;   *)
(* malformed datagrams (wrong length, wrong protocol id, wrong function code, non-decimal BCD date)     *)
(* contribute nothing and never make the call fail. A reply whose date is decimal but not a calendar    *)
(* date may be dropped or reported with the zero date (C02's rule) - "may".                              *)
DiscoveryPort(cfg) == IF cfg.broadcast.valid THEN cfg.broadcast.port ELSE 60000
DgClass(msg) ==
  LET L == GetDeviceResponse IN
  IF Len(msg) # 64 \/ msg[1] # 23 \/ msg[2] # L.code THEN "drop"
  ELSE IF ~AllBcd(Field(msg, 28, 4)) THEN "drop"
  ELSE IF \E k \in 1..Len(L.fields) : DecodeFields(L, msg)[k].dom # "in" THEN "may" ELSE "must"

EntryOK(cfg, msg, r) ==
  LET op == "GetDevice" dec == DecodeFields(Rsp[op], msg) IN
  /\ r.t = "device" /\ M1(op, dec, r.serial, "SerialNumber") /\ M1(op, dec, r.ip, "IpAddress")
  /\ M1(op, dec, r.mask, "SubnetMask") /\ M1(op, dec, r.gw, "Gateway") /\ M1(op, dec, r.mac, "MacAddress")
  /\ M1(op, dec, r.version, "Version") /\ M1(op, dec, r.date, "Date")
  /\ r.name = CfgName(cfg, ValOf(op, dec, "SerialNumber"))
  /\ r.addr.t = "ap" /\ M1(op, dec, r.addr.ip, "IpAddress") /\ r.addr.port = DiscoveryPort(cfg)

RECURSIVE MatchEntries(_, _, _, _, _)
MatchEntries(cfg, msgs, i, rs, j) ==
  IF i > Len(msgs) THEN j > Len(rs)
  ELSE LET c == DgClass(msgs[i]) IN
       CASE c = "drop" -> MatchEntries(cfg, msgs, i + 1, rs, j)
         [] c = "must" -> j <= Len(rs) /\ EntryOK(cfg, msgs[i], rs[j]) /\ MatchEntries(cfg, msgs, i + 1, rs, j + 1)
         [] c = "may" -> \/ MatchEntries(cfg, msgs, i + 1, rs, j)
                         \/ (j <= Len(rs) /\ EntryOK(cfg, msgs[i], rs[j]) /\ MatchEntries(cfg, msgs, i + 1, rs, j + 1))

DiscoveryOK(cfg, msgs, ret) == ret.t = "devices" /\ MatchEntries(cfg, msgs, 1, ret.v, 1)

\* SetAddress: controllers do not reply; the call succeeds once the request is sent
SetAddressResult(a) == [t |-> "result", serial |-> a.serial, ok |-> TRUE]
==========================================================================
