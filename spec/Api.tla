------------------------------- MODULE Api -------------------------------
(* The API layer of uhppote-core as a specification: for each of the 32 request-issuing      *)
(* operations, which argument tuples are refused (Reject), which request goes on the wire     *)
(* (Request), and what a reply means (Interpret, sentinels included).                         *)
(*                                                                                          *)
(* Arguments arrive as JSON records written by a deliberately dumb projection in the harness: *)
(*   serial, card, index, pin, passcodes   <<hi16, lo16>>                                     *)
(*   maps                                  sequences of <<key, value>> (absent key = zero)    *)
(*   dates / date-times                    tagged civil records (Calendar.tla)                *)
(*   net.IP                                its raw bytes (length 0, 4, 16 or other)           *)
(*   netip.AddrPort                        [valid, ip (4 or 16 raw bytes), zone, port]        *)
EXTENDS Wire, Messages

\* ---- helpers ---------------------------------------------------------------------------
Lookup(pairs, key, default) ==
  IF \E i \in 1..Len(pairs) : pairs[i][1] = key
    THEN pairs[CHOOSE i \in 1..Len(pairs) : pairs[i][1] = key][2]
    ELSE default
HasKey(pairs, key) == \E i \in 1..Len(pairs) : pairs[i][1] = key

\* net.IP -> 4 bytes, or <<>> when it is not an IPv4 address (To4 semantics: 4 bytes, or the
\* 16-byte IPv4-mapped form ::ffff:a.b.c.d)
V4InV6Prefix == <<0, 0, 0, 0, 0, 0, 0, 0, 0, 0, 255, 255>>
To4(ip) == IF Len(ip) = 4 THEN ip
           ELSE IF Len(ip) = 16 /\ Slice(ip, 1, 12) = V4InV6Prefix THEN Slice(ip, 13, 16)
           ELSE <<>>
IsV4(ip) == To4(ip) # <<>>

\* card number formats
U32Val(p) == p[1] * 65536 + p[2]                 \* only used when p[1] < 1526 (value < 10^8)
IsW26(n) == /\ n[1] < 1526                        \* n < 100 007 936, so the product below cannot overflow TLC's 32-bit integers
            /\ U32Val(n) <= 99999999
            /\ U32Val(n) \div 100000 <= 255
            /\ U32Val(n) % 100000 <= 65535
FormatOK(n, f) == CASE f = 0 -> TRUE            \* any
                    [] f = 1 -> IsW26(n)         \* Wiegand-26
                    [] OTHER -> FALSE            \* unknown format: matches nothing
CardFormatsOK(n, formats) == Len(formats) = 0 \/ \E i \in 1..Len(formats) : FormatOK(n, formats[i])

Le999999(p) == p[1] < 15 \/ (p[1] = 15 /\ p[2] <= 16959)       \* 999999 = 15 * 65536 + 16959

ReservedCard(n) == n = <<0, 0>> \/ n = <<65535, 65535>> \/ n = <<255, 65535>>

\* ---- Reject: the ONLY reasons for which a call may be refused before anything is sent ----------
Reject(op, a) ==
  \/ op # "GetDevices" /\ a.serial = <<0, 0>>
  \/ op = "PutCard" /\ (\/ ReservedCard(a.card.n)
                        \/ ~CardFormatsOK(a.card.n, a.formats)
                        \/ ~Le999999(a.card.pin))
  \/ op = "SetListener" /\ ~( /\ a.addr.valid
                              /\ Len(a.addr.ip) = 4 /\ ~a.addr.zone
                              /\ (a.addr.port # 0 \/ a.addr.ip = <<0, 0, 0, 0>>) )
  \/ op = "SetAddress" /\ (~IsV4(a.addr) \/ ~IsV4(a.mask) \/ ~IsV4(a.gw))
  \/ op = "SetDoorPasscodes" /\ a.door \notin 1..4
  \/ op = "SetTimeProfile" /\ (\/ a.profile.from.t = "zero"
                               \/ a.profile.to.t = "zero"
                               \/ \E k \in 1..3 : \/ ~HasKey(a.profile.segments, k)
                                                  \/ LET s == Lookup(a.profile.segments, k, [start |-> HM(0, 0), end |-> HM(0, 0)]) IN HHmmLT(s.end, s.start))

\* ---- Request: the field values of the request message ----------------------------------------
Weekday(pairs, d) == Lookup(pairs, d, FALSE)     \* time.Weekday: Sunday = 0 .. Saturday = 6
Passcode(codes, i) == IF Len(codes) >= i /\ Le999999(codes[i]) THEN codes[i] ELSE <<0, 0>>
ZeroSeg == [start |-> HM(0, 0), end |-> HM(0, 0)]

Fields(op, a) ==
  CASE op = "GetDevices" -> [SerialNumber |-> <<0, 0>>]
    [] op \in {"GetDevice", "GetListener", "GetTime", "GetStatus", "GetCards", "GetEventIndex"} ->
         [SerialNumber |-> a.serial]
    [] op \in {"DeleteCards", "ClearTimeProfiles", "ClearTaskList", "RefreshTaskList", "RestoreDefaultParameters"} ->
         [SerialNumber |-> a.serial, MagicWord |-> MagicWord]
    [] op = "SetAddress" -> [SerialNumber |-> a.serial, Address |-> To4(a.addr), Mask |-> To4(a.mask),
                             Gateway |-> To4(a.gw), MagicWord |-> MagicWord]
    [] op = "SetListener" -> [SerialNumber |-> a.serial, AddrPort |-> [ip |-> a.addr.ip, port |-> a.addr.port], Interval |-> a.interval]
    [] op = "SetTime" -> [SerialNumber |-> a.serial, DateTime |-> a.dt]
    [] op = "GetDoorControlState" -> [SerialNumber |-> a.serial, Door |-> a.door]
    [] op = "SetDoorControlState" -> [SerialNumber |-> a.serial, Door |-> a.door, ControlState |-> a.state % 256, Delay |-> a.delay]
    [] op = "GetCardByIndex" -> [SerialNumber |-> a.serial, Index |-> a.index]
    [] op = "GetCardByID" -> [SerialNumber |-> a.serial, CardNumber |-> a.card]
    [] op = "DeleteCard" -> [SerialNumber |-> a.serial, CardNumber |-> a.card]
    [] op = "PutCard" -> [SerialNumber |-> a.serial, CardNumber |-> a.card.n, From |-> a.card.from, To |-> a.card.to,
                          Door1 |-> Lookup(a.card.doors, 1, 0), Door2 |-> Lookup(a.card.doors, 2, 0),
                          Door3 |-> Lookup(a.card.doors, 3, 0), Door4 |-> Lookup(a.card.doors, 4, 0),
                          PIN |-> a.card.pin]
    [] op = "GetTimeProfile" -> [SerialNumber |-> a.serial, ProfileID |-> a.profile]
    [] op = "SetTimeProfile" ->
         LET p == a.profile seg(k) == Lookup(p.segments, k, ZeroSeg) IN
         [SerialNumber |-> a.serial, ProfileID |-> p.id, From |-> p.from, To |-> p.to,
          Monday |-> Weekday(p.weekdays, 1), Tuesday |-> Weekday(p.weekdays, 2), Wednesday |-> Weekday(p.weekdays, 3),
          Thursday |-> Weekday(p.weekdays, 4), Friday |-> Weekday(p.weekdays, 5), Saturday |-> Weekday(p.weekdays, 6),
          Sunday |-> Weekday(p.weekdays, 0),
          Segment1Start |-> seg(1).start, Segment1End |-> seg(1).end,
          Segment2Start |-> seg(2).start, Segment2End |-> seg(2).end,
          Segment3Start |-> seg(3).start, Segment3End |-> seg(3).end,
          LinkedProfileID |-> p.linked]
    [] op = "AddTask" ->
         LET t == a.task IN
         [SerialNumber |-> a.serial, From |-> t.from, To |-> t.to,
          Monday |-> Weekday(t.weekdays, 1), Tuesday |-> Weekday(t.weekdays, 2), Wednesday |-> Weekday(t.weekdays, 3),
          Thursday |-> Weekday(t.weekdays, 4), Friday |-> Weekday(t.weekdays, 5), Saturday |-> Weekday(t.weekdays, 6),
          Sunday |-> Weekday(t.weekdays, 0),
          Start |-> t.start, Door |-> t.door, Task |-> t.task % 256, MoreCards |-> t.cards]
    [] op = "RecordSpecialEvents" -> [SerialNumber |-> a.serial, Enable |-> a.enable]
    [] op = "SetPCControl" -> [SerialNumber |-> a.serial, MagicWord |-> MagicWord, Enable |-> a.enable]
    [] op = "GetEvent" -> [SerialNumber |-> a.serial, Index |-> a.index]
    [] op = "SetEventIndex" -> [SerialNumber |-> a.serial, Index |-> a.index, MagicWord |-> MagicWord]
    [] op = "SetDoorPasscodes" -> [SerialNumber |-> a.serial, Door |-> a.door,
                                   Passcode1 |-> Passcode(a.codes, 1), Passcode2 |-> Passcode(a.codes, 2),
                                   Passcode3 |-> Passcode(a.codes, 3), Passcode4 |-> Passcode(a.codes, 4)]
    [] op = "OpenDoor" -> [SerialNumber |-> a.serial, Door |-> a.door]
    [] op = "SetInterlock" -> [SerialNumber |-> a.serial, Interlock |-> a.interlock]
    [] op = "ActivateKeypads" -> [SerialNumber |-> a.serial,
                                  Reader1 |-> Lookup(a.readers, 1, FALSE), Reader2 |-> Lookup(a.readers, 2, FALSE),
                                  Reader3 |-> Lookup(a.readers, 3, FALSE), Reader4 |-> Lookup(a.readers, 4, FALSE)]

\* the one 64-byte request of an accepted call
Request(op, a) == EncodeLayout(Req[op], Fields(op, a))

\* what must be handed to the transport by a call: nothing when refused, else exactly the request
Sent(op, a) == IF Reject(op, a) THEN <<>> ELSE <<Request(op, a)>>
==========================================================================
