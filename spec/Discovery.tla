----------------------------- MODULE Discovery -----------------------------
(* Broadcast() of uhppote/UT0311.go - discovery: the caller binds, sends, spawns a reader that    *)
(* appends every datagram to a shared list, sleeps for the timeout, reads the list, returns and   *)
(* closes the socket (which ends the reader). Happens-before is tracked explicitly (vector clocks   *)
(* joined at mutex unlock->lock and at the go statement), so that "two conflicting accesses to the   *)
(* shared list that are not ordered" is a state predicate (race) - C08's data-race clause - next to  *)
(* C11's functional property about what ends up in the result.                                     *)
(* Design switches (expected-to-fail configurations): UseMutex = FALSE (the list is shared without   *)
(* synchronisation), RearmWindow (every datagram re-arms the full timeout: an idle timeout instead   *)
(* of an absolute window), HandOff (the reader hands each datagram to the caller over an unbuffered   *)
(* channel and the caller stops receiving when the window ends: a reader holding a datagram then      *)
(* blocks forever, closed socket or not - a goroutine leak, C09).                                    *)
EXTENDS Integers, Sequences, FiniteSets, TLC
CONSTANTS T, MaxDgrams, UseMutex, RearmWindow, HandOff
\* threads
M == "main"  R == "reader"
Threads == {M, R}
Classes == {"valid", "bad"}
VARIABLES now, mpc, rpc, sockOpen, wire, sockq, replies, result, mu,
          vc, muvc, goVC, lastW, lastRd, race, sent, local, arrived, wakeAt, doneAt
vars == <<now, mpc, rpc, sockOpen, wire, sockq, replies, result, mu, vc, muvc, goVC, lastW, lastRd, race, sent, local, arrived, wakeAt, doneAt>>

Zero == [t \in Threads |-> 0]
Leq(a, b) == \A t \in Threads : a[t] <= b[t]
Join(a, b) == [t \in Threads |-> IF a[t] >= b[t] THEN a[t] ELSE b[t]]
Inc(v, t) == [v EXCEPT ![t] = @ + 1]

Init == /\ now = 0 /\ mpc = "start" /\ rpc = "none" /\ sockOpen = FALSE /\ wire = {} /\ sockq = <<>>
        /\ replies = <<>> /\ result = <<>> /\ mu = "free"
        /\ vc = [t \in Threads |-> Inc(Zero, t)] /\ muvc = Zero /\ goVC = Zero
        /\ lastW = Zero /\ lastRd = Zero /\ race = FALSE /\ sent = 0 /\ local = <<>> /\ arrived = <<>> /\ wakeAt = T /\ doneAt = -1

\* conflicting-access bookkeeping for the shared variable `replies`
WriteBy(t) == /\ race' = (race \/ ~Leq(lastW, vc[t]) \/ ~Leq(lastRd, vc[t]))
              /\ lastW' = vc[t] /\ UNCHANGED lastRd
ReadBy(t)  == /\ race' = (race \/ ~Leq(lastW, vc[t]))
              /\ lastRd' = Join(lastRd, vc[t]) /\ UNCHANGED lastW

\* main: bind + send + spawn reader
Spawn == /\ mpc = "start" /\ mpc' = "sleeping" /\ sockOpen' = TRUE /\ rpc' = "reading"
         /\ goVC' = vc[M] /\ vc' = [vc EXCEPT ![M] = Inc(@, M), ![R] = Join(@, vc[M])]
         /\ WriteBy(M)      \* replies := make(...)
         /\ UNCHANGED <<now, wire, sockq, replies, result, mu, muvc, sent, local>>
\* adversary: controllers answer (arrival tick chosen)
Answer(cls, at) == /\ mpc = "sleeping" /\ sent < MaxDgrams /\ sent' = sent + 1
                   /\ wire' = wire \cup {[id |-> sent + 1, cls |-> cls, at |-> at]}
                   /\ UNCHANGED <<now, mpc, rpc, sockOpen, sockq, replies, result, mu, vc, muvc, goVC, lastW, lastRd, race, local>>
Arrive(d) == /\ d \in wire /\ d.at <= now /\ wire' = wire \ {d}
             /\ sockq' = IF sockOpen THEN Append(sockq, d) ELSE sockq
             /\ UNCHANGED <<now, mpc, rpc, sockOpen, replies, result, mu, vc, muvc, goVC, lastW, lastRd, race, sent, local>>
\* reader
RRead == /\ rpc = "reading" /\ sockOpen /\ sockq # <<>>
         /\ local' = <<Head(sockq)>> /\ sockq' = Tail(sockq)
         /\ rpc' = IF HandOff THEN "handoff" ELSE IF UseMutex THEN "wantlock" ELSE "append"
         /\ UNCHANGED <<now, mpc, sockOpen, wire, replies, result, mu, vc, muvc, goVC, lastW, lastRd, race, sent>>
RLock == /\ rpc = "wantlock" /\ mu = "free" /\ mu' = R /\ rpc' = "append"
         /\ vc' = [vc EXCEPT ![R] = Join(@, muvc)]
         /\ UNCHANGED <<now, mpc, sockOpen, wire, sockq, replies, result, muvc, goVC, lastW, lastRd, race, sent, local>>
RAppend == /\ rpc = "append" /\ replies' = Append(replies, local[1]) /\ WriteBy(R)
           /\ IF UseMutex THEN /\ mu' = "free" /\ muvc' = vc[R] /\ vc' = [vc EXCEPT ![R] = Inc(@, R)]
                          ELSE UNCHANGED <<mu, muvc, vc>>
           /\ rpc' = "reading" /\ local' = <<>>
           /\ UNCHANGED <<now, mpc, sockOpen, wire, sockq, result, goVC, sent>>
\* HandOff design: rendezvous with the caller, which appends (no shared memory) - but only while it is still receiving
RHandOff == /\ HandOff /\ rpc = "handoff" /\ mpc = "sleeping"
            /\ replies' = Append(replies, local[1]) /\ rpc' = "reading" /\ local' = <<>>
            /\ UNCHANGED <<now, mpc, sockOpen, wire, sockq, result, mu, vc, muvc, goVC, lastW, lastRd, race, sent>>
REnd == /\ rpc = "reading" /\ ~sockOpen /\ rpc' = "ended"
        /\ UNCHANGED <<now, mpc, sockOpen, wire, sockq, replies, result, mu, vc, muvc, goVC, lastW, lastRd, race, sent, local>>
\* main wakes after T, reads the list, returns, closes the socket (deferred)
Wake == /\ mpc = "sleeping" /\ now >= wakeAt /\ mpc' = IF UseMutex THEN "wantlock" ELSE "read"
        /\ UNCHANGED <<now, rpc, sockOpen, wire, sockq, replies, result, mu, vc, muvc, goVC, lastW, lastRd, race, sent, local>>
MLock == /\ mpc = "wantlock" /\ mu = "free" /\ mu' = M /\ mpc' = "read"
         /\ vc' = [vc EXCEPT ![M] = Join(@, muvc)]
         /\ UNCHANGED <<now, rpc, sockOpen, wire, sockq, replies, result, muvc, goVC, lastW, lastRd, race, sent, local>>
MRead == /\ mpc = "read" /\ result' = replies /\ ReadBy(M)
         /\ IF UseMutex THEN /\ mu' = "free" /\ muvc' = vc[M] /\ vc' = [vc EXCEPT ![M] = Inc(@, M)]
                        ELSE UNCHANGED <<mu, muvc, vc>>
         /\ mpc' = "close"
         /\ UNCHANGED <<now, rpc, sockOpen, wire, sockq, replies, goVC, sent, local>>
MClose == /\ mpc = "close" /\ sockOpen' = FALSE /\ mpc' = "done"
          /\ UNCHANGED <<now, rpc, wire, sockq, replies, result, mu, vc, muvc, goVC, lastW, lastRd, race, sent, local>>
Urgent == \/ mpc = "start"                 \* the call starts at tick 0: ticks are relative to the request
          \/ \E d \in wire : d.at <= now
          \/ (rpc = "reading" /\ sockOpen /\ sockq # <<>>) \/ rpc \in {"append"} \/ (rpc = "wantlock" /\ mu = "free")
          \/ (mpc = "sleeping" /\ now >= wakeAt) \/ (HandOff /\ rpc = "handoff" /\ mpc = "sleeping") \/ mpc \in {"read", "close"} \/ (mpc = "wantlock" /\ mu = "free")
Tick == /\ ~Urgent /\ now < 2 * T + 2 /\ mpc # "done" /\ now' = now + 1
        /\ UNCHANGED <<mpc, rpc, sockOpen, wire, sockq, replies, result, mu, vc, muvc, goVC, lastW, lastRd, race, sent, local>>
\* `arrived` is a history variable: the datagrams that reached the open socket, in arrival order, with the tick
\* history: `arrived`, `doneAt`; `wakeAt` is the end of the window (re-armed by every datagram in the RearmWindow design)
Core == Spawn \/ RRead \/ RLock \/ RAppend \/ RHandOff \/ REnd \/ Wake \/ MLock \/ MRead \/ MClose \/ Tick
        \/ (\E cls \in Classes, at \in 0..(2*T+1) : at >= now /\ Answer(cls, at))
Next == \/ /\ Core /\ UNCHANGED arrived
           /\ wakeAt' = (IF RearmWindow /\ (rpc = "reading" /\ rpc' # "reading" /\ rpc' # "ended") THEN now + T ELSE wakeAt)
           /\ doneAt' = (IF mpc # "done" /\ mpc' = "done" THEN now ELSE doneAt)
        \/ \E d \in wire : Arrive(d) /\ arrived' = (IF sockOpen THEN Append(arrived, [d |-> d, tick |-> now]) ELSE arrived) /\ UNCHANGED <<wakeAt, doneAt>>
Spec == Init /\ [][Next]_vars
FairSpec == Spec /\ WF_vars(Next)
NoRace == ~race
IsPrefixOf(a, b) == Len(a) <= Len(b) /\ \A i \in 1..Len(a) : a[i] = b[i]
Arrivals == [i \in 1..Len(arrived) |-> arrived[i].d]
\* C11 (sound): whatever is returned had arrived, in arrival order, each once, duplicates kept
ResultSound == mpc = "done" => IsPrefixOf(result, Arrivals)
\* C11 (complete): every datagram that arrived strictly inside the window is in the result
\* (the end of the window is inherently fuzzy: a datagram arriving in tick T may or may not be included)
ResultComplete == mpc = "done" => \A i \in 1..Len(arrived) : arrived[i].tick < T => i <= Len(result)
\* C11 ("received before the timeout") / C09: the window is absolute - nothing that arrived after tick T is listed
\* and the call is over by then (tick T itself is the fuzzy boundary)
WindowAbsolute == mpc = "done" => (doneAt <= T /\ \A i \in 1..Len(result) : arrived[i].tick <= T)
\* C09: once the call has returned the reader ends (FairSpec)
ReaderQuits == (mpc = "done") ~> (rpc = "ended")
ReaderStops == (mpc = "done" /\ rpc = "reading" /\ sockq = <<>>) => ~sockOpen
=============================================================================
