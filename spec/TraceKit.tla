--------------------------- MODULE TraceKit ---------------------------
(* Common machinery of the trace specifications that validate *independent* events         *)
(* (one event = one call of the real code, judged on its own): the trace is read from the   *)
(* ndjson file named by the environment variable VF_TRACE, the position `l` advances       *)
(* through every line, and each named conjunct that the recorded event fails to satisfy is   *)
(* printed from inside the action - so that *all* disagreements of a run are seen, not only   *)
(* the first, and a listed known finding cannot hide a different violation.                   *)
EXTENDS Json, IOUtils, TLC, Sequences, Integers

Trace == ndJsonDeserialize(IOEnv.VF_TRACE)

VARIABLE l

TraceInit == l = 1

\* conjunct `name` of property `prop` on the event at line l: report, never block
Judge(prop, name, ok, got, want) ==
  IF ok THEN TRUE ELSE PrintT(<<"MISMATCH", l, prop, name, got, want>>)

Has(r, f) == f \in DOMAIN r

TraceDone == l = Len(Trace) + 1

\* every line was consumed (the chain of states has Len(Trace)+1 states)
TraceAccepted == TLCGet("stats").diameter = Len(Trace) + 1
=======================================================================
