------------------------- MODULE Trace_Insulation -------------------------
(* C17: histories {construct, mutate caller data, mutate the DeviceList map, call, scribble the        *)
(* transport buffers, mutate an earlier result, re-check, clone} recorded on Rig S are validated        *)
(* statefully: the specification keeps the configuration of the `construct` event as the snapshot and    *)
(* every later `call` must route by it (Api!Route); every `recheck` of a held value must show the       *)
(* rendering it had when it was returned. One history per line [id, ev], one initial state each.         *)
EXTENDS Api, Json, IOUtils, TLC

Hist == ndJsonDeserialize(IOEnv.VF_TRACE)
VARIABLES sc, l, snapshot, held
tv == <<sc, l, snapshot, held>>
Ev == Hist[sc].ev
TraceInit == sc \in 1..Len(Hist) /\ l = 1 /\ snapshot = [t |-> "none"] /\ held = <<>> /\ TLCSet(sc, 1)
IsEv(name) == l <= Len(Ev) /\ Ev[l].ev = name
Consume == l' = l + 1 /\ UNCHANGED sc

\* (the device list handed to the constructor is the caller's: it reads the same afterwards)
TConstruct == IsEv("construct") /\ Ev[l].caller_after = Ev[l].caller_before /\ snapshot' = Ev[l].cfg /\ held' = <<>> /\ Consume
\* caller-side mutations and buffer reuse change nothing the client or earlier results depend on
TNoEffect == l <= Len(Ev) /\ Ev[l].ev \in {"mutate_caller", "mutate_returned", "scribble", "mutate_result"} /\ UNCHANGED <<snapshot, held>> /\ Consume
TCall == /\ IsEv("call")
         \* routing by the snapshot (a refused call goes nowhere)
         /\ Ev[l].route = (IF Reject(Ev[l].op, Ev[l].a) THEN [m |-> "none"] ELSE Route(Ev[l].op, snapshot, Ev[l].a.serial))
         /\ Ev[l].a = Ev[l].a_after                                        \* arguments are never modified
         /\ held' = IF Ev[l].ret.t \in {"err", "nil", "panic"} THEN held ELSE Append(held, Ev[l].ret)
         /\ UNCHANGED snapshot /\ Consume
\* a status delivered by the event listener and kept by the caller
TEventKept == IsEv("event") /\ held' = Append(held, Ev[l].ret) /\ UNCHANGED snapshot /\ Consume
TRecheck == /\ IsEv("recheck")
            /\ Ev[l].ix \in 1..Len(held) /\ (Ev[l].mutated \/ Ev[l].now = held[Ev[l].ix])
            /\ UNCHANGED <<snapshot, held>> /\ Consume
TClone == IsEv("clone") /\ Ev[l].clone = Ev[l].orig /\ Ev[l].orig_after = Ev[l].orig /\ UNCHANGED <<snapshot, held>> /\ Consume
RealDevices == SelectSeq(snapshot.devices, LAMBDA d : d.serial # <<0, 0>>)
TDeviceList == IsEv("devicelist") /\ Ev[l].serials = [i \in 1..Len(RealDevices) |-> RealDevices[i].serial] /\ UNCHANGED <<snapshot, held>> /\ Consume
\* the same call answered twice by byte-identical replies, the first result edited by the caller in between: the results are equal
TSameReply == IsEv("same_reply") /\ Ev[l].first = Ev[l].second /\ UNCHANGED <<snapshot, held>> /\ Consume
Done == l = Len(Ev) + 1
Accept == Done /\ UNCHANGED tv
TraceNext == TConstruct \/ TNoEffect \/ TEventKept \/ TCall \/ TRecheck \/ TClone \/ TDeviceList \/ TSameReply \/ Accept
HighWater == IF l > TLCGet(sc) THEN TLCSet(sc, l) ELSE TRUE
Report == \A i \in 1..Len(Hist) : PrintT(<<"REACHED", Hist[i].id, TLCGet(i) - 1, Len(Hist[i].ev)>>)
============================================================================
