SPECIFICATION Spec
CONSTANTS
  Calls = {"a", "b", "c"}
  T = 3
  MaxNow = 16
  FixedPort = TRUE
  CallCfg <- G3udp2
  ReplyClasses = {"valid"}
  StrayClasses = {}
  MaxReplies = 1
  MaxStray = 0
  MaxEnter = 2
  MaxDelay = 2
  PeerFaults = {}
  DeadlineBeforeLock = FALSE
  NoGuard = FALSE
  GuardPerClient = FALSE
  RearmPerRead = FALSE
  NoCloseOnError = FALSE
  RearmAfterConnect = FALSE
  UdpStrays = "dropped"
CHECK_DEADLOCK FALSE
CONSTRAINT Export
