INIT TraceInit
NEXT TraceNext
CONSTRAINT HighWater
POSTCONDITION Report
CHECK_DEADLOCK FALSE
