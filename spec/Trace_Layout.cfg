INIT TraceInit
NEXT TraceNext
POSTCONDITION TraceAccepted
CHECK_DEADLOCK FALSE
