SPECIFICATION FairSpec
CONSTANTS
  Calls = {"a", "b"}
  T = 2
  MaxNow = 9
  FixedPort = TRUE
  CallCfg <- C2same
  ReplyClasses = {"valid", "badserial", "badcode"}
  StrayClasses <- Stray2
  MaxReplies = 1
  MaxStray = 1
  MaxEnter = 1
  MaxDelay = 2
  PeerFaults <- Faults
  DeadlineBeforeLock = FALSE
  NoGuard = FALSE
  GuardPerClient = FALSE
  RearmPerRead = FALSE
  NoCloseOnError = FALSE
  RearmAfterConnect = FALSE
  UdpStrays = "none"
PROPERTY Termination
CHECK_DEADLOCK FALSE
