INIT Init
NEXT Next
CONSTANTS MaxStr = 5
          MaxBytes = 3
INVARIANT Laws
CHECK_DEADLOCK FALSE
