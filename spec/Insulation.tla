----------------------------- MODULE Insulation -----------------------------
(* C17 as a state machine: a client keeps its own copy (snapshot) of the configuration it was built  *)
(* with; values it returned earlier are held by the caller. Whatever the caller does afterwards -     *)
(* mutating its device list, the map returned by DeviceList, earlier results, or (the transport)       *)
(* reusing the buffers results were decoded from - routing stays a function of the snapshot and held    *)
(* values keep their rendering.                                                                        *)
(* Design switches re-introduce the defects for the expected-to-fail configurations.                   *)
EXTENDS Integers, Sequences, FiniteSets, TLC
CONSTANTS Cfgs,                \* abstract configurations
          MaxSteps,
          SharesDeviceList,    \* XF: the client looks controllers up in the caller's slice at call time
          SharesReturnedMap,   \* XF: DeviceList returns the client's own map
          SharesBuffer         \* XF: decoded values are views of the transport buffer
VARIABLES built, snapshot, caller, returnedMap, buffer, held, steps, lastRoute
vars == <<built, snapshot, caller, returnedMap, buffer, held, steps, lastRoute>>

Init == built = FALSE /\ snapshot = 0 /\ caller = 0 /\ returnedMap = 0 /\ buffer = 0 /\ held = <<>> /\ steps = 0 /\ lastRoute = -1
Step == steps < MaxSteps /\ steps' = steps + 1

\* what the client routes by
Effective == IF SharesDeviceList THEN caller ELSE IF SharesReturnedMap THEN returnedMap ELSE snapshot

Construct(c) == ~built /\ Step /\ built' = TRUE /\ snapshot' = c /\ caller' = c /\ returnedMap' = c
                /\ UNCHANGED <<buffer, held, lastRoute>>
MutateCaller(c) == built /\ Step /\ caller' = c /\ UNCHANGED <<built, snapshot, returnedMap, buffer, held, lastRoute>>
MutateReturnedMap(c) == built /\ Step /\ returnedMap' = c /\ UNCHANGED <<built, snapshot, caller, buffer, held, lastRoute>>
\* a call routes by the effective configuration and returns a value decoded from the buffer
Call == built /\ Step /\ lastRoute' = Effective /\ buffer' = steps + 1
        /\ held' = Append(held, [val |-> steps + 1, view |-> SharesBuffer])
        /\ UNCHANGED <<built, snapshot, caller, returnedMap>>
Scribble == built /\ Step /\ buffer' = 0
            /\ held' = [i \in 1..Len(held) |-> IF held[i].view THEN [held[i] EXCEPT !.val = 0] ELSE held[i]]
            /\ UNCHANGED <<built, snapshot, caller, returnedMap, lastRoute>>
Next == \/ \E c \in Cfgs : Construct(c) \/ MutateCaller(c) \/ MutateReturnedMap(c)
        \/ Call \/ Scribble
Spec == Init /\ [][Next]_vars

RoutesBySnapshot == lastRoute # -1 => lastRoute = snapshot
HeldStable == \A i \in 1..Len(held) : held[i].val # 0
=============================================================================
