---------------------------- MODULE MC_Order ----------------------------
(* The order laws of C16 on the specification operators, over all pairs / triples of a bounded grid. *)
EXTENDS Calendar, TLC
Dates == {[y |-> y, m |-> m, d |-> d] : y \in {1, 1999, 2000, 2024, 9999}, m \in {1, 2, 12}, d \in {1, 2, 28, 29, 31}}
Times == {[h |-> h, mi |-> mi] : h \in {0, 1, 12, 23, 24}, mi \in {0, 1, 30, 59}}
Trichotomy(S, LT(_, _), EQ(_, _)) == \A a, b \in S : (IF LT(a, b) THEN 1 ELSE 0) + (IF LT(b, a) THEN 1 ELSE 0) + (IF EQ(a, b) THEN 1 ELSE 0) = 1
Transitive(S, LT(_, _)) == \A a, b, c \in S : LT(a, b) /\ LT(b, c) => LT(a, c)
Irreflexive(S, LT(_, _)) == \A a \in S : ~LT(a, a)
ASSUME Trichotomy(Dates, YmdLT, YmdEQ) /\ Transitive(Dates, YmdLT) /\ Irreflexive(Dates, YmdLT)
ASSUME Trichotomy(Times, HHmmLT, HHmmEQ) /\ Transitive(Times, HHmmLT) /\ Irreflexive(Times, HHmmLT)
\* the order agrees with the day number (calendar adjacency)
ASSUME \A a, b \in {x \in Dates : ValidYMD(x.y, x.m, x.d)} : YmdLT(a, b) <=> DayNumber(a.y, a.m, a.d) < DayNumber(b.y, b.m, b.d)
VARIABLE x
Init == x = 0
Next == UNCHANGED x
=========================================================================
