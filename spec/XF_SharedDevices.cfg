SPECIFICATION Spec
CONSTANTS
  Cfgs = {1, 2, 3}
  MaxSteps = 6
  SharesDeviceList = TRUE
  SharesReturnedMap = FALSE
  SharesBuffer = FALSE
INVARIANT RoutesBySnapshot
INVARIANT HeldStable
CHECK_DEADLOCK FALSE
