---------------------------- MODULE MC_Bcd ----------------------------
(* Model check of the BCD laws on the specification operators (C12, use M):                *)
(* all strings of length <= MaxStr over a 12-symbol alphabet (digits, 'a', and the first    *)
(* byte of a multi-byte rune) and all byte strings of length <= MaxBytes over a nibble      *)
(* alphabet. One initial state per input; the laws are invariants.                          *)
EXTENDS Bcd, TLC
CONSTANTS MaxStr, MaxBytes
Alphabet == 48..57 \cup {97, 195}
NibbleBytes == {16 * h + l : h \in {0, 5, 9, 10, 15}, l \in {0, 5, 9, 10, 15}}
ByteAlphabet == IF MaxBytes <= 2 THEN 0..255 ELSE NibbleBytes
Strs(A, n) == UNION {[1..k -> A] : k \in 0..n}
VARIABLES kind, x
Init == \/ kind = "str" /\ x \in Strs(Alphabet, MaxStr)
        \/ kind = "bytes" /\ x \in Strs(ByteAlphabet, MaxBytes)
Next == UNCHANGED <<kind, x>>
Laws == IF kind = "str" THEN LawEncodeShape(x) /\ LawDecodeEncode(x)
                        ELSE LawDecodeShape(x) /\ LawEncodeDecode(x)
=======================================================================
