-------------------------- MODULE Trace_Listener --------------------------
(* Code -> specification for the event listener (C10): scenarios recorded with the real Listen()    *)
(* on a loopback socket are checked against Listener.tla. One scenario per line [id, ev], one         *)
(* initial state per scenario. Events:                                                              *)
(*   connected            OnConnected was called                         -> Connected               *)
(*   dg s cls             sender s is about to send its next datagram     -> Send(s, cls)            *)
(*   event s n            OnEvent delivered the n-th datagram of sender s -> DCallback               *)
(*   error                OnError was called                              -> LHandle (a bad datagram) *)
(*   quit / returned      the harness signalled / Listen returned         -> Quit / Return            *)
(*   rebound              the harness bound the listen address again      -> (state check: closed)    *)
(* Inferred: Bind, CloserFire, LRead, LReadErr, LHandle of a valid datagram, Rendezvous, DExit.         *)
EXTENDS Listener, Json, IOUtils

Scen == ndJsonDeserialize(IOEnv.VF_TRACE)
VARIABLES sc, l, flight     \* flight[s]: datagrams sender s has sent that have not reached the socket yet
Ev == Scen[sc].ev
IsEv(name) == l <= Len(Ev) /\ Ev[l].ev = name
Consume == l' = l + 1 /\ UNCHANGED sc
Keep == UNCHANGED flight
TraceInit == Init /\ sc \in 1..Len(Scen) /\ l = 1 /\ TLCSet(sc, 1) /\ flight = [s \in Senders |-> <<>>]

TConnected == IsEv("connected") /\ Connected /\ Consume /\ Keep
\* datagrams of ONE sender arrive in the order sent; across senders the network decides
TDg == IsEv("dg") /\ flight' = [flight EXCEPT ![Ev[l].s] = Append(@, Ev[l].cls)] /\ UNCHANGED vars /\ Consume
TArrive == /\ UNCHANGED <<sc, l>>
           \* class "either": decimal digits that are no calendar date / time of day - delivered (field as 'no value') or refused
           /\ \E s \in Senders : /\ flight[s] # <<>> /\ sockOpen /\ flight' = [flight EXCEPT ![s] = Tail(@)]
                                  /\ IF Head(flight[s]) = "either" THEN Send(s, "valid") \/ Send(s, "bad") ELSE Send(s, Head(flight[s]))
TEvent == IsEv("event") /\ DCallback /\ hand.s = Ev[l].s /\ hand.n = Ev[l].n /\ Consume /\ Keep
TError == IsEv("error") /\ LHandle /\ cur.cls = "bad" /\ Consume /\ Keep
TQuit == IsEv("quit") /\ Quit /\ Consume /\ Keep
TReturned == IsEv("returned") /\ Return /\ Consume /\ Keep
TRebound == IsEv("rebound") /\ ~sockOpen /\ mpc = "returned" /\ UNCHANGED vars /\ Consume /\ Keep
TSilent == /\ UNCHANGED <<sc, l, flight>>
           /\ \/ Bind \/ CloserFire \/ LRead \/ LReadErr \/ Rendezvous \/ DExit
              \/ (LHandle /\ cur.cls = "valid")
Done == l = Len(Ev) + 1
Accept == Done /\ PrintT(<<"ACCEPTED", Scen[sc].id>>) /\ UNCHANGED <<vars, sc, l, flight>>
TraceNext == TConnected \/ TDg \/ TEvent \/ TError \/ TQuit \/ TReturned \/ TRebound \/ TSilent \/ TArrive \/ Accept
HighWater == IF l > TLCGet(sc) THEN TLCSet(sc, l) ELSE TRUE
Report == \A i \in 1..Len(Scen) : PrintT(<<"REACHED", Scen[i].id, TLCGet(i) - 1, Len(Scen[i].ev)>>)
============================================================================
