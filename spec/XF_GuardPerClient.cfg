SPECIFICATION Spec
CONSTANTS
  Calls = {"a", "b", "c"}
  T = 2
  MaxNow = 9
  FixedPort = TRUE
  CallCfg <- C3
  ReplyClasses = {"valid"}
  StrayClasses = {}
  MaxReplies = 1
  MaxStray = 0
  MaxEnter = 1
  MaxDelay = 1
  PeerFaults = {}
  DeadlineBeforeLock = FALSE
  NoGuard = FALSE
  GuardPerClient = TRUE
  RearmPerRead = FALSE
  NoCloseOnError = FALSE
  RearmAfterConnect = FALSE
  UdpStrays = "none"
VIEW View
CHECK_DEADLOCK FALSE
INVARIANT NoBindError
INVARIANT PortExclusive
INVARIANT GuardExclusive
