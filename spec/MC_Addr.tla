---------------------------- MODULE MC_Addr ----------------------------
(* Consistency of the address grammar: MustAccept and MustReject are disjoint and parsing a formatted  *)
(* address returns it, over a bounded grid of addresses and ports and a set of texts.                  *)
EXTENDS Addr, TLC
RECURSIVE Dec(_)
Dec(n) == IF n < 10 THEN <<48 + n>> ELSE Dec(n \div 10) \o <<48 + (n % 10)>>
Quad(ip) == Dec(ip[1]) \o <<Dot>> \o Dec(ip[2]) \o <<Dot>> \o Dec(ip[3]) \o <<Dot>> \o Dec(ip[4])
Format(role, ip, port) == IF port = DefaultPort(role) /\ role # "listen" THEN Quad(ip) ELSE Quad(ip) \o <<Colon>> \o Dec(port)
IPs == {<<0, 0, 0, 0>>, <<192, 168, 1, 100>>, <<255, 255, 255, 255>>, <<10, 0, 200, 9>>}
Ports == {0, 1, 59999, 60000, 60001, 65535}
ASSUME \A role \in Roles, ip \in IPs, p \in Ports :
         PortAllowed(role, p) => (MustAccept(role, Format(role, ip, p)) /\ Denotes(role, Format(role, ip, p)) = [t |-> "ap", ip |-> ip, port |-> p])
ASSUME \A role \in Roles, ip \in IPs, p \in Ports :
         LET s == Quad(ip) \o <<Colon>> \o Dec(p) IN ~(MustAccept(role, s) /\ MustReject(role, s)) /\ (MustAccept(role, s) \/ MustReject(role, s))
Texts == {<<>>, <<49>>, <<49, 46, 50>>, <<49, 46, 50, 46, 51>>, <<48, 49, 46, 50, 46, 51, 46, 52>>, <<50, 53, 54, 46, 49, 46, 49, 46, 49>>,
          <<49, 46, 50, 46, 51, 46, 52, 58>>, <<58, 56, 48>>, <<120, 49, 46, 50, 46, 51, 46, 52>>}
ASSUME \A role \in Roles, s \in Texts : ~(MustAccept(role, s) /\ MustReject(role, s))
ASSUME ~ContainsQuadPattern(<<49, 46, 50, 46, 51>>) /\ ContainsQuadPattern(<<120, 49, 46, 50, 46, 51, 46, 52>>) /\ MustReject("bind", <<49, 46, 50, 46, 51>>)
VARIABLE x
Init == x = 0
Next == UNCHANGED x
========================================================================
