SPECIFICATION Spec
CONSTANTS
  Calls = {"a", "b"}
  T = 3
  MaxNow = 16
  FixedPort = FALSE
  CallCfg <- G2bcast
  ReplyClasses <- AllClasses
  StrayClasses <- StrayCls
  MaxReplies = 2
  MaxStray = 2
  MaxEnter = 1
  MaxDelay = 3
  PeerFaults = {"silence"}
  DeadlineBeforeLock = FALSE
  NoGuard = FALSE
  GuardPerClient = FALSE
  RearmPerRead = FALSE
  NoCloseOnError = FALSE
  RearmAfterConnect = FALSE
  UdpStrays = "dropped"
CHECK_DEADLOCK FALSE
CONSTRAINT Export
