------------------------------- MODULE Addr -------------------------------
(* C15: the grammar of the bind / broadcast / listen / controller address texts, character by        *)
(* character (text = sequence of code points), and each role's port rule.                             *)
EXTENDS Integers, Sequences

Digit(c) == c \in 48..57
Dot == 46
Colon == 58

AllDigitsCP(s) == Len(s) >= 1 /\ \A i \in 1..Len(s) : Digit(s[i])
RECURSIVE NumVal(_)
NumVal(s) == IF Len(s) = 0 THEN 0 ELSE 10 * NumVal(SubSeq(s, 1, Len(s) - 1)) + (s[Len(s)] - 48)
NoLeadingZero(s) == Len(s) = 1 \/ s[1] # 48

\* positions of a character
Positions(s, c) == {i \in 1..Len(s) : s[i] = c}
\* split around the (ordered) separator positions
Piece(s, from, to) == IF to >= from THEN SubSeq(s, from, to) ELSE <<>>

Octet(s) == AllDigitsCP(s) /\ Len(s) <= 3 /\ NoLeadingZero(s) /\ NumVal(s) <= 255
PortTxt(s) == AllDigitsCP(s) /\ Len(s) <= 5 /\ NoLeadingZero(s) /\ NumVal(s) <= 65535

\* a.b.c.d in strict form
IsQuad(s) ==
  LET ds == Positions(s, Dot) IN
  /\ \A i \in 1..Len(s) : Digit(s[i]) \/ s[i] = Dot
  /\ \E p1, p2, p3 \in ds : /\ p1 < p2 /\ p2 < p3 /\ ds = {p1, p2, p3}
                            /\ Octet(Piece(s, 1, p1 - 1)) /\ Octet(Piece(s, p1 + 1, p2 - 1))
                            /\ Octet(Piece(s, p2 + 1, p3 - 1)) /\ Octet(Piece(s, p3 + 1, Len(s)))
QuadVal(s) ==
  LET ds == Positions(s, Dot)
      p1 == CHOOSE p \in ds : \A q \in ds : p <= q
      p3 == CHOOSE p \in ds : \A q \in ds : p >= q
      p2 == CHOOSE p \in ds : p # p1 /\ p # p3 IN
  <<NumVal(Piece(s, 1, p1 - 1)), NumVal(Piece(s, p1 + 1, p2 - 1)), NumVal(Piece(s, p2 + 1, p3 - 1)), NumVal(Piece(s, p3 + 1, Len(s)))>>

\* a.b.c.d:port in strict form
IsQuadPort(s) ==
  LET cs == Positions(s, Colon) IN
  /\ \E c \in cs : cs = {c} /\ IsQuad(Piece(s, 1, c - 1)) /\ PortTxt(Piece(s, c + 1, Len(s)))
SplitPort(s) == LET c == CHOOSE c \in Positions(s, Colon) : TRUE IN
                [ip |-> QuadVal(Piece(s, 1, c - 1)), port |-> NumVal(Piece(s, c + 1, Len(s)))]

\* does the text contain anything that looks like a dotted quad (1-3 digits, dot, ... four groups)?
Run(s, i, n) == i + n - 1 <= Len(s) /\ \A k \in i..(i + n - 1) : Digit(s[k])
ContainsQuadPattern(s) ==
  \E i \in 1..Len(s), a, b, c, d \in 1..3 :
     /\ Run(s, i, a) /\ i + a <= Len(s) /\ s[i + a] = Dot
     /\ Run(s, i + a + 1, b) /\ i + a + 1 + b <= Len(s) /\ s[i + a + 1 + b] = Dot
     /\ Run(s, i + a + b + 2, c) /\ i + a + b + 2 + c <= Len(s) /\ s[i + a + b + 2 + c] = Dot
     /\ Run(s, i + a + b + c + 3, d)

Roles == {"bind", "broadcast", "listen", "controller"}
DefaultPort(role) == IF role = "bind" THEN 0 ELSE 60000
PortAllowed(role, p) ==
  CASE role = "bind" -> p # 60000
    [] role \in {"broadcast", "controller"} -> p # 0
    [] role = "listen" -> p # 0 /\ p # 60000

\* the value a strict-form text denotes ([t|->"none"] when it is not of that form)
Denotes(role, s) ==
  IF IsQuadPort(s) THEN [t |-> "ap", ip |-> SplitPort(s).ip, port |-> SplitPort(s).port]
  ELSE IF IsQuad(s) /\ role # "listen" THEN [t |-> "ap", ip |-> QuadVal(s), port |-> DefaultPort(role)]
  ELSE [t |-> "none"]

MustAccept(role, s) == LET v == Denotes(role, s) IN v.t = "ap" /\ PortAllowed(role, v.port)
\* a strict dotted quad followed by a plain decimal number that is no port at all (beyond 65535)
OverflowPort(s) ==
  LET cs == Positions(s, Colon) IN
  \E c \in cs : /\ cs = {c} /\ IsQuad(Piece(s, 1, c - 1))
                /\ LET pt == Piece(s, c + 1, Len(s)) IN AllDigitsCP(pt) /\ NoLeadingZero(pt) /\ (Len(pt) > 5 \/ NumVal(pt) > 65535)
\* a strict dotted quad, one colon, and a port text that is not plain decimal (a sign, a base prefix, an exponent, a
\* blank, ...) - "port 0..65535 in plain decimal" and nothing else
NonDecimalPort(s) ==
  LET cs == Positions(s, Colon) IN
  \E c \in cs : /\ cs = {c} /\ IsQuad(Piece(s, 1, c - 1))
                /\ LET pt == Piece(s, c + 1, Len(s)) IN Len(pt) >= 1 /\ ~AllDigitsCP(pt)
\* a strict dotted quad, one colon and decimal digits (leading zeros or not): whether such a text is accepted is left to
\* the strict rules above, but IF it is accepted it denotes that address and the decimal value of the digits
DecimalReading(s) ==
  LET cs == Positions(s, Colon) IN
  IF \E c \in cs : cs = {c} /\ IsQuad(Piece(s, 1, c - 1)) /\ AllDigitsCP(Piece(s, c + 1, Len(s))) /\ Len(s) - c <= 8
    THEN [t |-> "ap", ip |-> SplitPort(s).ip, port |-> SplitPort(s).port]
    ELSE [t |-> "none"]
MustReject(role, s) == \/ OverflowPort(s)
                       \/ NonDecimalPort(s)
                       \/ (Denotes(role, s).t = "ap" /\ ~PortAllowed(role, Denotes(role, s).port))
                       \/ (IsQuad(s) /\ role = "listen")                 \* the port is mandatory for listen
                       \/ ~ContainsQuadPattern(s)
===========================================================================
