SPECIFICATION FairSpec
CONSTANTS
  MaxDgrams = 4
  Senders = {"s1", "s2"}
  SpawnPerEvent = FALSE
  DropWhenBusy = FALSE
  DoneOnClose = FALSE
INVARIANT EventsInOrderOnce
INVARIANT ErrorsInOrderOnce
INVARIANT ConnectedOnce
INVARIANT Complete
INVARIANT Rebindable
INVARIANT NoSendOnClosedPipe
PROPERTY Terminates
CHECK_DEADLOCK FALSE
