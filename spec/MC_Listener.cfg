SPECIFICATION FairSpec
CONSTANTS
  MaxDgrams = 4
  Senders = {"s1", "s2"}
  SpawnPerEvent = FALSE
INVARIANT EventsInOrderOnce
INVARIANT ErrorsInOrderOnce
INVARIANT ConnectedOnce
INVARIANT Complete
INVARIANT Rebindable
PROPERTY Terminates
CHECK_DEADLOCK FALSE
