--------------------------- MODULE OrderProofs ---------------------------
(* C16, unbounded: the lexicographic orders of spec/Calendar.tla are strict total orders over ALL      *)
(* integer components (TLC checks them on a bounded grid in MC_Order; these are machine-checked        *)
(* proofs, TLAPS).  The operators are restated on the components so that the obligations are plain       *)
(* linear integer arithmetic.                                                                          *)
EXTENDS Integers, TLAPS

YmdLT(a, b) == a.y < b.y \/ (a.y = b.y /\ (a.m < b.m \/ (a.m = b.m /\ a.d < b.d)))
YmdEQ(a, b) == a.y = b.y /\ a.m = b.m /\ a.d = b.d
HHmmLT(a, b) == a.h < b.h \/ (a.h = b.h /\ a.mi < b.mi)
HHmmEQ(a, b) == a.h = b.h /\ a.mi = b.mi

Ymd == [y : Int, m : Int, d : Int]
HHmm == [h : Int, mi : Int]

THEOREM YmdIrreflexive == \A a \in Ymd : ~YmdLT(a, a)
  BY DEF YmdLT, Ymd

THEOREM YmdTransitive == \A a, b, c \in Ymd : YmdLT(a, b) /\ YmdLT(b, c) => YmdLT(a, c)
  BY DEF YmdLT, Ymd

THEOREM YmdTrichotomy ==
  \A a, b \in Ymd : /\ YmdLT(a, b) \/ YmdLT(b, a) \/ YmdEQ(a, b)
                    /\ ~(YmdLT(a, b) /\ YmdLT(b, a))
                    /\ ~(YmdLT(a, b) /\ YmdEQ(a, b))
                    /\ ~(YmdLT(b, a) /\ YmdEQ(a, b))
  BY DEF YmdLT, YmdEQ, Ymd

\* "after" is the mirror image of "before"
THEOREM YmdMirror == \A a, b \in Ymd : YmdLT(a, b) <=> ~(YmdLT(b, a) \/ YmdEQ(a, b))
  BY DEF YmdLT, YmdEQ, Ymd

THEOREM HHmmIrreflexive == \A a \in HHmm : ~HHmmLT(a, a)
  BY DEF HHmmLT, HHmm

THEOREM HHmmTransitive == \A a, b, c \in HHmm : HHmmLT(a, b) /\ HHmmLT(b, c) => HHmmLT(a, c)
  BY DEF HHmmLT, HHmm

THEOREM HHmmTrichotomy ==
  \A a, b \in HHmm : /\ HHmmLT(a, b) \/ HHmmLT(b, a) \/ HHmmEQ(a, b)
                     /\ ~(HHmmLT(a, b) /\ HHmmLT(b, a))
                     /\ ~(HHmmLT(a, b) /\ HHmmEQ(a, b))
                     /\ ~(HHmmLT(b, a) /\ HHmmEQ(a, b))
  BY DEF HHmmLT, HHmmEQ, HHmm

\* the segment rule: "end not before start" is "start before or equal to end"
THEOREM SegmentRule == \A s, e \in HHmm : ~HHmmLT(e, s) <=> (HHmmLT(s, e) \/ HHmmEQ(s, e))
  BY DEF HHmmLT, HHmmEQ, HHmm
==========================================================================
