------------------------- MODULE TransportProofs -------------------------
(* C08 / C09, unbounded: the mutual-exclusion core of spec/Transport.tla holds for ANY set of calls,   *)
(* any timeout, any reply plans, any number of strays (TLC explores it for 2-4 calls; these are        *)
(* machine-checked proofs, TLAPS).  Proved about the module itself (EXTENDS), for the design as built:  *)
(* the design switches NoGuard / GuardPerClient / NoCloseOnError are off.                                *)
(*                                                                                                      *)
(*   MutexInv            inductive: the guard has at most one holder; a call holds it exactly between    *)
(*                       Lock and Finish; only a holder has a socket open                                *)
(*   PortExclusiveAll    at most one socket is bound to the fixed port at any time                       *)
(*   ReleasedAll         a call that is returning / done holds neither the port nor the guard           *)
(*   SendNeverFindsPortBusy   the bind in Send cannot fail: when a call is about to send no socket is   *)
(*                       open (so the "binderr" branch of Send is dead in the design as built)           *)
EXTENDS Transport, TLAPS

ASSUME Design == /\ FixedPort = TRUE
                 /\ NoGuard = FALSE
                 /\ GuardPerClient = FALSE
                 /\ NoCloseOnError = FALSE

Holding == {"locked", "sent", "dialing", "closing"}
HasSocket == {"sent", "dialing", "closing"}

MutexInv ==
  /\ DOMAIN pc = Calls
  /\ guard \subseteq Calls
  /\ open \subseteq Calls
  /\ \A a, b \in guard : a = b
  /\ \A c \in Calls : c \in guard <=> pc[c] \in Holding
  /\ \A c \in open : pc[c] \in HasSocket

PortExclusiveAll == \A a, b \in open : a = b
ReleasedAll == \A c \in Calls : pc[c] \in {"returning", "done"} => (c \notin open /\ c \notin guard)
SendNeverFindsPortBusy == \A c \in Calls : pc[c] = "locked" => ~PortBusy(c)

LEMMA InitOK == Init => MutexInv
  BY DEF Init, MutexInv, Holding, HasSocket

LEMMA EnterOK == ASSUME MutexInv, NEW c \in Calls, Enter(c) PROVE MutexInv'
  BY Design DEF MutexInv, Enter, Holding, HasSocket

LEMMA LockOK == ASSUME MutexInv, NEW c \in Calls, Lock(c) PROVE MutexInv'
  BY Design DEF MutexInv, Lock, NeedsGuard, CanLock, Excludes, Holding, HasSocket

LEMMA SendOK == ASSUME MutexInv, NEW c \in Calls, Send(c) PROVE MutexInv'
  <1>1. pc[c] = "locked" /\ UNCHANGED guard
    BY DEF Send
  <1>2. \/ pc' = [pc EXCEPT ![c] = "closing"] /\ open' = open
        \/ pc' = [pc EXCEPT ![c] = "closing"] /\ open' = open \cup {c}
        \/ pc' = [pc EXCEPT ![c] = "dialing"] /\ open' = open \cup {c}
        \/ pc' = [pc EXCEPT ![c] = "sent"] /\ open' = open \cup {c}
    BY DEF Send
  <1> QED
    BY <1>1, <1>2 DEF MutexInv, Holding, HasSocket

LEMMA ConnectOK == ASSUME MutexInv, NEW c \in Calls, Connect(c) PROVE MutexInv'
  <1>1. pc[c] = "dialing" /\ UNCHANGED <<guard, open>>
    BY DEF Connect
  <1>2. pc' = [pc EXCEPT ![c] = "closing"] \/ pc' = [pc EXCEPT ![c] = "sent"]
    BY DEF Connect
  <1> QED
    BY <1>1, <1>2 DEF MutexInv, Holding, HasSocket

LEMMA RecvOK == ASSUME MutexInv, NEW c \in Calls, Recv(c) PROVE MutexInv'
  <1>1. pc[c] = "sent" /\ UNCHANGED <<guard, open>>
    BY DEF Recv
  <1>2. pc' = pc \/ pc' = [pc EXCEPT ![c] = "closing"]
    BY DEF Recv
  <1> QED
    BY <1>1, <1>2 DEF MutexInv, Holding, HasSocket

LEMMA TimeoutOK == ASSUME MutexInv, NEW c \in Calls, Timeout(c) PROVE MutexInv'
  BY DEF MutexInv, Timeout, Holding, HasSocket

LEMMA PeerErrOK == ASSUME MutexInv, NEW c \in Calls, PeerErr(c) PROVE MutexInv'
  BY DEF MutexInv, PeerErr, Holding, HasSocket

LEMMA FinishOK == ASSUME MutexInv, NEW c \in Calls, Finish(c) PROVE MutexInv'
  <1>1. pc[c] = "closing" /\ pc' = [pc EXCEPT ![c] = "returning"] /\ guard' = guard \ {c} /\ open' = open \ {c}
    BY Design DEF Finish
  <1> QED
    BY <1>1 DEF MutexInv, Holding, HasSocket

LEMMA ReturnOK == ASSUME MutexInv, NEW c \in Calls, Return(c) PROVE MutexInv'
  BY DEF MutexInv, Return, Holding, HasSocket

LEMMA StrayOK == ASSUME MutexInv, NEW c \in Calls, NEW cls \in StrayClasses, Stray(c, cls) PROVE MutexInv'
  BY DEF MutexInv, Stray

LEMMA DeliverOK == ASSUME MutexInv, NEW p \in pend, Deliver(p) PROVE MutexInv'
  BY DEF MutexInv, Deliver

LEMMA TickOK == ASSUME MutexInv, Tick PROVE MutexInv'
  BY DEF MutexInv, Tick

LEMMA StutterOK == ASSUME MutexInv, UNCHANGED vars PROVE MutexInv'
  BY DEF MutexInv, vars

THEOREM Inductive == ASSUME MutexInv, [Next]_vars PROVE MutexInv'
  BY EnterOK, LockOK, SendOK, ConnectOK, RecvOK, TimeoutOK, PeerErrOK, FinishOK, ReturnOK, StrayOK, DeliverOK, TickOK, StutterOK DEF Next

THEOREM MutexAlways == Spec => []MutexInv
  <1>1. Init => MutexInv
    BY InitOK
  <1>2. MutexInv /\ [Next]_vars => MutexInv'
    BY Inductive
  <1> QED
    BY <1>1, <1>2, PTL DEF Spec

THEOREM PortExclusiveHolds == MutexInv => PortExclusiveAll
  BY DEF MutexInv, PortExclusiveAll, Holding, HasSocket

THEOREM ReleasedHolds == MutexInv => ReleasedAll
  BY DEF MutexInv, ReleasedAll, Holding, HasSocket

THEOREM BindNeverFails == MutexInv => SendNeverFindsPortBusy
  BY Design DEF MutexInv, SendNeverFindsPortBusy, PortBusy, Holding, HasSocket

(* ---- C09, unbounded: ONE absolute deadline per call, taken when the request is asked ------------------ *)
(* for the design as built (DeadlineBeforeLock / RearmPerRead / RearmAfterConnect off), any positive T:    *)
(*   DeadlineFromAskAll   while a call waits (sent / dialing) its deadline is the instant it asked + T      *)
(*   BoundedReturnAll     ... and the clock never passes that deadline while it still waits                 *)
(*   NoEarlyGiveUpAll     a call that reports a timeout gave up no earlier than T after it asked            *)
ASSUME Timing == /\ T \in Nat \ {0}
                 /\ DeadlineBeforeLock = FALSE
                 /\ RearmPerRead = FALSE
                 /\ RearmAfterConnect = FALSE

Waiting == {"sent", "dialing"}
Over == {"closing", "returning", "done"}

TimeInv ==
  /\ now \in Int
  /\ dl \in [Calls -> Int]
  /\ askedAt \in [Calls -> Int]
  /\ DOMAIN pc = Calls
  /\ DOMAIN out = Calls
  /\ \A c \in Calls : pc[c] \in Waiting => (dl[c] = askedAt[c] + T /\ now <= dl[c])
  /\ \A c \in Calls : out[c].kind = "timeout" => (pc[c] \in Over /\ out[c].at >= askedAt[c] + T)

DeadlineFromAskAll == \A c \in Calls : pc[c] \in Waiting => dl[c] = askedAt[c] + T
BoundedReturnAll == \A c \in Calls : pc[c] \in Waiting => now <= askedAt[c] + T
NoEarlyGiveUpAll == \A c \in Calls : out[c].kind = "timeout" => out[c].at >= askedAt[c] + T

LEMMA TInitOK == Init => TimeInv
  BY Timing DEF Init, TimeInv, Waiting, Over, None

LEMMA TEnterOK == ASSUME TimeInv, NEW c \in Calls, Enter(c) PROVE TimeInv'
  BY Timing DEF TimeInv, Enter, Waiting, Over

LEMMA TLockOK == ASSUME TimeInv, NEW c \in Calls, Lock(c) PROVE TimeInv'
  BY Timing DEF TimeInv, Lock, Waiting, Over

LEMMA TSendOK == ASSUME TimeInv, NEW c \in Calls, Send(c) PROVE TimeInv'
  <1>1. pc[c] = "locked" /\ now' = now
    BY DEF Send
  <1>2. \/ /\ pc' = [pc EXCEPT ![c] = "closing"] /\ dl' = dl /\ askedAt' = askedAt
           /\ out' = [out EXCEPT ![c] = [kind |-> IF PortBusy(c) THEN "binderr" ELSE "timeout", from |-> None, cls |-> None, at |-> now]]
           /\ (PortBusy(c) \/ now + T <= now)
        \/ /\ pc' = [pc EXCEPT ![c] = "closing"] /\ dl' = dl /\ askedAt' = [askedAt EXCEPT ![c] = now]
           /\ out' = [out EXCEPT ![c] = [kind |-> "peererr", from |-> None, cls |-> "refused", at |-> now]]
        \/ /\ pc' = [pc EXCEPT ![c] = "dialing"] /\ dl' = [dl EXCEPT ![c] = now + T] /\ askedAt' = [askedAt EXCEPT ![c] = now]
           /\ out' = out
        \/ /\ pc' = [pc EXCEPT ![c] = "sent"] /\ dl' = [dl EXCEPT ![c] = now + T] /\ askedAt' = [askedAt EXCEPT ![c] = now]
           /\ out' = out
        \/ /\ pc' = [pc EXCEPT ![c] = "closing"] /\ dl' = [dl EXCEPT ![c] = now + T] /\ askedAt' = [askedAt EXCEPT ![c] = now]
           /\ out' = [out EXCEPT ![c] = [kind |-> "ok", from |-> None, cls |-> None, at |-> now]]
    BY Timing DEF Send
  <1> QED
    BY <1>1, <1>2, Timing DEF TimeInv, Waiting, Over

LEMMA TConnectOK == ASSUME TimeInv, NEW c \in Calls, Connect(c) PROVE TimeInv'
  <1>1. pc[c] = "dialing" /\ now < dl[c] /\ UNCHANGED <<now, dl, askedAt>>
    BY Timing DEF Connect
  <1>2. \/ pc' = [pc EXCEPT ![c] = "closing"] /\ out' = [out EXCEPT ![c] = [kind |-> "ok", from |-> None, cls |-> None, at |-> now]]
        \/ pc' = [pc EXCEPT ![c] = "sent"] /\ out' = out
    BY DEF Connect
  <1> QED
    BY <1>1, <1>2, Timing DEF TimeInv, Waiting, Over

LEMMA TRecvOK == ASSUME TimeInv, NEW c \in Calls, Recv(c) PROVE TimeInv'
  <1>1. pc[c] = "sent" /\ UNCHANGED <<now, dl, askedAt>>
    BY Timing DEF Recv
  <1>2. \/ pc' = pc /\ out' = out
        \/ \E k \in {"ok", "fail"} : \E f, cl : pc' = [pc EXCEPT ![c] = "closing"] /\ out' = [out EXCEPT ![c] = [kind |-> k, from |-> f, cls |-> cl, at |-> now]]
    BY DEF Recv
  <1> QED
    BY <1>1, <1>2, Timing DEF TimeInv, Waiting, Over

LEMMA TTimeoutOK == ASSUME TimeInv, NEW c \in Calls, Timeout(c) PROVE TimeInv'
  BY Timing DEF TimeInv, Timeout, Waiting, Over

LEMMA TPeerErrOK == ASSUME TimeInv, NEW c \in Calls, PeerErr(c) PROVE TimeInv'
  BY Timing DEF TimeInv, PeerErr, Waiting, Over

LEMMA TFinishOK == ASSUME TimeInv, NEW c \in Calls, Finish(c) PROVE TimeInv'
  <1>1. pc[c] = "closing" /\ pc' = [pc EXCEPT ![c] = "returning"] /\ UNCHANGED <<now, dl, askedAt, out>>
    BY DEF Finish
  <1> QED
    BY <1>1, Timing DEF TimeInv, Waiting, Over

LEMMA TReturnOK == ASSUME TimeInv, NEW c \in Calls, Return(c) PROVE TimeInv'
  BY Timing DEF TimeInv, Return, Waiting, Over

LEMMA TStrayOK == ASSUME TimeInv, NEW c \in Calls, NEW cls \in StrayClasses, Stray(c, cls) PROVE TimeInv'
  BY DEF TimeInv, Stray

LEMMA TDeliverOK == ASSUME TimeInv, NEW p \in pend, Deliver(p) PROVE TimeInv'
  BY DEF TimeInv, Deliver

LEMMA TTickOK == ASSUME TimeInv, Tick PROVE TimeInv'
  <1>1. now' = now + 1 /\ UNCHANGED <<pc, dl, askedAt, out>>
    BY DEF Tick
  <1>2. \A c \in Calls : pc[c] \in Waiting => now < dl[c]
    BY DEF Tick, Urgent, Waiting, TimeInv
  <1> QED
    BY <1>1, <1>2, Timing DEF TimeInv, Waiting, Over

LEMMA TStutterOK == ASSUME TimeInv, UNCHANGED vars PROVE TimeInv'
  BY DEF TimeInv, vars

THEOREM TInductive == ASSUME TimeInv, [Next]_vars PROVE TimeInv'
  BY TEnterOK, TLockOK, TSendOK, TConnectOK, TRecvOK, TTimeoutOK, TPeerErrOK, TFinishOK, TReturnOK, TStrayOK, TDeliverOK, TTickOK, TStutterOK DEF Next

THEOREM TimeAlways == Spec => []TimeInv
  <1>1. Init => TimeInv
    BY TInitOK
  <1>2. TimeInv /\ [Next]_vars => TimeInv'
    BY TInductive
  <1> QED
    BY <1>1, <1>2, PTL DEF Spec

THEOREM DeadlineFromAskHolds == TimeInv => DeadlineFromAskAll
  BY DEF TimeInv, DeadlineFromAskAll

THEOREM BoundedReturnHolds == TimeInv => BoundedReturnAll
  BY DEF TimeInv, BoundedReturnAll

THEOREM NoEarlyGiveUpHolds == TimeInv => NoEarlyGiveUpAll
  BY DEF TimeInv, NoEarlyGiveUpAll

(* ---- C01 / C06, unbounded: a call puts at most ONE request on the wire --------------------------------- *)
(*   SendsInv            inductive: nothing has left before Send / Connect; never more than one request     *)
(*   (no assumption about the design switches: this holds for every variant of the model)                   *)
NotYet == {"idle", "entered", "locked", "dialing"}

SendsInv ==
  /\ DOMAIN pc = Calls
  /\ sends \in [Calls -> Nat]
  /\ \A c \in Calls : pc[c] \in NotYet => sends[c] = 0
  /\ \A c \in Calls : sends[c] <= 1

AtMostOneRequestAll == \A c \in Calls : sends[c] <= 1

LEMMA SInitOK == Init => SendsInv
  BY DEF Init, SendsInv, NotYet

LEMMA SEnterOK == ASSUME SendsInv, NEW c \in Calls, Enter(c) PROVE SendsInv'
  BY DEF SendsInv, Enter, NotYet

LEMMA SLockOK == ASSUME SendsInv, NEW c \in Calls, Lock(c) PROVE SendsInv'
  BY DEF SendsInv, Lock, NotYet

LEMMA SSendOK == ASSUME SendsInv, NEW c \in Calls, Send(c) PROVE SendsInv'
  <1>1. pc[c] = "locked"
    BY DEF Send
  <1>2. \/ pc' = [pc EXCEPT ![c] = "closing"] /\ sends' = sends
        \/ pc' = [pc EXCEPT ![c] = "dialing"] /\ sends' = sends
        \/ pc' = [pc EXCEPT ![c] = "sent"] /\ sends' = sends
        \/ pc' = [pc EXCEPT ![c] = "sent"] /\ sends' = [sends EXCEPT ![c] = @ + 1]
        \/ pc' = [pc EXCEPT ![c] = "closing"] /\ sends' = [sends EXCEPT ![c] = @ + 1]
    BY DEF Send
  <1> QED
    BY <1>1, <1>2 DEF SendsInv, NotYet

LEMMA SConnectOK == ASSUME SendsInv, NEW c \in Calls, Connect(c) PROVE SendsInv'
  <1>1. pc[c] = "dialing" /\ sends' = [sends EXCEPT ![c] = @ + 1]
    BY DEF Connect
  <1>2. pc' = [pc EXCEPT ![c] = "closing"] \/ pc' = [pc EXCEPT ![c] = "sent"]
    BY DEF Connect
  <1> QED
    BY <1>1, <1>2 DEF SendsInv, NotYet

LEMMA SRecvOK == ASSUME SendsInv, NEW c \in Calls, Recv(c) PROVE SendsInv'
  <1>1. pc[c] = "sent" /\ sends' = sends
    BY DEF Recv
  <1>2. pc' = pc \/ pc' = [pc EXCEPT ![c] = "closing"]
    BY DEF Recv
  <1> QED
    BY <1>1, <1>2 DEF SendsInv, NotYet

LEMMA STimeoutOK == ASSUME SendsInv, NEW c \in Calls, Timeout(c) PROVE SendsInv'
  BY DEF SendsInv, Timeout, NotYet

LEMMA SPeerErrOK == ASSUME SendsInv, NEW c \in Calls, PeerErr(c) PROVE SendsInv'
  BY DEF SendsInv, PeerErr, NotYet

LEMMA SFinishOK == ASSUME SendsInv, NEW c \in Calls, Finish(c) PROVE SendsInv'
  <1>1. pc[c] = "closing" /\ pc' = [pc EXCEPT ![c] = "returning"] /\ sends' = sends
    BY DEF Finish
  <1> QED
    BY <1>1 DEF SendsInv, NotYet

LEMMA SReturnOK == ASSUME SendsInv, NEW c \in Calls, Return(c) PROVE SendsInv'
  BY DEF SendsInv, Return, NotYet

LEMMA SStrayOK == ASSUME SendsInv, NEW c \in Calls, NEW cls \in StrayClasses, Stray(c, cls) PROVE SendsInv'
  BY DEF SendsInv, Stray

LEMMA SDeliverOK == ASSUME SendsInv, NEW p \in pend, Deliver(p) PROVE SendsInv'
  BY DEF SendsInv, Deliver

LEMMA STickOK == ASSUME SendsInv, Tick PROVE SendsInv'
  BY DEF SendsInv, Tick

LEMMA SStutterOK == ASSUME SendsInv, UNCHANGED vars PROVE SendsInv'
  BY DEF SendsInv, vars

THEOREM SInductive == ASSUME SendsInv, [Next]_vars PROVE SendsInv'
  BY SEnterOK, SLockOK, SSendOK, SConnectOK, SRecvOK, STimeoutOK, SPeerErrOK, SFinishOK, SReturnOK, SStrayOK, SDeliverOK, STickOK, SStutterOK DEF Next

THEOREM SendsAlways == Spec => []SendsInv
  <1>1. Init => SendsInv
    BY SInitOK
  <1>2. SendsInv /\ [Next]_vars => SendsInv'
    BY SInductive
  <1> QED
    BY <1>1, <1>2, PTL DEF Spec

THEOREM AtMostOneRequestHolds == SendsInv => AtMostOneRequestAll
  BY DEF SendsInv, AtMostOneRequestAll
=============================================================================
