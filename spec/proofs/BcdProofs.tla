---------------------------- MODULE BcdProofs ----------------------------
(* C12, per byte and unbounded in the byte's position: the nibble arithmetic that spec/Bcd.tla applies      *)
(* position by position is exact - two decimal digits make one valid BCD byte from which exactly these      *)
(* digits are read back, every valid BCD byte is the encoding of its two digits, a byte with a nibble above   *)
(* 9 is not valid, and Bcd2 / ToBcd2 are mutually inverse on 0..99. (TLC checks the sequence-level laws on     *)
(* all strings up to length 5 / all byte strings up to length 2; the laws are position-wise, so together      *)
(* with these lemmas they extend to every length.)                                                         *)
EXTENDS Integers, TLAPS

Byte(hi, lo) == 16 * hi + lo
Hi(b) == b \div 16
Lo(b) == b % 16
ValidBcdByte(b) == b \div 16 <= 9 /\ b % 16 <= 9
Bcd2(b) == 10 * (b \div 16) + (b % 16)
ToBcd2(n) == 16 * (n \div 10) + (n % 10)

THEOREM EncodeThenDecode ==
  \A hi, lo \in 0..9 : /\ Byte(hi, lo) \in 0..153
                       /\ ValidBcdByte(Byte(hi, lo))
                       /\ Hi(Byte(hi, lo)) = hi /\ Lo(Byte(hi, lo)) = lo
  BY DEF Byte, Hi, Lo, ValidBcdByte

THEOREM DecodeThenEncode ==
  \A b \in 0..255 : ValidBcdByte(b) => /\ Hi(b) \in 0..9 /\ Lo(b) \in 0..9
                                       /\ Byte(Hi(b), Lo(b)) = b
<1> TAKE b \in 0..255
<1> HAVE ValidBcdByte(b)
<1>1. b = 16 * (b \div 16) + (b % 16) /\ b % 16 \in 0..15 /\ b \div 16 \in 0..15
  OBVIOUS
<1> QED BY <1>1 DEF Byte, Hi, Lo, ValidBcdByte

THEOREM NonDecimalNibbleRejected ==
  \A hi, lo \in 0..15 : (hi > 9 \/ lo > 9) => ~ValidBcdByte(Byte(hi, lo))
  BY DEF Byte, ValidBcdByte

THEOREM DistinctDigitsDistinctBytes ==
  \A h1, l1, h2, l2 \in 0..9 : Byte(h1, l1) = Byte(h2, l2) => h1 = h2 /\ l1 = l2
<1> TAKE h1, l1, h2, l2 \in 0..9
<1> HAVE Byte(h1, l1) = Byte(h2, l2)
<1>1. Hi(Byte(h1, l1)) = h1 /\ Lo(Byte(h1, l1)) = l1 /\ Hi(Byte(h2, l2)) = h2 /\ Lo(Byte(h2, l2)) = l2
  BY EncodeThenDecode
<1> QED BY <1>1

THEOREM Bcd2Inverse ==
  /\ \A n \in 0..99 : ValidBcdByte(ToBcd2(n)) /\ Bcd2(ToBcd2(n)) = n
  /\ \A b \in 0..255 : ValidBcdByte(b) => Bcd2(b) \in 0..99 /\ ToBcd2(Bcd2(b)) = b
<1>1. ASSUME NEW n \in 0..99 PROVE ValidBcdByte(ToBcd2(n)) /\ Bcd2(ToBcd2(n)) = n
  <2>1. n = 10 * (n \div 10) + (n % 10) /\ n % 10 \in 0..9 /\ n \div 10 \in 0..9
    OBVIOUS
  <2>2. \A q, r \in 0..9 : (16 * q + r) \div 16 = q /\ (16 * q + r) % 16 = r
    OBVIOUS
  <2> QED BY <2>1, <2>2 DEF Bcd2, ToBcd2, ValidBcdByte
<1>2. ASSUME NEW b \in 0..255, ValidBcdByte(b) PROVE Bcd2(b) \in 0..99 /\ ToBcd2(Bcd2(b)) = b
  <2>1. b = 16 * (b \div 16) + (b % 16) /\ b % 16 \in 0..9 /\ b \div 16 \in 0..9
    <3>1. b = 16 * (b \div 16) + (b % 16) /\ b % 16 \in 0..15 /\ b \div 16 \in 0..15
      OBVIOUS
    <3> QED BY <3>1, <1>2 DEF ValidBcdByte
  <2>2. \A q, r \in 0..9 : (10 * q + r) \div 10 = q /\ (10 * q + r) % 10 = r
    OBVIOUS
  <2> QED BY <2>1, <2>2 DEF Bcd2, ToBcd2
<1> QED BY <1>1, <1>2
==========================================================================
