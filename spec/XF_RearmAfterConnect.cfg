SPECIFICATION Spec
CONSTANTS
  Calls = {"a", "b"}
  T = 3
  MaxNow = 9
  FixedPort = FALSE
  CallCfg <- C2udp
  ReplyClasses = {"valid"}
  StrayClasses = {}
  MaxReplies = 1
  MaxStray = 0
  MaxEnter = 1
  MaxDelay = 1
  PeerFaults = {"slowstall"}
  DeadlineBeforeLock = FALSE
  NoGuard = FALSE
  GuardPerClient = FALSE
  RearmPerRead = FALSE
  NoCloseOnError = FALSE
  RearmAfterConnect = TRUE
  UdpStrays = "none"
VIEW View
CHECK_DEADLOCK FALSE
INVARIANT BoundedReturn
INVARIANT DeadlineFromAsk
