SPECIFICATION Spec
CONSTANTS
  T = 2
  MaxDgrams = 2
  UseMutex = TRUE
  RearmWindow = TRUE
  HandOff = FALSE
INVARIANT WindowAbsolute
CHECK_DEADLOCK FALSE
