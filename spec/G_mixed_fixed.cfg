SPECIFICATION Spec
CONSTANTS
  Calls = {"a", "b", "c"}
  T = 3
  MaxNow = 16
  FixedPort = TRUE
  CallCfg <- G3mixed
  ReplyClasses <- AllClasses
  StrayClasses <- StrayCls
  MaxReplies = 1
  MaxStray = 1
  MaxEnter = 2
  MaxDelay = 3
  PeerFaults <- Faults
  DeadlineBeforeLock = FALSE
  NoGuard = FALSE
  GuardPerClient = FALSE
  RearmPerRead = FALSE
  NoCloseOnError = FALSE
  RearmAfterConnect = FALSE
  UdpStrays = "dropped"
CHECK_DEADLOCK FALSE
CONSTRAINT Export
