------------------------------ MODULE Listener ------------------------------
(* The event listener (uhppote/listen.go, uhppote.go listen(), UT0311.go Listen()) as a state        *)
(* machine: main (bind, spawn closer and receive loop, OnConnected, wait for quit, close(signal),     *)
(* wait done, return, deferred close(pipe)), receive loop (read -> validate -> OnError | rendezvous    *)
(* on the unbuffered pipe; on read error: closed ? exit : continue), closer, dispatcher (receive ->    *)
(* OnEvent; nil -> exit) and senders (the adversary). Events and errors are two logs with no           *)
(* cross-order: OnError runs on the receive-loop goroutine, OnEvent on the dispatch goroutine.          *)
(* Design switches for the expected-to-fail configurations: SpawnPerEvent (a goroutine per event),      *)
(* DropWhenBusy (the handler hands an event over only if the dispatcher is ready, else reports an error  *)
(* and drops it - a non-blocking send on a buffered pipe), DoneOnClose (the `done` channel is closed by   *)
(* the closer right after the socket, i.e. it means "socket closed" instead of "receive loop stopped":     *)
(* Listen then returns and closes the event pipe while the loop may still be sending on it).               *)
EXTENDS Integers, Sequences, FiniteSets, TLC
CONSTANTS MaxDgrams, Senders, SpawnPerEvent, DropWhenBusy, DoneOnClose
VARIABLES mpc, lpc, dpc, cpc, sockOpen, closedFlag, signalClosed, doneClosed, pipeClosed,
          inbox, cur, hand, evlog, errlog, connected, sent, nsent, bag, dropped
vars == <<mpc, lpc, dpc, cpc, sockOpen, closedFlag, signalClosed, doneClosed, pipeClosed, inbox, cur, hand, evlog, errlog, connected, sent, nsent, bag, dropped>>
None == [cls |-> "none", s |-> "none", n |-> 0]
Init == /\ mpc = "start" /\ lpc = "none" /\ dpc = "recv" /\ cpc = "none" /\ sockOpen = FALSE /\ closedFlag = FALSE
        /\ signalClosed = FALSE /\ doneClosed = FALSE /\ pipeClosed = FALSE /\ inbox = <<>> /\ cur = None /\ hand = None
        /\ evlog = <<>> /\ errlog = <<>> /\ connected = 0 /\ sent = [s \in Senders |-> <<>>] /\ nsent = 0 /\ bag = {} /\ dropped = {}
U(v) == UNCHANGED v
\* main
Bind == mpc = "start" /\ mpc' = "bound" /\ sockOpen' = TRUE /\ lpc' = "read" /\ cpc' = "wait"
        /\ U(<<dpc, closedFlag, signalClosed, doneClosed, pipeClosed, inbox, cur, hand, evlog, errlog, connected, sent, nsent, bag, dropped>>)
Connected == mpc = "bound" /\ mpc' = "waitq" /\ connected' = connected + 1
        /\ U(<<lpc, dpc, cpc, sockOpen, closedFlag, signalClosed, doneClosed, pipeClosed, inbox, cur, hand, evlog, errlog, sent, nsent, bag, dropped>>)
Quit == mpc = "waitq" /\ mpc' = "waitdone" /\ signalClosed' = TRUE
        /\ U(<<lpc, dpc, cpc, sockOpen, closedFlag, doneClosed, pipeClosed, inbox, cur, hand, evlog, errlog, connected, sent, nsent, bag, dropped>>)
Return == mpc = "waitdone" /\ doneClosed /\ mpc' = "returned" /\ pipeClosed' = TRUE
        /\ U(<<lpc, dpc, cpc, sockOpen, closedFlag, signalClosed, doneClosed, inbox, cur, hand, evlog, errlog, connected, sent, nsent, bag, dropped>>)
\* closer
CloserFire == cpc = "wait" /\ signalClosed /\ cpc' = "done" /\ closedFlag' = TRUE /\ sockOpen' = FALSE
        /\ doneClosed' = (IF DoneOnClose THEN TRUE ELSE doneClosed)
        /\ U(<<mpc, lpc, dpc, signalClosed, pipeClosed, inbox, cur, hand, evlog, errlog, connected, sent, nsent, bag, dropped>>)
\* senders (adversary)
Send(s, cls) == nsent < MaxDgrams /\ nsent' = nsent + 1
        /\ LET d == [cls |-> cls, s |-> s, n |-> Len(sent[s]) + 1] IN
           /\ sent' = [sent EXCEPT ![s] = Append(@, d)]
           /\ (IF sockOpen THEN inbox' = Append(inbox, d) /\ U(dropped) ELSE dropped' = dropped \cup {d} /\ U(inbox))
        /\ U(<<mpc, lpc, dpc, cpc, sockOpen, closedFlag, signalClosed, doneClosed, pipeClosed, cur, hand, evlog, errlog, connected, bag>>)
\* receive loop
LRead == lpc = "read" /\ sockOpen /\ inbox # <<>> /\ cur' = Head(inbox) /\ inbox' = Tail(inbox) /\ lpc' = "handle"
        /\ U(<<mpc, dpc, cpc, sockOpen, closedFlag, signalClosed, doneClosed, pipeClosed, hand, evlog, errlog, connected, sent, nsent, bag, dropped>>)
LReadErr == lpc = "read" /\ ~sockOpen /\ (IF closedFlag THEN lpc' = "exit" /\ doneClosed' = TRUE ELSE U(<<lpc, doneClosed>>))
        /\ dropped' = dropped \cup {inbox[i] : i \in 1..Len(inbox)} /\ inbox' = <<>>
        /\ U(<<mpc, dpc, cpc, sockOpen, closedFlag, signalClosed, pipeClosed, cur, hand, evlog, errlog, connected, sent, nsent, bag>>)
LHandle == lpc = "handle" /\ (IF cur.cls = "valid" /\ ~(DropWhenBusy /\ dpc # "recv") THEN lpc' = "sendpipe" /\ U(<<errlog, cur>>)
                                                 ELSE lpc' = "read" /\ errlog' = Append(errlog, cur) /\ cur' = None)
        /\ U(<<mpc, dpc, cpc, sockOpen, closedFlag, signalClosed, doneClosed, pipeClosed, inbox, hand, evlog, connected, sent, nsent, bag, dropped>>)
\* rendezvous on the unbuffered pipe
Rendezvous == lpc = "sendpipe" /\ dpc = "recv" /\ hand' = cur /\ cur' = None /\ lpc' = "read" /\ dpc' = "callback"
        /\ U(<<mpc, cpc, sockOpen, closedFlag, signalClosed, doneClosed, pipeClosed, inbox, evlog, errlog, connected, sent, nsent, bag, dropped>>)
DCallback == dpc = "callback" /\ dpc' = "recv" /\ hand' = None
        /\ (IF SpawnPerEvent THEN bag' = bag \cup {hand} /\ U(evlog) ELSE evlog' = Append(evlog, hand) /\ U(bag))
        /\ U(<<mpc, lpc, cpc, sockOpen, closedFlag, signalClosed, doneClosed, pipeClosed, inbox, cur, errlog, connected, sent, nsent, dropped>>)
BagRun(e) == e \in bag /\ bag' = bag \ {e} /\ evlog' = Append(evlog, e)
        /\ U(<<mpc, lpc, dpc, cpc, sockOpen, closedFlag, signalClosed, doneClosed, pipeClosed, inbox, cur, hand, errlog, connected, sent, nsent, dropped>>)
DExit == dpc = "recv" /\ pipeClosed /\ dpc' = "exit"
        /\ U(<<mpc, lpc, cpc, sockOpen, closedFlag, signalClosed, doneClosed, pipeClosed, inbox, cur, hand, evlog, errlog, connected, sent, nsent, bag, dropped>>)
Next == Bind \/ Connected \/ Quit \/ Return \/ CloserFire \/ LRead \/ LReadErr \/ LHandle \/ Rendezvous \/ DCallback \/ DExit
        \/ (\E s \in Senders, cls \in {"valid", "bad"} : Send(s, cls)) \/ (\E e \in bag : BagRun(e))
Spec == Init /\ [][Next]_vars
FairSpec == Spec /\ WF_vars(Bind \/ Connected \/ Return \/ CloserFire \/ LRead \/ LReadErr \/ LHandle \/ Rendezvous \/ DCallback \/ DExit \/ (\E e \in bag : BagRun(e))) /\ WF_vars(Quit)
\* projections
Proj(log, s) == SelectSeq(log, LAMBDA d : d.s = s)
IsPrefix(a, b) == Len(a) <= Len(b) /\ \A i \in 1..Len(a) : a[i] = b[i]
ValidOf(s) == SelectSeq(sent[s], LAMBDA d : d.cls = "valid" /\ d \notin dropped)
BadOf(s) == SelectSeq(sent[s], LAMBDA d : d.cls = "bad" /\ d \notin dropped)
EventsInOrderOnce == \A s \in Senders : IsPrefix(Proj(evlog, s), ValidOf(s))
ErrorsInOrderOnce == \A s \in Senders : IsPrefix(Proj(errlog, s), BadOf(s))
ConnectedOnce == connected <= 1 /\ (mpc \in {"waitq", "waitdone", "returned"} => connected = 1)
Quiescent == mpc = "returned" /\ dpc = "exit" /\ lpc = "exit" /\ bag = {}
Complete == Quiescent => \A s \in Senders : Proj(evlog, s) = ValidOf(s) /\ Proj(errlog, s) = BadOf(s)
\* nobody ever sends on the event pipe after it has been closed (a Go panic on a library goroutine)
NoSendOnClosedPipe == ~(lpc = "sendpipe" /\ pipeClosed)
Rebindable == mpc = "returned" => ~sockOpen /\ cpc = "done" /\ lpc = "exit"
Terminates == (mpc = "waitdone") ~> (mpc = "returned" /\ dpc = "exit")
=============================================================================
