-------------------------- MODULE Trace_Codec --------------------------
(* C05 (and the decode half of C04): the codec and the message dispatchers, judged per         *)
(* recorded call.                                                                              *)
(*   rt        a generated in-domain value of a registered message type: `enc` its encoding,    *)
(*             `dec` the decoding of that, `dec2` the decoding after the bytes listed in        *)
(*             `flipped` (slack positions chosen by the specification) were changed,            *)
(*             `dec3` the same through UnmarshalAs                                              *)
(*   dispatch  UnmarshalRequest / UnmarshalResponse on a message of `len` bytes with protocol    *)
(*             id `som` and function code `code` (zero payload)                                 *)
(*   fuzz      summary of N decodes of arbitrary byte strings through one entry point           *)
EXTENDS TraceKit, Api

AllTypes == [n \in (DOMAIN RequestTypes) \cup (DOMAIN ResponseTypes) \cup (DOMAIN EventTypes) |->
               IF n \in DOMAIN RequestTypes THEN RequestTypes[n] ELSE IF n \in DOMAIN ResponseTypes THEN ResponseTypes[n] ELSE EventTypes[n]]

SomOf(type) == IF type = "EventV6_62" THEN 25 ELSE 23

\* the Go type of every field can hold the layout's kind (a 32-bit field declared as a 16-bit one decodes "the encoded value"
\* only for small values); logged as a shape class per field so that the comparison below stays total
ShapeClass(kind) == CASE kind \in {"u8", "u16", "version"} -> "int"
                      [] kind \in {"u32", "serial", "pin"} -> "pair"
                      [] kind = "bool" -> "bool"
                      [] kind \in {"ipv4", "mac"} -> "bytes"
                      [] kind = "addrport" -> "addrport"
                      [] kind = "date" -> "date"
                      [] kind = "datetime" -> "datetime"
                      [] kind = "sysdate" -> "sysdate"
                      [] kind = "systime" -> "systime"
                      [] kind \in {"hhmm", "hhmmp"} -> "hhmm"
                      [] OTHER -> "other"
ShapesOK(L, e) == ~Has(e, "shape") \/ \A k \in 1..Len(L.fields) : Has(e.shape, L.fields[k].name) /\ e.shape[L.fields[k].name] = ShapeClass(L.fields[k].kind)

CheckRT(e) ==
  LET L == AllTypes[e.type] IN
  IF ~ShapesOK(L, e) THEN Judge("C05", "FieldTypeFitsLayout", FALSE, e.shape, [k \in 1..Len(L.fields) |-> <<L.fields[k].name, ShapeClass(L.fields[k].kind)>>]) ELSE
  /\ Judge("C04", "NoPanic", e.enc.t # "panic" /\ e.dec.t # "panic" /\ e.dec2.t # "panic" /\ e.dec3.t # "panic" /\ e.dec4.t # "panic", <<e.enc.t, e.dec.t, e.dec2.t, e.dec3.t, e.dec4.t>>, "no panic")
  /\ Judge("C05", "EncodeExact", e.enc.t = "ok" /\ EncodedOK(L, SomOf(e.type), e.vals, e.enc.b), e.enc, e.vals)
  /\ (IF e.enc.t = "ok"
        THEN /\ Judge("C05", "FlippedOnlySlack", \A i \in 1..Len(e.flipped) : e.flipped[i] \in SlackBytes(L), e.flipped, "slack")
             /\ Judge("C05", "RoundTrip", e.dec.t = "ok" /\ e.dec.v = e.vals, e.dec, e.vals)
             /\ Judge("C05", "RoundTripAs", e.dec3.t = "ok" /\ e.dec3.v = e.vals, e.dec3, e.vals)
             /\ Judge("C05", "SlackIndependent", e.dec2.t = "ok" /\ e.dec2.v = e.vals, e.dec2, e.vals)
             /\ Judge("C05", "NoAlias", ~e.aliased, e.type, "decoded values share no memory with the input buffer")
             \* decoded into a struct that already held another decoded message of the type ("none": that one was not to be had)
             /\ Judge("C05", "ReuseIndependent", e.dec4.t = "none" \/ (e.dec4.t = "ok" /\ e.dec4.v = e.vals), e.dec4, e.vals)
        ELSE TRUE)

CheckDispatch(e) ==
  LET table == IF e.dir = "req" THEN RequestTypes ELSE ResponseTypes
      want == IF e.len = 64 /\ e.som = 23 THEN TypeOfCode(table, e.code) ELSE "none" IN
  /\ Judge("C04", "NoPanic", e.out.t # "panic", e.out, "no panic")
  /\ Judge("C05", "DispatchOK", IF want = "none" THEN e.out.t = "err" ELSE e.out.t = "ok" /\ e.out.type = want, e.out, want)

CheckFuzz(e) ==
  Judge("C04", "NoPanic", e.panics = 0, e.first, "no panic")

\* a value a dispatcher returned does not change when the dispatcher is given the next message of the same type
CheckHold(e) ==
  /\ Judge("C04", "NoPanic", e.first.t # "panic", e.first, "no panic")
  /\ Judge("C05", "DispatchIndependent", e.first.t = "ok" /\ e.first_after = e.first, <<e.type, e.first_after>>, e.first)

\* every codec entry point refuses a message that is not 64 bytes long or does not start with the protocol id (0x17; 0x19
\* for the status / event function 0x20 only)
CheckFraming(e) ==
  LET framed == e.len = 64 /\ (e.som = 23 \/ (e.som = 25 /\ e.code = 32)) IN
  /\ Judge("C04", "NoPanic", e.out.t # "panic", <<e.entry, e.type, e.len, e.som, e.out>>, "no panic")
  /\ Judge("C05", "FramingEnforced", framed \/ e.out.t = "err", <<e.entry, e.type, e.len, e.som, e.out.t>>, "err")

Check(e) == CASE e.fn = "rt" -> CheckRT(e)
              [] e.fn = "framing" -> CheckFraming(e)
              [] e.fn = "hold" -> CheckHold(e)
              [] e.fn = "dispatch" -> CheckDispatch(e)
              [] e.fn = "fuzz" -> CheckFuzz(e)

TraceNext == l <= Len(Trace) /\ Check(Trace[l]) /\ l' = l + 1
========================================================================
