INIT Init
NEXT Next
CONSTANTS MaxStr = 4
          MaxBytes = 2
INVARIANT Laws
CHECK_DEADLOCK FALSE
