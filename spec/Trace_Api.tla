--------------------------- MODULE Trace_Api ---------------------------
(* Validation of API calls recorded on Rig S (the scripted in-memory transport).             *)
(* One event = one call on a client: operation, abstract arguments, every byte string handed  *)
(* to the transport (in order), the transport method + endpoint invoked, the datagrams the     *)
(* script delivered, and the abstract result. The client is a memoryless machine: what a call  *)
(* sends and returns is a function of this event alone - which is exactly what lets the       *)
(* harness issue *sequences* of calls on one client and have each judged on its own (history   *)
(* independence of C01).                                                                      *)
(* Conjuncts (each tagged with the property it belongs to):                                   *)
(*   C01 SentOK     sent = <<Request(op, args)>> for an accepted call (all 64 bytes)            *)
(*   C07 RejectOK   nothing sent and an error returned  <=>  Reject(op, args)                   *)
(*   C02 ResultOK   the returned value is an acceptable interpretation of the delivered reply    *)
(*   C04 NoPanic / RenderOK                                                                    *)
EXTENDS TraceKit, Api

CheckSent(e) ==
  LET want == Sent(e.op, e.a) IN
  \/ Reject(e.op, e.a)          \* C01 quantifies over accepted calls; refusals are C07's
  \/ Judge("C01", "SentOK", e.sent = want, e.sent, want)

CheckReject(e) ==
  LET rej == Reject(e.op, e.a) IN
  /\ Judge("C07", "NothingSentIffRejected", (Len(e.sent) = 0) <=> rej, <<Len(e.sent), e.ret.t>>, IF rej THEN "rejected" ELSE "accepted")
  /\ (IF rej THEN Judge("C07", "RejectedReturnsError", e.ret.t = "err", e.ret.t, "err") ELSE TRUE)
  /\ (IF ~rej THEN Judge("C07", "AcceptedSendsOnce", Len(e.sent) = 1, Len(e.sent), 1) ELSE TRUE)
  \* "disables (sends 0 for) passcodes above 999999 or beyond the fourth" - and only those
  /\ (IF ~rej /\ e.op = "SetDoorPasscodes" THEN Judge("C07", "PasscodesSentOrDisabled", e.sent = Sent(e.op, e.a), e.sent, Sent(e.op, e.a)) ELSE TRUE)

CheckNoPanic(e) ==
  /\ Judge("C04", "NoPanic", e.ret.t # "panic", e.ret, "no panic")
  /\ Judge("C04", "RenderOK", e.render.string = "ok" /\ e.render.json = "ok", e.render, "ok")

\* C16: the time-profile validation accepts a segment exactly when its end is not before its start (judged on calls
\* that have no other reason to be refused)
CheckSegmentRule(e) ==
  IF e.op = "SetTimeProfile" /\ e.a.serial # <<0, 0>> /\ e.a.profile.from.t # "zero" /\ e.a.profile.to.t # "zero"
     /\ \A k \in 1..3 : HasKey(e.a.profile.segments, k)
    THEN LET bad == \E k \in 1..3 : LET sg == Lookup(e.a.profile.segments, k, ZeroSeg) IN HHmmLT(sg.end, sg.start) IN
         Judge("C16", "SegmentRule", (Len(e.sent) = 0 /\ e.ret.t = "err") <=> bad, <<Len(e.sent), e.ret.t>>, IF bad THEN "refused" ELSE "accepted")
    ELSE TRUE

\* the complete card-number space against Wiegand-26, as maximal intervals of accepted numbers:
\* facility code 0..255 followed by 00000..65535, minus the reserved number 0
W26Expected == [f \in 1..256 |-> <<U32(IF f = 1 THEN 1 ELSE (f - 1) * 100000), U32((f - 1) * 100000 + 65535)>>]
CheckW26(e) == Judge("C07", "W26AcceptSet", e.intervals = W26Expected, e.n, 256)

\* C02: a single delivered datagram that follows a correct 4+4 byte header (64 bytes, protocol id,
\* the operation's function code, the addressed serial number) must be interpreted per Api!ResultOK
HeaderCorrect(e, msg) == /\ Len(msg) = 64 /\ HeaderOK(Rsp[e.op], msg) /\ Field(msg, 4, 4) = LE32(e.a.serial)
CheckResult(e) ==
  IF e.op \in ReplyOps \ {"GetDevices"} /\ ~Reject(e.op, e.a) /\ Has(e, "cfg") /\ Len(e.delivered) = 1 /\ e.ret.t # "panic"
    THEN LET msg == e.delivered[1].b IN
         IF HeaderCorrect(e, msg)
           THEN Judge("C02", "ResultOK", ResultOK(e.op, e.a, e.cfg, msg, e.ret), e.ret, DecodeFields(Rsp[e.op], msg))
           ELSE TRUE
    ELSE TRUE

\* C06: an accepted call invokes the transport exactly once, with the method and endpoint of Api!Route
CheckRoute(e) ==
  IF Has(e, "cfg") /\ Has(e.cfg, "routed") /\ ~Reject(e.op, e.a)
    THEN /\ Judge("C06", "OneTransportCall", e.ncalls = 1, e.ncalls, 1)
         /\ Judge("C06", "RouteOK", e.route = Route(e.op, e.cfg, e.a.serial), e.route, Route(e.op, e.cfg, e.a.serial))
    ELSE TRUE

\* C11: discovery returns exactly the well-formed replies among the delivered datagrams, in order
CheckDiscovery(e) ==
  IF e.op = "GetDevices" /\ Has(e, "cfg") /\ Has(e.cfg, "routed") /\ e.ret.t # "panic"
    THEN Judge("C11", "DiscoveryOK", DiscoveryOK(e.cfg, [i \in 1..Len(e.delivered) |-> e.delivered[i].b], e.ret),
               e.ret, [i \in 1..Len(e.delivered) |-> DgClass(e.delivered[i].b)])
    ELSE TRUE

\* C10: a delivered status is the protocol decoding of its datagram and does not change afterwards
CheckEvent(e) ==
  LET msg == e.b
      \* total: a delivered status whose datagram is not 64 bytes long (or is unknown to the harness: <<>>) has no decoding
      dec == IF Len(msg) = 64 THEN DecodeFields(Event, msg) ELSE [t |-> "undecodable", len |-> Len(msg)] IN
  /\ Judge("C04", "NoPanic", e.status.t # "panic", e.status, "no panic")
  /\ Judge("C10", "EventDecoded", Len(msg) = 64 /\ (msg[1] = 23 \/ msg[1] = 25) /\ msg[2] = 32 /\ Field(msg, 4, 4) # <<0, 0, 0, 0>>
                                   /\ StatusOK("GetStatus", dec, e.status), e.status, dec)
  /\ Judge("C10", "Stable", e.later = e.status, e.later, e.status)

\* C09 for discovery: calls made while datagrams keep arriving through the deadline return within T (plus slack, never
\* early) and leave no goroutine or socket behind
CheckQuiesce(e) ==
  /\ Judge("C09", "Released", e.goroutines_after <= e.goroutines_before /\ e.fds_after <= e.fds_before,
            <<e.goroutines_before, e.goroutines_after, e.fds_before, e.fds_after>>, "no more goroutines or sockets than before")
  /\ Judge("C09", "BoundedReturn", e.disturbed \/ e.elapsed_max_ms * 100 <= e.T_ms * 150 + (IF Has(e, "slack_ms") THEN e.slack_ms * 100 ELSE 0),
            <<e.elapsed_max_ms, e.T_ms>>, "within T + slack")
  /\ Judge("C09", "NoEarlyGiveUp", e.elapsed_min_ms >= e.T_ms - 2, <<e.elapsed_min_ms, e.T_ms>>, "not before T")

\* C09 "a reply that arrives any time before the deadline is accepted", for a long discovery window: the reply at 0.88 T is
\* listed, a silent window is an empty list (not an error), and the call takes T
CheckWindow(e) ==
  /\ Judge("C09", "TimelyReplyListed", e.disturbed \/ (e.listed = e.expected /\ ~e.failed), <<e.what, e.listed, e.failed>>, e.expected)
  /\ Judge("C09", "NoEarlyGiveUp", e.elapsed_ms >= e.T_ms - 2, <<e.elapsed_ms, e.T_ms>>, "not before T")

\* C06 "from the configured bind address", seen from the controller's side of the socket (discovery, broadcast-to, connected
\* UDP, TCP; a bind address the kernel would not have picked by itself; ephemeral and fixed port)
CheckSource(e) ==
  Judge("C06", "SourceIsBindAddress", e.asked /\ e.src.ip = e.bind.ip /\ (e.bind.port = 0 \/ e.src.port = e.bind.port) /\ e.nreq = 1,
        <<e.path, e.src, e.nreq>>, e.bind)

\* C01 / C03 for a TCP peer that ends the stream without a byte: one request, and the call fails (Transport!PeerErr, fault "closed")
CheckRequests(e) ==
  /\ Judge("C04", "NoPanic", ~e.panicked, e.what, "no panic")
  /\ Judge("C01", "ExactlyOneRequest", e.nreq = 1, <<e.what, e.nreq>>, 1)
  /\ Judge("C03", "NoReplyNoResult", e.failed, e.what, "the call fails")

\* C03 "any other datagram on the directed path, or a malformed one, makes the call fail": the farm answers the FIRST request
\* with a fatal datagram (Transport!Verdict = "fail" on that path) and any further request with a well-formed reply - the call
\* fails, and it has not asked a second time (Transport!ExactlyOneSend: a call is one Send, whatever Recv makes of the answer)
CheckFatalFirst(e) ==
  /\ Judge("C04", "NoPanic", ~e.panicked, e.what, "no panic")
  /\ Judge("C03", "FatalDatagramFailsTheCall", e.failed, <<e.what, e.nreq>>, "the call fails")
  /\ Judge("C03", "NoSecondRequest", e.nreq = 1, <<e.what, e.nreq>>, 1)
  \* (the same count under the properties that own "exactly one request per call": their checks run this pass too)
  /\ Judge("C01", "ExactlyOneRequest", e.nreq = 1, <<e.what, e.nreq>>, 1)
  /\ Judge("C06", "OneRequestPerCall", e.nreq = 1, <<e.what, e.nreq>>, 1)

\* C08 at the schedule "A's transport has returned, B runs to completion, only then does A look at its bytes"
\* (Transport!Finish(a) ... Return(a)): each call's result is the interpretation of the reply to its OWN request
CheckGate(e) ==
  /\ Judge("C04", "NoPanic", e.ret.t # "panic", e.ret, "no panic")
  /\ Judge("C08", "OwnReply", e.ret.t # "panic" /\ ResultOK(e.op, e.a, e.cfg, e.delivered[1].b, e.ret),
            <<e.gate, e.ret>>, DecodeFields(Rsp[e.op], e.delivered[1].b))

\* C17 / C03 on the real driver: a result is kept while 1..4 further exchanges (other operations, other paths, strays,
\* wrong lengths) pass through the transport's receive buffers; projected again it is still the interpretation of its
\* OWN datagram - "returned values are not affected by later reuse of the network buffers they were decoded from", "the
\* content of any other datagram never appears in a returned result"
CheckKept(e) ==
  LET msgs == [i \in 1..Len(e.delivered) |-> e.delivered[i].b]
      own(r) == IF e.op = "GetDevices" THEN DiscoveryOK(e.cfg, msgs, r)
                ELSE Len(msgs) = 1 /\ ResultOK(e.op, e.a, e.cfg, msgs[1], r) IN
  /\ Judge("C04", "NoPanic", e.ret.t # "panic" /\ e.ret_later.t # "panic", e.ret_later, "no panic")
  \* C01 at the socket, where a driver wrapper cannot look: "exactly one 64-byte request reaches the network" - also when
  \* datagrams that are not the call's reply arrive first
  /\ Judge("C01", "ExactlyOneRequest", e.nreq = 1, <<e.kept.path, e.nreq>>, 1)
  \* ... and what arrived at the controller's socket is the protocol encoding of the call (whatever a driver does to the
  \* bytes between taking them and writing them is invisible at the driver interface)
  /\ Judge("C01", "WireExact", e.sent = Sent(e.op, e.a), <<e.kept.path, e.sent>>, Sent(e.op, e.a))
  /\ Judge("C17", "KeptResultUnaffected", e.ret_later = e.ret, <<e.kept, e.ret_later>>, e.ret)
  /\ Judge("C03", "OnlyOwnDatagram", e.ret_later.t # "panic" /\ own(e.ret_later), <<e.kept, e.ret_later>>, e.ret)
  /\ Judge("C02", "ResultOK", e.ret.t # "panic" /\ own(e.ret), <<e.kept, e.ret>>, "the interpretation of the delivered reply")

\* calls whose arguments lie beyond what the projection can express (year 20000, HH:mm 100:100, ...)
\* are judged for totality only
Check(e) == IF e.op = "W26Intervals" THEN CheckW26(e)
            ELSE IF e.op = "Event" THEN CheckEvent(e)
            ELSE IF e.op = "Quiesce" THEN CheckQuiesce(e)
            ELSE IF e.op = "Window" THEN CheckWindow(e)
            ELSE IF e.op = "Source" THEN CheckSource(e)
            ELSE IF e.op = "Requests" THEN CheckRequests(e)
            ELSE IF e.op = "FatalFirst" THEN CheckFatalFirst(e)
            ELSE IF Has(e, "gate") THEN CheckGate(e)
            ELSE IF Has(e, "kept") THEN CheckKept(e)
            ELSE IF Has(e.a, "extreme")
              THEN /\ CheckNoPanic(e)
                   \* C07 "a call is rejected only for these reasons": the caller made sure that none of them applies
                   /\ (IF Has(e.a, "mustsend") THEN Judge("C07", "RejectedOnlyForTheseReasons", Len(e.sent) = 1, <<e.op, Len(e.sent), e.ret.t>>, "sent") ELSE TRUE)
            ELSE CheckSent(e) /\ CheckReject(e) /\ CheckSegmentRule(e) /\ CheckNoPanic(e) /\ CheckResult(e) /\ CheckRoute(e) /\ CheckDiscovery(e)

TraceNext == l <= Len(Trace) /\ Check(Trace[l]) /\ l' = l + 1
========================================================================
