------------------------------ MODULE Wire ------------------------------
(* The UT0311-L0x field codec: how each kind of value is laid out in the 64-byte message,    *)
(* and how a whole message is encoded from / decoded to a record of abstract field values.   *)
(*                                                                                          *)
(* Abstract values                                                                          *)
(*   u8, u16        integer              bool      BOOLEAN                                    *)
(*   u32, serial    <<hi16, lo16>>       pin       <<hi8, lo16>> (24 bit)                     *)
(*   ipv4           <<a, b, c, d>>       addrport  [ip |-> <<a,b,c,d>>, port |-> 0..65535]    *)
(*   mac            6 bytes              version   0..65535                                   *)
(*   date           [t|->"zero"] | [t|->"date", y, m, d]                                      *)
(*   datetime       [t|->"zero"] | [t|->"dt", y, m, d, h, mi, s]                              *)
(*   sysdate        [t|->"zero"] | [t|->"date", y, m, d]      (two-digit year on the wire)    *)
(*   systime        [h, mi, s]           hhmm / hhmmp   [h, mi]                               *)
EXTENDS Bytes, Bcd, Calendar

Kinds == {"u8", "u16", "u32", "serial", "bool", "ipv4", "addrport", "mac", "version", "pin",
          "date", "datetime", "sysdate", "systime", "hhmm", "hhmmp"}

Width(kind) ==
  CASE kind \in {"u8", "bool"} -> 1
    [] kind \in {"u16", "version", "hhmm", "hhmmp"} -> 2
    [] kind \in {"pin", "sysdate", "systime"} -> 3
    [] kind \in {"u32", "serial", "ipv4", "date"} -> 4
    [] kind \in {"addrport", "mac"} -> 6
    [] kind = "datetime" -> 7

D2(n) == <<ToBcd2(n)>>                         \* two decimal digits as one BCD byte
D4(n) == <<ToBcd2(n \div 100), ToBcd2(n % 100)>>

\* ---- encoding --------------------------------------------------------------------------
EncField(kind, v) ==
  CASE kind = "u8" -> <<v>>
    [] kind = "u16" -> LE16(v)
    [] kind \in {"u32", "serial"} -> LE32(v)
    [] kind = "bool" -> <<IF v THEN 1 ELSE 0>>
    [] kind = "ipv4" -> v
    [] kind = "addrport" -> v.ip \o LE16(v.port)
    [] kind = "mac" -> v
    [] kind = "version" -> BE16(v)
    [] kind = "pin" -> LE24(v)
    [] kind = "date" -> IF v.t = "zero" THEN <<0, 0, 0, 0>> ELSE D4(v.y) \o D2(v.m) \o D2(v.d)
    [] kind = "datetime" -> IF v.t = "zero" THEN <<0, 0, 0, 0, 0, 0, 0>>
                            ELSE D4(v.y) \o D2(v.m) \o D2(v.d) \o D2(v.h) \o D2(v.mi) \o D2(v.s)
    [] kind = "sysdate" -> IF v.t = "zero" THEN <<0, 0, 0>> ELSE D2(v.y % 100) \o D2(v.m) \o D2(v.d)
    [] kind = "systime" -> D2(v.h) \o D2(v.mi) \o D2(v.s)
    [] kind \in {"hhmm", "hhmmp"} -> D2(v.h) \o D2(v.mi)

\* the zero date-time has two accepted encodings: all zero (what controllers send for "no
\* value") and what the library has always sent for its zero value, 0001-01-01 00:00:00
ZeroDTBytesAlt == <<0, 1, 1, 1, 0, 0, 0>>

RECURSIVE OverlayFields(_, _, _, _)
OverlayFields(msg, fields, vals, k) ==
  IF k > Len(fields) THEN msg
  ELSE OverlayFields(Overlay(msg, fields[k].off, EncField(fields[k].kind, vals[fields[k].name])), fields, vals, k + 1)

Header(som, code) == [i \in 1..64 |-> IF i = 1 THEN som ELSE IF i = 2 THEN code ELSE 0]

\* the 64-byte message of layout L carrying `vals` (a record with one entry per field name)
EncodeLayout(L, vals) == OverlayFields(Header(23, L.code), L.fields, vals, 1)
EncodeLayoutSOM(L, som, vals) == OverlayFields(Header(som, L.code), L.fields, vals, 1)

\* acceptable encodings of a value: exactly one, except for the zero date-time
EncAlts(kind, v) == IF kind = "datetime" /\ v.t = "zero" THEN {Zeros(7), ZeroDTBytesAlt} ELSE {EncField(kind, v)}

\* msg is an encoding of `vals` under layout L with protocol id `som`: every field at its offset in
\* its encoding, zero in every byte that belongs to no field
EncodedOK(L, som, vals, msg) ==
  /\ Len(msg) = 64 /\ msg[1] = som /\ msg[2] = L.code
  /\ \A k \in 1..Len(L.fields) : Field(msg, L.fields[k].off, Len(EncField(L.fields[k].kind, vals[L.fields[k].name]))) \in EncAlts(L.fields[k].kind, vals[L.fields[k].name])
  /\ \A i \in 3..64 : (\A k \in 1..Len(L.fields) : ~(i > L.fields[k].off /\ i <= L.fields[k].off + Len(EncField(L.fields[k].kind, vals[L.fields[k].name])))) => msg[i] = 0

\* ---- decoding ----------------------------------------------------------------------------
(* DecField returns [dom, vals, err]:                                                        *)
(*   dom  = "in"    the bytes are in the field's domain: `vals` is the singleton of the        *)
(*                  protocol decoding and an error is NOT allowed                             *)
(*        = "out"   outside the domain: the call may fail (err) or report the field's zero     *)
(*                  "no value" (vals = {zero}) - never another value                          *)
(*        = "any"   the property is silent (documented don't-care): any value, or an error    *)
BcdOK(b) == AllBcd(b)
N2(x) == Bcd2(x)
In(v) == [dom |-> "in", vals |-> {v}]
Out(z) == [dom |-> "out", vals |-> {z}]
DontCare == [dom |-> "any", vals |-> {}]
\* a non-decimal nibble in a BCD field is no encoding of anything - not of a value outside the domain either: such a field
\* has no acceptable value, the call can only fail (C03's "malformed field ... makes the call fail")
NotBcd == [dom |-> "out", vals |-> {}]

DecDate(b) ==
  IF ~BcdOK(b) THEN NotBcd
  ELSE LET y == 100 * N2(b[1]) + N2(b[2]) m == N2(b[3]) d == N2(b[4]) IN
       IF y = 0 /\ m = 0 /\ d = 0 THEN In(ZeroDate)
       ELSE IF y = 1 /\ m = 1 /\ d = 1 THEN [dom |-> "in", vals |-> {ZeroDate, Date(1, 1, 1)}]
       ELSE IF y = 0 THEN (IF ValidYMD(y, m, d) THEN DontCare ELSE Out(ZeroDate))
       ELSE IF ValidYMD(y, m, d) THEN In(Date(y, m, d)) ELSE Out(ZeroDate)

DecDateTime(b) ==
  IF \A i \in 1..7 : b[i] = 0 THEN In(ZeroDT)
  ELSE IF ~BcdOK(b) THEN NotBcd
  ELSE LET y == 100 * N2(b[1]) + N2(b[2]) m == N2(b[3]) d == N2(b[4])
           h == N2(b[5]) mi == N2(b[6]) s == N2(b[7]) IN
       IF y = 1 /\ m = 1 /\ d = 1 /\ h = 0 /\ mi = 0 /\ s = 0 THEN [dom |-> "in", vals |-> {ZeroDT, DT(1, 1, 1, 0, 0, 0)}]
       ELSE IF y = 0 THEN (IF ValidYMD(y, m, d) /\ ValidClock(h, mi, s) THEN DontCare ELSE Out(ZeroDT))
       ELSE IF ValidYMD(y, m, d) /\ ValidClock(h, mi, s) THEN In(DT(y, m, d, h, mi, s)) ELSE Out(ZeroDT)

\* two-digit year: 00..68 -> 20yy; 69..99 is a documented don't-care (pivot not part of the protocol)
DecSysDate(b) ==
  IF \A i \in 1..3 : b[i] = 0 THEN In(ZeroDate)
  ELSE IF ~BcdOK(b) THEN NotBcd
  ELSE LET yy == N2(b[1]) m == N2(b[2]) d == N2(b[3]) IN
       IF yy >= 69 THEN (IF ValidYMD(1900 + yy, m, d) THEN DontCare ELSE Out(ZeroDate))
       ELSE IF ValidYMD(2000 + yy, m, d) THEN In(Date(2000 + yy, m, d)) ELSE Out(ZeroDate)

ZeroClock == [h |-> 0, mi |-> 0, s |-> 0]
DecSysTime(b) ==
  IF ~BcdOK(b) THEN NotBcd
  ELSE LET h == N2(b[1]) mi == N2(b[2]) s == N2(b[3]) IN
       IF ValidClock(h, mi, s) THEN In([h |-> h, mi |-> mi, s |-> s]) ELSE Out(ZeroClock)

\* (HH:mm is the exception: the protocol's "no time" and a garbled one are both reported as 00:00 or refused - C02's rule)
DecHHmm(b) ==
  IF ~BcdOK(b) THEN Out(HM(0, 0))
  ELSE LET h == N2(b[1]) mi == N2(b[2]) IN
       IF ValidHHmm(h, mi) THEN In(HM(h, mi)) ELSE Out(HM(0, 0))

DecField(kind, b) ==
  CASE kind = "u8" -> In(b[1])
    [] kind = "u16" -> In(FromLE16(b))
    [] kind \in {"u32", "serial"} -> In(FromLE32(b))
    \* a boolean has no 'no value': a byte other than 0/1 can only fail the call (no acceptable value at all)
    [] kind = "bool" -> IF b[1] = 0 THEN In(FALSE) ELSE IF b[1] = 1 THEN In(TRUE) ELSE [dom |-> "out", vals |-> {}]
    [] kind = "ipv4" -> In(b)
    [] kind = "addrport" -> In([ip |-> Slice(b, 1, 4), port |-> b[5] + 256 * b[6]])
    [] kind = "mac" -> In(b)
    [] kind = "version" -> In(FromBE16(b))
    [] kind = "pin" -> In(FromLE24(b))
    [] kind = "date" -> DecDate(b)
    [] kind = "datetime" -> DecDateTime(b)
    [] kind = "sysdate" -> DecSysDate(b)
    [] kind = "systime" -> DecSysTime(b)
    [] kind \in {"hhmm", "hhmmp"} -> DecHHmm(b)

\* header rules of a decodable message
HeaderOK(L, msg) ==
  /\ Len(msg) = 64
  /\ (msg[1] = 23 \/ (msg[1] = 25 /\ msg[2] = 32))       \* 0x17, or 0x19 for function 0x20
  /\ msg[2] = L.code

\* per-field decodings of a 64-byte message
DecodeFields(L, msg) ==
  [k \in 1..Len(L.fields) |-> DecField(L.fields[k].kind, Field(msg, L.fields[k].off, Width(L.fields[k].kind)))]

FieldIndex(L, name) == CHOOSE k \in 1..Len(L.fields) : L.fields[k].name = name
FieldNames(L) == {L.fields[k].name : k \in 1..Len(L.fields)}

\* bytes (1-based positions) covered by some field / by the header; the rest is slack
FieldBytes(L) == UNION {{L.fields[k].off + i : i \in 1..Width(L.fields[k].kind)} : k \in 1..Len(L.fields)}
SlackBytes(L) == (3..64) \ FieldBytes(L)

\* ---- well-formedness of a layout ----
FitsIn64(L) == \A k \in 1..Len(L.fields) : L.fields[k].off >= 2 /\ L.fields[k].off + Width(L.fields[k].kind) <= 64
NoOverlap(L) == \A j, k \in 1..Len(L.fields) : j # k =>
                  {L.fields[j].off + i : i \in 1..Width(L.fields[j].kind)} \cap {L.fields[k].off + i : i \in 1..Width(L.fields[k].kind)} = {}
SerialAt4(L) == \E k \in 1..Len(L.fields) : L.fields[k].name = "SerialNumber" /\ L.fields[k].kind = "serial" /\ L.fields[k].off = 4
=========================================================================
