--------------------------- MODULE Trace_Pure ---------------------------
(* Independent calls of pure functions of the library (orderings C16, address grammar C15, civil      *)
(* dates across time zones C13, text / JSON forms C14), each judged by the specification operators.     *)
EXTENDS TraceKit, Api, Addr, Text

\* ---- C16 ----------------------------------------------------------------------------------------
Code(lt, gt, eq) == (IF lt THEN 1 ELSE 0) + (IF gt THEN 2 ELSE 0) + (IF eq THEN 4 ELSE 0)
HM2(n) == HM(n \div 60, n % 60)
CheckHHmmRow(e) ==
  LET a == HM2(e.a) IN
  Judge("C16", "HHmmOrder", \A j \in 1..Len(e.codes) : e.codes[j] = Code(HHmmLT(a, HM2(e.bs[j])), HHmmLT(HM2(e.bs[j]), a), HHmmEQ(a, HM2(e.bs[j]))),
        e.a, "lexicographic (hour, minute): exactly one of before / after / equal")
CheckDateRow(e) ==
  Judge("C16", "DateOrder", \A j \in 1..Len(e.codes) : e.codes[j] = Code(YmdLT(e.a, e.bs[j]), YmdLT(e.bs[j], e.a), YmdEQ(e.a, e.bs[j])),
        e.a, "lexicographic (year, month, day): exactly one of before / after / equal")
\* whole-second timestamps as <<s div 2^20, s mod 2^20>>
SecLT(p, q) == p[1] < q[1] \/ (p[1] = q[1] /\ p[2] < q[2])
CheckDTBefore(e) == Judge("C16", "DateTimeBefore", e.before = SecLT(e.dt, e.t), e, SecLT(e.dt, e.t))

\* ---- C15 ----------------------------------------------------------------------------------------
OutAP(o) == IF o.t = "ok" THEN [t |-> "ap", ip |-> o.ip, port |-> o.port] ELSE [t |-> o.t]
\* (the same grammar decides the JSON form of the address types: those events carry `via` and belong to C14)
CheckParse(e) ==
  LET P == IF Has(e, "via") THEN "C14" ELSE "C15" IN
  /\ Judge("C04", "NoPanic", e.out.t # "panic", e.out, "no panic")
  /\ (IF Has(e, "again") THEN Judge(P, "SameAnswerAgain", e.again = e.out, e.again, e.out) ELSE TRUE)
  /\ (IF MustAccept(e.role, e.s) THEN Judge(P, "AcceptExact", OutAP(e.out) = Denotes(e.role, e.s), e.out, Denotes(e.role, e.s))
      ELSE IF MustReject(e.role, e.s) THEN Judge(P, "Reject", e.out.t = "err", e.out, "err")
      ELSE IF DecimalReading(e.s).t = "ap" /\ e.out.t = "ok"
        THEN Judge(P, "AcceptedMeansDecimal", OutAP(e.out) = DecimalReading(e.s) /\ PortAllowed(e.role, e.out.port), e.out, DecimalReading(e.s))
      ELSE TRUE)
\* formatting an address accepted in dotted-quad form and parsing it again returns the same address and port
CheckFormat(e) ==
  Judge("C15", "FormatRoundTrip", e.reparsed.t = "ok" /\ e.reparsed.ip = e.ip /\ e.reparsed.port = e.port
                                   /\ (e.port = DefaultPort(e.role) /\ e.role # "listen" => IsQuad(e.text))
                                   /\ (e.port # DefaultPort(e.role) \/ e.role = "listen" => IsQuadPort(e.text)), e, "round trip")
\* summary: no string of this length without three dots was accepted
CheckNoDots(e) == Judge("C15", "RejectNoQuad", e.accepted = 0, e, "none accepted")

\* ---- C13 ----------------------------------------------------------------------------------------
DateBytes(v) == EncField("date", v)
CheckCivil(e) ==
  /\ Judge("C04", "NoPanic", e.reported.t # "panic", e.reported, "no panic")
  /\ (IF e.exists
        THEN /\ Judge("C13", "CivilValue", e.reported = e.civil, <<e.op, e.zone, e.reported>>, e.civil)
             /\ (IF Has(e, "wire") THEN Judge("C13", "CivilWire", e.wire = EncField(e.kind, e.civil), <<e.op, e.zone, e.wire>>, EncField(e.kind, e.civil)) ELSE TRUE)
        ELSE TRUE)

\* ---- C14 ----------------------------------------------------------------------------------------
CheckJsonRT(e) ==
  /\ Judge("C04", "NoPanic", e.enc.t # "panic" /\ e.dec.t # "panic" /\ e.decm.t # "panic", <<e.type, e.enc.t, e.dec.t, e.decm.t>>, "no panic")
  /\ Judge("C14", "JsonRoundTrip", e.enc.t = "ok" /\ e.dec.t = "ok" /\ e.dec.v = e.v, <<e.type, e.zone, e.dec>>, e.v)
  /\ Judge("C14", "JsonRoundTripAsMember", e.decm.t \in {"ok", "na"} /\ (e.decm.t = "ok" => e.decm.v = e.v), <<e.type, e.zone, e.decm>>, e.v)
CheckText(e) ==
  /\ Judge("C04", "NoPanic", e.out.t # "panic", <<e.type, e.out>>, "no panic")
  /\ (LET d == TextDenotes(e.type, e.cp, e.text) IN
      IF d.t = "val" THEN Judge("C14", "TextValue", e.out.t = "ok" /\ e.out.v = d.v, <<e.type, e.via, e.text, e.out>>, d.v)
      ELSE IF d.t = "reject" THEN Judge("C14", "TextReject", e.out.t = "err", <<e.type, e.via, e.text, e.out>>, "err")
      ELSE TRUE)

Check(e) == CASE e.fn = "hhmm_row" -> CheckHHmmRow(e)
              [] e.fn = "date_row" -> CheckDateRow(e)
              [] e.fn = "dt_before" -> CheckDTBefore(e)
              [] e.fn = "parse" -> CheckParse(e)
              [] e.fn = "format" -> CheckFormat(e)
              [] e.fn = "nodots" -> CheckNoDots(e)
              [] e.fn = "civil" -> CheckCivil(e)
              [] e.fn = "json_rt" -> CheckJsonRT(e)
              [] e.fn = "text" -> CheckText(e)

TraceNext == l <= Len(Trace) /\ Check(Trace[l]) /\ l' = l + 1
=========================================================================
