------------------------------- MODULE Text -------------------------------
(* C14: the text forms of the public value types that have a parser, character by character.         *)
(* TextDenotes(type, cp, text) says what a text must be read as:                                      *)
(*    [t |-> "val", v |-> value]   it is in the domain and denotes `v`                                 *)
(*    [t |-> "reject"]             it is outside the domain: the parser must fail                      *)
(*    [t |-> "dontcare"]           the property is silent                                              *)
(* `cp` is the text as code points (TLC cannot index strings), `text` the same text as a string.         *)
EXTENDS Integers, Sequences, FiniteSets, Calendar

D(c) == c \in 48..57
N2cp(s, i) == 10 * (s[i] - 48) + (s[i + 1] - 48)
N4cp(s, i) == 1000 * (s[i] - 48) + 100 * (s[i + 1] - 48) + 10 * (s[i + 2] - 48) + (s[i + 3] - 48)
Val(v) == [t |-> "val", v |-> v]
Rej == [t |-> "reject"]
DC == [t |-> "dontcare"]

\* YYYY-MM-DD
DateShape(s) == Len(s) = 10 /\ s[5] = 45 /\ s[8] = 45 /\ \A i \in {1, 2, 3, 4, 6, 7, 9, 10} : D(s[i])
DateText(s) ==
  IF ~DateShape(s) THEN Rej
  ELSE LET y == N4cp(s, 1) m == N2cp(s, 6) d == N2cp(s, 9) IN
       IF y = 0 THEN (IF ValidYMD(y, m, d) THEN DC ELSE Rej)
       ELSE IF ~ValidYMD(y, m, d) THEN Rej
       ELSE IF y = 1 /\ m = 1 /\ d = 1 THEN DC
       ELSE Val(Date(y, m, d))

\* HH:mm
HHmmShape(s) == Len(s) = 5 /\ s[3] = 58 /\ \A i \in {1, 2, 4, 5} : D(s[i])
HHmmText(s) == IF ~HHmmShape(s) THEN Rej
               ELSE LET h == N2cp(s, 1) mi == N2cp(s, 4) IN IF ValidHHmm(h, mi) THEN Val(HM(h, mi)) ELSE Rej

\* HH:mm:ss (system time); texts that are not of the strict shape are a don't-care
ClockShape(s) == Len(s) = 8 /\ s[3] = 58 /\ s[6] = 58 /\ \A i \in {1, 2, 4, 5, 7, 8} : D(s[i])
\* (eight characters with the colons in place but something else than a digit in a field - a sign, a blank, a letter - is no time)
ClockAlmost(s) == Len(s) = 8 /\ s[3] = 58 /\ s[6] = 58 /\ \E i \in {1, 2, 4, 5, 7, 8} : ~D(s[i])
ClockText(s) == IF ClockAlmost(s) THEN Rej
                ELSE IF ~ClockShape(s) THEN DC
                ELSE LET h == N2cp(s, 1) mi == N2cp(s, 4) sec == N2cp(s, 7) IN
                     IF ValidClock(h, mi, sec) THEN Val([h |-> h, mi |-> mi, s |-> sec]) ELSE Rej

\* PIN: up to six decimal digits ("" is no PIN)
RECURSIVE NumCP(_)
NumCP(s) == IF Len(s) = 0 THEN 0 ELSE 10 * NumCP(SubSeq(s, 1, Len(s) - 1)) + (s[Len(s)] - 48)
PinText(s) == IF Len(s) <= 6 /\ \A i \in 1..Len(s) : D(s[i]) THEN Val(<<NumCP(s) \div 65536, NumCP(s) % 65536>>) ELSE Rej

ControlStateText(text) ==
  CASE text = "normally open" -> Val(1) [] text = "normally closed" -> Val(2) [] text = "controlled" -> Val(3) [] OTHER -> Rej

\* task types by name: compared case- and space-insensitively = on the lower-cased letters only
Lower(c) == IF c \in 65..90 THEN c + 32 ELSE c
Letters(s) == LET idx == {i \in 1..Len(s) : Lower(s[i]) \in 97..122} IN
              [k \in 1..Cardinality(idx) |-> Lower(s[CHOOSE i \in idx : Cardinality({j \in idx : j < i}) = k - 1])]
TaskNames == << "controldoor", "unlockdoor", "lockdoor", "disabletimeprofile", "enabletimeprofile", "enablecardnopassword",
                "enablecardinpassword", "enablecardpassword", "enablemorecards", "disablemorecards", "triggeronce",
                "disablepushbutton", "enablepushbutton" >>
\* the names as code points are supplied by the harness-independent table below (a..z = 97..122)
TaskNameCP(k) == CASE k = 1 -> <<99,111,110,116,114,111,108,100,111,111,114>>
                   [] k = 2 -> <<117,110,108,111,99,107,100,111,111,114>>
                   [] k = 3 -> <<108,111,99,107,100,111,111,114>>
                   [] k = 4 -> <<100,105,115,97,98,108,101,116,105,109,101,112,114,111,102,105,108,101>>
                   [] k = 5 -> <<101,110,97,98,108,101,116,105,109,101,112,114,111,102,105,108,101>>
                   [] k = 6 -> <<101,110,97,98,108,101,99,97,114,100,110,111,112,97,115,115,119,111,114,100>>
                   [] k = 7 -> <<101,110,97,98,108,101,99,97,114,100,105,110,112,97,115,115,119,111,114,100>>
                   [] k = 8 -> <<101,110,97,98,108,101,99,97,114,100,112,97,115,115,119,111,114,100>>
                   [] k = 9 -> <<101,110,97,98,108,101,109,111,114,101,99,97,114,100,115>>
                   [] k = 10 -> <<100,105,115,97,98,108,101,109,111,114,101,99,97,114,100,115>>
                   [] k = 11 -> <<116,114,105,103,103,101,114,111,110,99,101>>
                   [] k = 12 -> <<100,105,115,97,98,108,101,112,117,115,104,98,117,116,116,111,110>>
                   [] k = 13 -> <<101,110,97,98,108,101,112,117,115,104,98,117,116,116,111,110>>
\* `s` is the bare token: all digits = a number 1..13, else a name
TaskTypeText(s) ==
  IF Len(s) >= 1 /\ \A i \in 1..Len(s) : D(s[i])
    THEN (IF Len(s) <= 4 /\ NumCP(s) \in 1..13 THEN Val(NumCP(s) - 1) ELSE Rej)
    ELSE LET ks == {k \in 1..13 : Letters(s) = TaskNameCP(k)} IN
         IF ks = {} THEN Rej ELSE Val((CHOOSE k \in ks : TRUE) - 1)

\* card formats: "any", "Wiegand-26" (also "wiegand26", "wiegand 26", any case); a text that merely CONTAINS one of
\* them is a don't-care; anything else is rejected
Contains(s, w) == \E i \in 1..(Len(s) - Len(w) + 1) : \A k \in 1..Len(w) : Lower(s[i + k - 1]) = w[k]
CardFormatText(s) ==
  LET low == [i \in 1..Len(s) |-> Lower(s[i])]
      any == <<97, 110, 121>> w == <<119, 105, 101, 103, 97, 110, 100>> IN
  IF low = any THEN Val(0)
  ELSE IF low \in {w \o <<50, 54>>, w \o <<45, 50, 54>>, w \o <<32, 50, 54>>} THEN Val(1)
  ELSE IF Contains(s, any) \/ Contains(s, w \o <<50, 54>>) \/ Contains(s, w \o <<45, 50, 54>>) \/ Contains(s, w \o <<32, 50, 54>>) THEN DC
  ELSE Rej

TextDenotes(type, cp, text) ==
  CASE type = "date" -> DateText(cp)
    [] type = "date-json" -> IF Len(cp) = 0 THEN Val(ZeroDate) ELSE DateText(cp)
    \* a date inside a card document: a card has both of its dates - a blank (or absent) one is no card
    [] type = "card-date" -> DateText(cp)
    [] type = "hhmm" -> HHmmText(cp)
    [] type = "systime" -> ClockText(cp)
    [] type = "pin" -> PinText(cp)
    [] type = "controlstate" -> ControlStateText(text)
    [] type = "tasktype" -> TaskTypeText(cp)
    [] type = "cardformat" -> CardFormatText(cp)
    [] OTHER -> DC
===========================================================================
