--------------------------- MODULE MC_Export ---------------------------
(* Specification -> harness (G): exports the protocol tables as JSON so that the harness can  *)
(* *generate* replies and layouts field by field without carrying its own copy of the         *)
(* protocol. The verdict on what the real code does with them stays with the specification.   *)
EXTENDS Api, Json, IOUtils, TLC, SequencesExt
ASSUME JsonSerialize(IOEnv.VF_OUT, [req |-> Req, rsp |-> Rsp, event |-> Event,
                                    requestTypes |-> RequestTypes, responseTypes |-> ResponseTypes])
AllTypes == [n \in (DOMAIN RequestTypes) \cup (DOMAIN ResponseTypes) \cup (DOMAIN EventTypes) |->
               IF n \in DOMAIN RequestTypes THEN RequestTypes[n] ELSE IF n \in DOMAIN ResponseTypes THEN ResponseTypes[n] ELSE EventTypes[n]]
ASSUME JsonSerialize(IOEnv.VF_OUT_SLACK, [n \in DOMAIN AllTypes |-> SetToSeq(SlackBytes(AllTypes[n]))])
VARIABLE x
Init == x = 0
Next == UNCHANGED x
========================================================================
