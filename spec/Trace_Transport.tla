------------------------- MODULE Trace_Transport -------------------------
(* Code -> specification (V) for the transport: scenarios recorded on Rig L (real sockets on    *)
(* loopback, the unmodified driver) are checked against Transport.tla.                          *)
(*                                                                                            *)
(* A trace file holds one scenario per line: [id, ev |-> <<events>>]. All scenarios of a file    *)
(* were run under the constants of the configuration it is validated with. There is one initial   *)
(* state per scenario, so a rejected scenario never stops the others from being examined.         *)
(*                                                                                            *)
(* Events (ordered by a process-wide sequence number taken inside the event's interval):         *)
(*   start c            the API call is entered                                  -> Enter         *)
(*   ask   c plan       the request reached the farm; `plan` is what the farm    -> Send          *)
(*                      decided to do about it (from the script)                                  *)
(*   dg    c n cls rel  the farm sent datagram n of its answer, `rel` ticks      -> Deliver       *)
(*                      after the request arrived                                                 *)
(*   stray c cls rel    a stranger sent a datagram to the call's source port     -> Stray         *)
(*   ret   c kind from rel   the call returned: ok (from = the call whose request  -> Return       *)
(*                      the accepted reply answered) / timeout / err                              *)
(* Unlogged steps are inferred by TLC: Lock, Recv, Timeout, PeerErr, Finish, Tick, and the Send of  *)
(* call whose TCP peer refuses the connection (nothing reaches the farm).                         *)
EXTENDS MC_Transport, Json, IOUtils

Scen == ndJsonDeserialize(IOEnv.VF_TRACE)

VARIABLES sc, l
tvars == <<vars, sc, l>>

Ev == Scen[sc].ev
IsEv(name) == l <= Len(Ev) /\ Ev[l].ev = name
Consume == l' = l + 1 /\ UNCHANGED sc
Silent == UNCHANGED <<sc, l>>

TraceInit == Init /\ sc \in 1..Len(Scen) /\ l = 1 /\ TLCSet(sc, 1)

\* observed result kinds: ok / timeout / err (refused, reset, refused reply, bind failure are all "err")
KindMatches(k, obs) ==
  CASE obs = "ok" -> k = "ok"
    [] obs = "timeout" -> k = "timeout"
    [] obs = "err" -> k \in {"fail", "peererr", "binderr"}
    [] obs = "rejected" -> k = "rejected"
    [] OTHER -> FALSE

TStart == IsEv("start") /\ Enter(Ev[l].c) /\ Consume

TAsk == /\ IsEv("ask") /\ Send(Ev[l].c) /\ Consume
        /\ plan'[Ev[l].c] = Ev[l].plan
        /\ pc'[Ev[l].c] \in {"sent", "closing"} /\ sends'[Ev[l].c] = 1
        \* C06: over the right transport, to the right endpoint, from the bind address, once
        /\ Ev[l].via = Path(Ev[l].c) /\ (Path(Ev[l].c) # "bcast" => Ev[l].to = Ctl(Ev[l].c)) /\ Ev[l].srcok /\ Ev[l].nth = 1

\* slow TCP handshake: the request reaches the farm when the connection is finally established (Connect); the dial itself
\* (Send with a slowstall plan) was inferred
TAskConnect == /\ IsEv("ask") /\ pc[Ev[l].c] = "dialing" /\ plan[Ev[l].c] = Ev[l].plan /\ Connect(Ev[l].c) /\ Consume
               /\ Ev[l].via = Path(Ev[l].c) /\ Ev[l].to = Ctl(Ev[l].c) /\ Ev[l].srcok /\ Ev[l].nth = 1

\* a set-address call returns as soon as its request is written: the farm may log the arrival of the
\* request only after the call has returned (the Send was then inferred)
TAskLate == /\ IsEv("ask") /\ Kind(Ev[l].c) = "setaddr" /\ pc[Ev[l].c] \in {"closing", "returning", "done"} /\ sends[Ev[l].c] = 1
            /\ Ev[l].via = Path(Ev[l].c) /\ (Path(Ev[l].c) # "bcast" => Ev[l].to = Ctl(Ev[l].c)) /\ Ev[l].srcok /\ Ev[l].nth = 1
            /\ UNCHANGED vars /\ Consume

TDg == /\ IsEv("dg")
       /\ \E p \in pend : /\ p.reqOf = Ev[l].c /\ p.n = Ev[l].n /\ p.cls = Ev[l].cls
                          /\ now - askedAt[Ev[l].c] = Ev[l].rel
                          /\ Deliver(p)
       /\ Consume

TStray == IsEv("stray") /\ now - askedAt[Ev[l].c] = Ev[l].rel /\ Stray(Ev[l].c, Ev[l].cls) /\ Consume

\* a stray sent after its call had returned: nobody is listening on an ephemeral port; on a shared
\* fixed port it lands in whatever broadcast-path socket is open there now (to that call it is a
\* datagram of the first call's controller)
TStrayLate ==
  /\ IsEv("stray") /\ pc[Ev[l].c] # "sent"
  /\ LET rs == IF FixedPort THEN {r \in open : Path(r) = "bcast"} ELSE {} IN
     IF rs = {} THEN UNCHANGED q
     ELSE \E r \in rs : q' = [q EXCEPT ![r] = Append(@, [cls |-> Ev[l].cls, reqOf |-> Ev[l].c])]
  /\ UNCHANGED <<now, pc, guard, dl, askedAt, open, pend, out, plan, strays, sends, hist>>
  /\ Consume

TRet == /\ IsEv("ret")
        /\ LET c == Ev[l].c IN
           /\ Return(c)
           /\ KindMatches(out[c].kind, Ev[l].kind)
           /\ (Ev[l].kind = "ok" /\ Normal(c) => out[c].from = Ev[l].from)
           \* (for a slow handshake the harness measures from the start of the call: askedAt is the start of the dial)
           /\ (IF plan[c] # <<>> /\ plan[c][1][1] = "slowstall" THEN now - askedAt[c] = Ev[l].relstart
               ELSE ((askedAt[c] # -1 /\ Ev[l].rel # -1) => now - askedAt[c] = Ev[l].rel))
        /\ Consume

\* inferred steps
TSilent ==
  /\ Silent
  /\ \/ (now < MaxNow /\ ~Urgent /\ now' = now + 1 /\ UNCHANGED <<pc, guard, dl, askedAt, q, open, pend, out, plan, strays, sends, hist>>)
     \/ \E c \in Calls : Lock(c) \/ Recv(c) \/ Timeout(c) \/ PeerErr(c) \/ Finish(c)
     \/ \E c \in Calls : Kind(c) = "setaddr" /\ Send(c) /\ plan'[c] = <<<<"silence", 0>>>> /\ sends'[c] = 1
     \* a refused peer (closed port): nothing reaches the farm, so there is no ask event
     \/ \E c \in Calls : Path(c) \in {"tcp", "udp"} /\ Send(c) /\ plan'[c] = <<<<"refused", 0>>>>
     \* the dial of a slow handshake
     \/ \E c \in Calls, cd \in 1..(T - 1) : Path(c) = "tcp" /\ Send(c) /\ plan'[c] = <<<<"slowstall", cd>>>>
     \* a peer that never answers the SYN: likewise no ask event
     \/ \E c \in Calls : Path(c) = "tcp" /\ Send(c) /\ plan'[c] = <<<<"blackhole", 0>>>>

\* a dg event whose socket is already closed is still consumed (the farm did send it)
TDgLate == /\ IsEv("dg")
           /\ \E p \in pend : p.reqOf = Ev[l].c /\ p.n = Ev[l].n /\ Receivers(p) = {} /\ Deliver(p)
           /\ Consume

Done == l = Len(Ev) + 1
Accept == Done /\ PrintT(<<"ACCEPTED", Scen[sc].id>>) /\ UNCHANGED tvars

TraceNext == TStart \/ TAsk \/ TAskConnect \/ TAskLate \/ TDg \/ TDgLate \/ TStray \/ TStrayLate \/ TRet \/ TSilent \/ Accept

\* longest matched prefix per scenario
HighWater == IF l > TLCGet(sc) THEN TLCSet(sc, l) ELSE TRUE
Report == \A i \in 1..Len(Scen) : PrintT(<<"REACHED", Scen[i].id, TLCGet(i) - 1, Len(Scen[i].ev)>>)

\* the model's invariants are evaluated in every state of every accepted prefix
TraceInv == TypeOK /\ AcceptOnlyValid /\ BcastKeepsWaiting /\ FailOnlyOnBad /\ SetAddrNeverReads /\ ExactlyOneSend
            /\ NoCrossedReply /\ PortExclusive /\ DeadlineFromAsk /\ NoEarlyGiveUp /\ BoundedReturn /\ Released
==========================================================================
