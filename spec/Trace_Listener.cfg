INIT TraceInit
NEXT TraceNext
CONSTANTS
  MaxDgrams = 64
  Senders = {"s1", "s2", "s3"}
  SpawnPerEvent = FALSE
  DropWhenBusy = FALSE
  DoneOnClose = FALSE
CONSTRAINT HighWater
POSTCONDITION Report
CHECK_DEADLOCK FALSE
