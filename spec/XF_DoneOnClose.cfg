SPECIFICATION Spec
CONSTANTS
  MaxDgrams = 2
  Senders = {"s1"}
  SpawnPerEvent = FALSE
  DropWhenBusy = FALSE
  DoneOnClose = TRUE
INVARIANT NoSendOnClosedPipe
CHECK_DEADLOCK FALSE
