SPECIFICATION Spec
CONSTANTS
  Calls = {"a", "b", "c"}
  T = 2
  MaxNow = 9
  FixedPort = TRUE
  CallCfg <- C3b
  ReplyClasses <- SomeClasses
  StrayClasses <- Stray2
  MaxReplies = 1
  MaxStray = 1
  MaxEnter = 2
  MaxDelay = 2
  PeerFaults <- Faults
  DeadlineBeforeLock = FALSE
  NoGuard = FALSE
  GuardPerClient = FALSE
  RearmPerRead = FALSE
  NoCloseOnError = FALSE
  RearmAfterConnect = FALSE
  UdpStrays = "none"
VIEW View
CHECK_DEADLOCK FALSE
INVARIANT TypeOK
INVARIANT AcceptOnlyValid
INVARIANT BcastKeepsWaiting
INVARIANT FailOnlyOnBad
INVARIANT SetAddrNeverReads
INVARIANT ExactlyOneSend
INVARIANT RejectedSendsNothing
INVARIANT NoCrossedReply
INVARIANT PortExclusive
INVARIANT NoBindError
INVARIANT DeadlineFromAsk
INVARIANT NoEarlyGiveUp
INVARIANT BoundedReturn
INVARIANT Released
INVARIANT GuardExclusive
