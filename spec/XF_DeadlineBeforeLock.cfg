SPECIFICATION Spec
CONSTANTS
  Calls = {"a", "b"}
  T = 2
  MaxNow = 9
  FixedPort = TRUE
  CallCfg <- C2same
  ReplyClasses = {"valid"}
  StrayClasses = {}
  MaxReplies = 1
  MaxStray = 0
  MaxEnter = 1
  MaxDelay = 1
  PeerFaults = {}
  DeadlineBeforeLock = TRUE
  NoGuard = FALSE
  GuardPerClient = FALSE
  RearmPerRead = FALSE
  NoCloseOnError = FALSE
  RearmAfterConnect = FALSE
  UdpStrays = "none"
VIEW View
CHECK_DEADLOCK FALSE
INVARIANT TimelyAnswerAccepted
INVARIANT NoEarlyGiveUp
