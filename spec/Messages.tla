---------------------------- MODULE Messages ----------------------------
(* The UT0311-L0x protocol tables: one layout per request, reply and event message.        *)
(*                                                                                        *)
(* Provenance. No protocol document is available offline. These tables were transcribed    *)
(* once from the message definitions at the pinned commit (980af0b) and are FROZEN: they    *)
(* are never regenerated from the Go struct tags, so a later change to a tag, offset or    *)
(* function code in the implementation shows up as a disagreement with this file. They are   *)
(* cross-checked against the independent evidence the repository carries - the golden       *)
(* request / reply vectors of its unit tests (spec/golden.ndjson, MC_Golden).               *)
(*                                                                                        *)
(* A layout is [code |-> function code, fields |-> <<[name, kind, off]...>>]; offsets are   *)
(* 0-based byte offsets into the 64-byte message; byte 0 is the protocol id (0x17), byte 1  *)
(* the function code. Kinds are defined in Wire.tla.                                        *)
EXTENDS Integers, Sequences

Fld(n, k, o) == [name |-> n, kind |-> k, off |-> o]
Lay(c, fs) == [code |-> c, fields |-> fs]

ActivateAccessKeypadsRequest ==   \* 0xa4
  Lay(164, <<Fld("SerialNumber", "serial", 4),
       Fld("Reader1", "bool", 8),
       Fld("Reader2", "bool", 9),
       Fld("Reader3", "bool", 10),
       Fld("Reader4", "bool", 11)>>)

ActivateAccessKeypadsResponse ==   \* 0xa4
  Lay(164, <<Fld("SerialNumber", "serial", 4),
       Fld("Succeeded", "bool", 8)>>)

AddTaskRequest ==   \* 0xa8
  Lay(168, <<Fld("SerialNumber", "serial", 4),
       Fld("From", "date", 8),
       Fld("To", "date", 12),
       Fld("Monday", "bool", 16),
       Fld("Tuesday", "bool", 17),
       Fld("Wednesday", "bool", 18),
       Fld("Thursday", "bool", 19),
       Fld("Friday", "bool", 20),
       Fld("Saturday", "bool", 21),
       Fld("Sunday", "bool", 22),
       Fld("Start", "hhmm", 23),
       Fld("Door", "u8", 25),
       Fld("Task", "u8", 26),
       Fld("MoreCards", "u8", 27)>>)

AddTaskResponse ==   \* 0xa8
  Lay(168, <<Fld("SerialNumber", "serial", 4),
       Fld("Succeeded", "bool", 8)>>)

ClearTaskListRequest ==   \* 0xa6
  Lay(166, <<Fld("SerialNumber", "serial", 4),
       Fld("MagicWord", "u32", 8)>>)

ClearTaskListResponse ==   \* 0xa6
  Lay(166, <<Fld("SerialNumber", "serial", 4),
       Fld("Succeeded", "bool", 8)>>)

ClearTimeProfilesRequest ==   \* 0x8a
  Lay(138, <<Fld("SerialNumber", "serial", 4),
       Fld("MagicWord", "u32", 8)>>)

ClearTimeProfilesResponse ==   \* 0x8a
  Lay(138, <<Fld("SerialNumber", "serial", 4),
       Fld("Succeeded", "bool", 8)>>)

DeleteCardRequest ==   \* 0x52
  Lay(82, <<Fld("SerialNumber", "serial", 4),
       Fld("CardNumber", "u32", 8)>>)

DeleteCardResponse ==   \* 0x52
  Lay(82, <<Fld("SerialNumber", "serial", 4),
       Fld("Succeeded", "bool", 8)>>)

DeleteCardsRequest ==   \* 0x54
  Lay(84, <<Fld("SerialNumber", "serial", 4),
       Fld("MagicWord", "u32", 8)>>)

DeleteCardsResponse ==   \* 0x54
  Lay(84, <<Fld("SerialNumber", "serial", 4),
       Fld("Succeeded", "bool", 8)>>)

Event ==   \* 0x20
  Lay(32, <<Fld("SerialNumber", "serial", 4),
       Fld("EventIndex", "u32", 8),
       Fld("EventType", "u8", 12),
       Fld("Granted", "bool", 13),
       Fld("Door", "u8", 14),
       Fld("Direction", "u8", 15),
       Fld("CardNumber", "u32", 16),
       Fld("Timestamp", "datetime", 20),
       Fld("Reason", "u8", 27),
       Fld("Door1State", "bool", 28),
       Fld("Door2State", "bool", 29),
       Fld("Door3State", "bool", 30),
       Fld("Door4State", "bool", 31),
       Fld("Door1Button", "bool", 32),
       Fld("Door2Button", "bool", 33),
       Fld("Door3Button", "bool", 34),
       Fld("Door4Button", "bool", 35),
       Fld("SystemError", "u8", 36),
       Fld("SystemDate", "sysdate", 51),
       Fld("SystemTime", "systime", 37),
       Fld("SequenceId", "u32", 40),
       Fld("SpecialInfo", "u8", 48),
       Fld("RelayState", "u8", 49),
       Fld("InputState", "u8", 50)>>)

GetCardByIndexRequest ==   \* 0x5c
  Lay(92, <<Fld("SerialNumber", "serial", 4),
       Fld("Index", "u32", 8)>>)

GetCardByIDRequest ==   \* 0x5a
  Lay(90, <<Fld("SerialNumber", "serial", 4),
       Fld("CardNumber", "u32", 8)>>)

GetCardByIndexResponse ==   \* 0x5c
  Lay(92, <<Fld("SerialNumber", "serial", 4),
       Fld("CardNumber", "u32", 8),
       Fld("From", "date", 12),
       Fld("To", "date", 16),
       Fld("Door1", "u8", 20),
       Fld("Door2", "u8", 21),
       Fld("Door3", "u8", 22),
       Fld("Door4", "u8", 23),
       Fld("PIN", "pin", 24)>>)

GetCardByIDResponse ==   \* 0x5a
  Lay(90, <<Fld("SerialNumber", "serial", 4),
       Fld("CardNumber", "u32", 8),
       Fld("From", "date", 12),
       Fld("To", "date", 16),
       Fld("Door1", "u8", 20),
       Fld("Door2", "u8", 21),
       Fld("Door3", "u8", 22),
       Fld("Door4", "u8", 23),
       Fld("PIN", "pin", 24)>>)

GetCardsRequest ==   \* 0x58
  Lay(88, <<Fld("SerialNumber", "serial", 4)>>)

GetCardsResponse ==   \* 0x58
  Lay(88, <<Fld("SerialNumber", "serial", 4),
       Fld("Records", "u32", 8)>>)

GetDeviceRequest ==   \* 0x94
  Lay(148, <<Fld("SerialNumber", "serial", 4)>>)

GetDeviceResponse ==   \* 0x94
  Lay(148, <<Fld("SerialNumber", "serial", 4),
       Fld("IpAddress", "ipv4", 8),
       Fld("SubnetMask", "ipv4", 12),
       Fld("Gateway", "ipv4", 16),
       Fld("MacAddress", "mac", 20),
       Fld("Version", "version", 26),
       Fld("Date", "date", 28)>>)

GetDoorControlStateRequest ==   \* 0x82
  Lay(130, <<Fld("SerialNumber", "serial", 4),
       Fld("Door", "u8", 8)>>)

GetDoorControlStateResponse ==   \* 0x82
  Lay(130, <<Fld("SerialNumber", "serial", 4),
       Fld("Door", "u8", 8),
       Fld("ControlState", "u8", 9),
       Fld("Delay", "u8", 10)>>)

GetEventRequest ==   \* 0xb0
  Lay(176, <<Fld("SerialNumber", "serial", 4),
       Fld("Index", "u32", 8)>>)

GetEventResponse ==   \* 0xb0
  Lay(176, <<Fld("SerialNumber", "serial", 4),
       Fld("Index", "u32", 8),
       Fld("Type", "u8", 12),
       Fld("Granted", "bool", 13),
       Fld("Door", "u8", 14),
       Fld("Direction", "u8", 15),
       Fld("CardNumber", "u32", 16),
       Fld("Timestamp", "datetime", 20),
       Fld("Reason", "u8", 27)>>)

GetEventIndexRequest ==   \* 0xb4
  Lay(180, <<Fld("SerialNumber", "serial", 4)>>)

GetEventIndexResponse ==   \* 0xb4
  Lay(180, <<Fld("SerialNumber", "serial", 4),
       Fld("Index", "u32", 8)>>)

GetListenerRequest ==   \* 0x92
  Lay(146, <<Fld("SerialNumber", "serial", 4)>>)

GetListenerResponse ==   \* 0x92
  Lay(146, <<Fld("SerialNumber", "serial", 4),
       Fld("AddrPort", "addrport", 8),
       Fld("Interval", "u8", 14)>>)

GetStatusRequest ==   \* 0x20
  Lay(32, <<Fld("SerialNumber", "serial", 4)>>)

GetStatusResponse ==   \* 0x20
  Lay(32, <<Fld("SerialNumber", "serial", 4),
       Fld("EventIndex", "u32", 8),
       Fld("EventType", "u8", 12),
       Fld("Granted", "bool", 13),
       Fld("Door", "u8", 14),
       Fld("Direction", "u8", 15),
       Fld("CardNumber", "u32", 16),
       Fld("Timestamp", "datetime", 20),
       Fld("Reason", "u8", 27),
       Fld("Door1State", "bool", 28),
       Fld("Door2State", "bool", 29),
       Fld("Door3State", "bool", 30),
       Fld("Door4State", "bool", 31),
       Fld("Door1Button", "bool", 32),
       Fld("Door2Button", "bool", 33),
       Fld("Door3Button", "bool", 34),
       Fld("Door4Button", "bool", 35),
       Fld("SystemError", "u8", 36),
       Fld("SystemDate", "sysdate", 51),
       Fld("SystemTime", "systime", 37),
       Fld("SequenceId", "u32", 40),
       Fld("SpecialInfo", "u8", 48),
       Fld("RelayState", "u8", 49),
       Fld("InputState", "u8", 50)>>)

GetTimeRequest ==   \* 0x32
  Lay(50, <<Fld("SerialNumber", "serial", 4)>>)

GetTimeResponse ==   \* 0x32
  Lay(50, <<Fld("SerialNumber", "serial", 4),
       Fld("DateTime", "datetime", 8)>>)

GetTimeProfileRequest ==   \* 0x98
  Lay(152, <<Fld("SerialNumber", "serial", 4),
       Fld("ProfileID", "u8", 8)>>)

GetTimeProfileResponse ==   \* 0x98
  Lay(152, <<Fld("SerialNumber", "serial", 4),
       Fld("ProfileID", "u8", 8),
       Fld("From", "date", 9),
       Fld("To", "date", 13),
       Fld("Monday", "bool", 17),
       Fld("Tuesday", "bool", 18),
       Fld("Wednesday", "bool", 19),
       Fld("Thursday", "bool", 20),
       Fld("Friday", "bool", 21),
       Fld("Saturday", "bool", 22),
       Fld("Sunday", "bool", 23),
       Fld("Segment1Start", "hhmmp", 24),
       Fld("Segment1End", "hhmmp", 26),
       Fld("Segment2Start", "hhmmp", 28),
       Fld("Segment2End", "hhmmp", 30),
       Fld("Segment3Start", "hhmmp", 32),
       Fld("Segment3End", "hhmmp", 34),
       Fld("LinkedProfileID", "u8", 36)>>)

OpenDoorRequest ==   \* 0x40
  Lay(64, <<Fld("SerialNumber", "serial", 4),
       Fld("Door", "u8", 8)>>)

OpenDoorResponse ==   \* 0x40
  Lay(64, <<Fld("SerialNumber", "serial", 4),
       Fld("Succeeded", "bool", 8)>>)

PutCardRequest ==   \* 0x50
  Lay(80, <<Fld("SerialNumber", "serial", 4),
       Fld("CardNumber", "u32", 8),
       Fld("From", "date", 12),
       Fld("To", "date", 16),
       Fld("Door1", "u8", 20),
       Fld("Door2", "u8", 21),
       Fld("Door3", "u8", 22),
       Fld("Door4", "u8", 23),
       Fld("PIN", "pin", 24)>>)

PutCardResponse ==   \* 0x50
  Lay(80, <<Fld("SerialNumber", "serial", 4),
       Fld("Succeeded", "bool", 8)>>)

RecordSpecialEventsRequest ==   \* 0x8e
  Lay(142, <<Fld("SerialNumber", "serial", 4),
       Fld("Enable", "bool", 8)>>)

RecordSpecialEventsResponse ==   \* 0x8e
  Lay(142, <<Fld("SerialNumber", "serial", 4),
       Fld("Succeeded", "bool", 8)>>)

RefreshTaskListRequest ==   \* 0xac
  Lay(172, <<Fld("SerialNumber", "serial", 4),
       Fld("MagicWord", "u32", 8)>>)

RefreshTaskListResponse ==   \* 0xac
  Lay(172, <<Fld("SerialNumber", "serial", 4),
       Fld("Refreshed", "bool", 8)>>)

RestoreDefaultParametersRequest ==   \* 0xc8
  Lay(200, <<Fld("SerialNumber", "serial", 4),
       Fld("MagicWord", "u32", 8)>>)

RestoreDefaultParametersResponse ==   \* 0xc8
  Lay(200, <<Fld("SerialNumber", "serial", 4),
       Fld("Succeeded", "bool", 8)>>)

SetAddressRequest ==   \* 0x96
  Lay(150, <<Fld("SerialNumber", "serial", 4),
       Fld("Address", "ipv4", 8),
       Fld("Mask", "ipv4", 12),
       Fld("Gateway", "ipv4", 16),
       Fld("MagicWord", "u32", 20)>>)

SetDoorControlStateRequest ==   \* 0x80
  Lay(128, <<Fld("SerialNumber", "serial", 4),
       Fld("Door", "u8", 8),
       Fld("ControlState", "u8", 9),
       Fld("Delay", "u8", 10)>>)

SetDoorControlStateResponse ==   \* 0x80
  Lay(128, <<Fld("SerialNumber", "serial", 4),
       Fld("Door", "u8", 8),
       Fld("ControlState", "u8", 9),
       Fld("Delay", "u8", 10)>>)

SetDoorPasscodesRequest ==   \* 0x8c
  Lay(140, <<Fld("SerialNumber", "serial", 4),
       Fld("Door", "u8", 8),
       Fld("Passcode1", "u32", 12),
       Fld("Passcode2", "u32", 16),
       Fld("Passcode3", "u32", 20),
       Fld("Passcode4", "u32", 24)>>)

SetDoorPasscodesResponse ==   \* 0x8c
  Lay(140, <<Fld("SerialNumber", "serial", 4),
       Fld("Succeeded", "bool", 8)>>)

SetEventIndexRequest ==   \* 0xb2
  Lay(178, <<Fld("SerialNumber", "serial", 4),
       Fld("Index", "u32", 8),
       Fld("MagicWord", "u32", 12)>>)

SetEventIndexResponse ==   \* 0xb2
  Lay(178, <<Fld("SerialNumber", "serial", 4),
       Fld("Changed", "bool", 8)>>)

SetFirstCardRequest ==   \* 0xaa
  Lay(170, <<Fld("SerialNumber", "serial", 4),
       Fld("Door", "u8", 8),
       Fld("Start", "hhmm", 9),
       Fld("StartDoorControl", "u8", 11),
       Fld("End", "hhmm", 12),
       Fld("EndDoorControl", "u8", 14),
       Fld("Monday", "bool", 15),
       Fld("Tuesday", "bool", 16),
       Fld("Wednesday", "bool", 17),
       Fld("Thursday", "bool", 18),
       Fld("Friday", "bool", 19),
       Fld("Saturday", "bool", 20),
       Fld("Sunday", "bool", 21)>>)

SetFirstCardResponse ==   \* 0xaa
  Lay(170, <<Fld("SerialNumber", "serial", 4),
       Fld("Succeeded", "bool", 8)>>)

SetInterlockRequest ==   \* 0xa2
  Lay(162, <<Fld("SerialNumber", "serial", 4),
       Fld("Interlock", "u8", 8)>>)

SetInterlockResponse ==   \* 0xa2
  Lay(162, <<Fld("SerialNumber", "serial", 4),
       Fld("Succeeded", "bool", 8)>>)

SetListenerRequest ==   \* 0x90
  Lay(144, <<Fld("SerialNumber", "serial", 4),
       Fld("AddrPort", "addrport", 8),
       Fld("Interval", "u8", 14)>>)

SetListenerResponse ==   \* 0x90
  Lay(144, <<Fld("SerialNumber", "serial", 4),
       Fld("Succeeded", "bool", 8)>>)

SetPCControlRequest ==   \* 0xa0
  Lay(160, <<Fld("SerialNumber", "serial", 4),
       Fld("MagicWord", "u32", 8),
       Fld("Enable", "bool", 12)>>)

SetPCControlResponse ==   \* 0xa0
  Lay(160, <<Fld("SerialNumber", "serial", 4),
       Fld("Succeeded", "bool", 8)>>)

SetTimeRequest ==   \* 0x30
  Lay(48, <<Fld("SerialNumber", "serial", 4),
       Fld("DateTime", "datetime", 8)>>)

SetTimeResponse ==   \* 0x30
  Lay(48, <<Fld("SerialNumber", "serial", 4),
       Fld("DateTime", "datetime", 8)>>)

SetTimeProfileRequest ==   \* 0x88
  Lay(136, <<Fld("SerialNumber", "serial", 4),
       Fld("ProfileID", "u8", 8),
       Fld("From", "date", 9),
       Fld("To", "date", 13),
       Fld("Monday", "bool", 17),
       Fld("Tuesday", "bool", 18),
       Fld("Wednesday", "bool", 19),
       Fld("Thursday", "bool", 20),
       Fld("Friday", "bool", 21),
       Fld("Saturday", "bool", 22),
       Fld("Sunday", "bool", 23),
       Fld("Segment1Start", "hhmm", 24),
       Fld("Segment1End", "hhmm", 26),
       Fld("Segment2Start", "hhmm", 28),
       Fld("Segment2End", "hhmm", 30),
       Fld("Segment3Start", "hhmm", 32),
       Fld("Segment3End", "hhmm", 34),
       Fld("LinkedProfileID", "u8", 36)>>)

SetTimeProfileResponse ==   \* 0x88
  Lay(136, <<Fld("SerialNumber", "serial", 4),
       Fld("Succeeded", "bool", 8)>>)

\* ---- tables ----------------------------------------------------------------------------

\* request and reply layout of each API operation (GetDevices shares get-device)
Req == [
  GetDevices |-> GetDeviceRequest, GetDevice |-> GetDeviceRequest, SetAddress |-> SetAddressRequest,
  GetListener |-> GetListenerRequest, SetListener |-> SetListenerRequest,
  GetTime |-> GetTimeRequest, SetTime |-> SetTimeRequest,
  GetDoorControlState |-> GetDoorControlStateRequest, SetDoorControlState |-> SetDoorControlStateRequest,
  GetStatus |-> GetStatusRequest, GetCards |-> GetCardsRequest,
  GetCardByIndex |-> GetCardByIndexRequest, GetCardByID |-> GetCardByIDRequest,
  PutCard |-> PutCardRequest, DeleteCard |-> DeleteCardRequest, DeleteCards |-> DeleteCardsRequest,
  GetTimeProfile |-> GetTimeProfileRequest, SetTimeProfile |-> SetTimeProfileRequest,
  ClearTimeProfiles |-> ClearTimeProfilesRequest, ClearTaskList |-> ClearTaskListRequest,
  AddTask |-> AddTaskRequest, RefreshTaskList |-> RefreshTaskListRequest,
  RecordSpecialEvents |-> RecordSpecialEventsRequest,
  GetEvent |-> GetEventRequest, GetEventIndex |-> GetEventIndexRequest, SetEventIndex |-> SetEventIndexRequest,
  SetDoorPasscodes |-> SetDoorPasscodesRequest, OpenDoor |-> OpenDoorRequest,
  SetPCControl |-> SetPCControlRequest, SetInterlock |-> SetInterlockRequest,
  ActivateKeypads |-> ActivateAccessKeypadsRequest,
  RestoreDefaultParameters |-> RestoreDefaultParametersRequest ]

Ops == DOMAIN Req

\* SetAddress has no reply (controllers do not answer function 0x96)
Rsp == [
  GetDevices |-> GetDeviceResponse, GetDevice |-> GetDeviceResponse,
  GetListener |-> GetListenerResponse, SetListener |-> SetListenerResponse,
  GetTime |-> GetTimeResponse, SetTime |-> SetTimeResponse,
  GetDoorControlState |-> GetDoorControlStateResponse, SetDoorControlState |-> SetDoorControlStateResponse,
  GetStatus |-> GetStatusResponse, GetCards |-> GetCardsResponse,
  GetCardByIndex |-> GetCardByIndexResponse, GetCardByID |-> GetCardByIDResponse,
  PutCard |-> PutCardResponse, DeleteCard |-> DeleteCardResponse, DeleteCards |-> DeleteCardsResponse,
  GetTimeProfile |-> GetTimeProfileResponse, SetTimeProfile |-> SetTimeProfileResponse,
  ClearTimeProfiles |-> ClearTimeProfilesResponse, ClearTaskList |-> ClearTaskListResponse,
  AddTask |-> AddTaskResponse, RefreshTaskList |-> RefreshTaskListResponse,
  RecordSpecialEvents |-> RecordSpecialEventsResponse,
  GetEvent |-> GetEventResponse, GetEventIndex |-> GetEventIndexResponse, SetEventIndex |-> SetEventIndexResponse,
  SetDoorPasscodes |-> SetDoorPasscodesResponse, OpenDoor |-> OpenDoorResponse,
  SetPCControl |-> SetPCControlResponse, SetInterlock |-> SetInterlockResponse,
  ActivateKeypads |-> ActivateAccessKeypadsResponse,
  RestoreDefaultParameters |-> RestoreDefaultParametersResponse ]

ReplyOps == DOMAIN Rsp
ExpectsReply(op) == op \in ReplyOps

\* registered message types by Go type name (what the dispatchers return)
RequestTypes == [
  GetStatusRequest |-> GetStatusRequest, SetTimeRequest |-> SetTimeRequest, GetTimeRequest |-> GetTimeRequest,
  OpenDoorRequest |-> OpenDoorRequest, PutCardRequest |-> PutCardRequest, DeleteCardRequest |-> DeleteCardRequest,
  DeleteCardsRequest |-> DeleteCardsRequest, GetCardsRequest |-> GetCardsRequest,
  GetCardByIDRequest |-> GetCardByIDRequest, GetCardByIndexRequest |-> GetCardByIndexRequest,
  SetDoorControlStateRequest |-> SetDoorControlStateRequest, GetDoorControlStateRequest |-> GetDoorControlStateRequest,
  SetTimeProfileRequest |-> SetTimeProfileRequest, ClearTimeProfilesRequest |-> ClearTimeProfilesRequest,
  SetDoorPasscodesRequest |-> SetDoorPasscodesRequest, RecordSpecialEventsRequest |-> RecordSpecialEventsRequest,
  SetListenerRequest |-> SetListenerRequest, GetListenerRequest |-> GetListenerRequest,
  GetDeviceRequest |-> GetDeviceRequest, SetAddressRequest |-> SetAddressRequest,
  GetTimeProfileRequest |-> GetTimeProfileRequest, SetPCControlRequest |-> SetPCControlRequest,
  SetInterlockRequest |-> SetInterlockRequest, ActivateAccessKeypadsRequest |-> ActivateAccessKeypadsRequest,
  ClearTaskListRequest |-> ClearTaskListRequest, AddTaskRequest |-> AddTaskRequest,
  SetFirstCardRequest |-> SetFirstCardRequest, RefreshTaskListRequest |-> RefreshTaskListRequest,
  GetEventRequest |-> GetEventRequest, SetEventIndexRequest |-> SetEventIndexRequest,
  GetEventIndexRequest |-> GetEventIndexRequest, RestoreDefaultParametersRequest |-> RestoreDefaultParametersRequest ]

ResponseTypes == [
  GetStatusResponse |-> GetStatusResponse, SetTimeResponse |-> SetTimeResponse, GetTimeResponse |-> GetTimeResponse,
  OpenDoorResponse |-> OpenDoorResponse, PutCardResponse |-> PutCardResponse, DeleteCardResponse |-> DeleteCardResponse,
  DeleteCardsResponse |-> DeleteCardsResponse, GetCardsResponse |-> GetCardsResponse,
  GetCardByIDResponse |-> GetCardByIDResponse, GetCardByIndexResponse |-> GetCardByIndexResponse,
  SetDoorControlStateResponse |-> SetDoorControlStateResponse, GetDoorControlStateResponse |-> GetDoorControlStateResponse,
  SetTimeProfileResponse |-> SetTimeProfileResponse, ClearTimeProfilesResponse |-> ClearTimeProfilesResponse,
  SetDoorPasscodesResponse |-> SetDoorPasscodesResponse, RecordSpecialEventsResponse |-> RecordSpecialEventsResponse,
  SetListenerResponse |-> SetListenerResponse, GetListenerResponse |-> GetListenerResponse,
  GetDeviceResponse |-> GetDeviceResponse,
  GetTimeProfileResponse |-> GetTimeProfileResponse, SetPCControlResponse |-> SetPCControlResponse,
  SetInterlockResponse |-> SetInterlockResponse, ActivateAccessKeypadsResponse |-> ActivateAccessKeypadsResponse,
  ClearTaskListResponse |-> ClearTaskListResponse, AddTaskResponse |-> AddTaskResponse,
  SetFirstCardResponse |-> SetFirstCardResponse, RefreshTaskListResponse |-> RefreshTaskListResponse,
  GetEventResponse |-> GetEventResponse, SetEventIndexResponse |-> SetEventIndexResponse,
  GetEventIndexResponse |-> GetEventIndexResponse, RestoreDefaultParametersResponse |-> RestoreDefaultParametersResponse ]

EventTypes == [Event |-> Event, EventV6_62 |-> Event]

\* the message type the request / reply dispatcher must return for a function code ("none" = unknown code)
TypeOfCode(table, code) ==
  LET ns == {n \in DOMAIN table : table[n].code = code} IN
  IF ns = {} THEN "none" ELSE CHOOSE n \in ns : TRUE

\* destructive operations carry the magic word 0x55aaaa55
MagicWord == <<21930, 43605>>     \* 0x55aa, 0xaa55 as <<hi16, lo16>>

\* ---- well-formedness of the tables (checked by TLC: MC_Wire) ----
UniqueCodes(table) == \A a, b \in DOMAIN table : table[a].code = table[b].code => a = b
=========================================================================
