SPECIFICATION Spec
CONSTANTS
  Calls = {"a", "b"}
  T = 3
  MaxNow = 9
  FixedPort = FALSE
  CallCfg <- C2udp
  ReplyClasses = {"valid"}
  StrayClasses = {"badserial", "badlen"}
  MaxReplies = 1
  MaxStray = 2
  MaxEnter = 1
  MaxDelay = 1
  PeerFaults = {}
  DeadlineBeforeLock = FALSE
  NoGuard = FALSE
  GuardPerClient = FALSE
  RearmPerRead = FALSE
  NoCloseOnError = FALSE
  RearmAfterConnect = FALSE
  UdpStrays = "received"
VIEW View
CHECK_DEADLOCK FALSE
INVARIANT StrangersCannotTouchDirected
