SPECIFICATION Spec
CONSTANTS
  Calls = {"a", "b"}
  T = 2
  MaxNow = 9
  FixedPort = FALSE
  CallCfg <- C2udp
  ReplyClasses <- SomeClasses
  StrayClasses <- SomeClasses
  MaxReplies = 2
  MaxStray = 0
  MaxEnter = 1
  MaxDelay = 1
  PeerFaults <- Faults
  DeadlineBeforeLock = FALSE
  NoGuard = FALSE
  GuardPerClient = FALSE
  RearmPerRead = FALSE
  NoCloseOnError = FALSE
  RearmAfterConnect = FALSE
  UdpStrays = "none"
VIEW View
CHECK_DEADLOCK FALSE
INVARIANT TypeOK
INVARIANT AcceptOnlyValid
INVARIANT BcastKeepsWaiting
INVARIANT FailOnlyOnBad
INVARIANT SetAddrNeverReads
INVARIANT ExactlyOneSend
INVARIANT RejectedSendsNothing
INVARIANT NoCrossedReply
INVARIANT PortExclusive
INVARIANT NoBindError
INVARIANT DeadlineFromAsk
INVARIANT NoEarlyGiveUp
INVARIANT BoundedReturn
INVARIANT Released
INVARIANT GuardExclusive
