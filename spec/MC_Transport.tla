--------------------------- MODULE MC_Transport ---------------------------
(* Model-checking configurations of Transport.tla (constants that cannot be written in a .cfg) *)
EXTENDS Transport

C2same == [a |-> [path |-> "bcast", kind |-> "normal", ctl |-> "S1"], b |-> [path |-> "bcast", kind |-> "normal", ctl |-> "S1"]]
C2mixed == [a |-> [path |-> "bcast", kind |-> "status", ctl |-> "S1"], b |-> [path |-> "tcp", kind |-> "setaddr", ctl |-> "S2"]]
C2udp == [a |-> [path |-> "udp", kind |-> "normal", ctl |-> "S1"], b |-> [path |-> "tcp", kind |-> "normal", ctl |-> "S1"]]
C3 == [a |-> [path |-> "bcast", kind |-> "normal", ctl |-> "S1"], b |-> [path |-> "udp", kind |-> "normal", ctl |-> "S1"],
       c |-> [path |-> "bcast", kind |-> "normal", ctl |-> "S1"]]
C3b == [a |-> [path |-> "bcast", kind |-> "normal", ctl |-> "S1"], b |-> [path |-> "tcp", kind |-> "normal", ctl |-> "S2"],
        c |-> [path |-> "udp", kind |-> "badid", ctl |-> "S1"]]
AllClasses == {"valid", "badlen", "badserial", "serial0", "badcode", "badproto", "proto19", "malformed"}
SomeClasses == {"valid", "badlen", "badserial", "badcode"}
StrayCls == {"badlen", "badserial", "serial0", "badcode", "malformed"}
Stray2 == {"badserial", "badcode"}
Faults == {"silence", "refused", "reset", "closed", "blackhole", "slowstall"}
Faults2 == {"silence", "refused"}
\* script-generation groups (every call its own controller, except the C08 groups)
G2bcast == [a |-> [path |-> "bcast", kind |-> "normal", ctl |-> "S1"], b |-> [path |-> "bcast", kind |-> "status", ctl |-> "S2"]]
G2udp == [a |-> [path |-> "udp", kind |-> "normal", ctl |-> "S1"], b |-> [path |-> "udp", kind |-> "status", ctl |-> "S2"]]
G2tcp == [a |-> [path |-> "tcp", kind |-> "normal", ctl |-> "S1"], b |-> [path |-> "tcp", kind |-> "setaddr", ctl |-> "S2"]]
G3mixed == [a |-> [path |-> "bcast", kind |-> "normal", ctl |-> "S1"], b |-> [path |-> "udp", kind |-> "setaddr", ctl |-> "S2"],
            c |-> [path |-> "tcp", kind |-> "status", ctl |-> "S3"]]
G3same == [a |-> [path |-> "bcast", kind |-> "normal", ctl |-> "S1"], b |-> [path |-> "udp", kind |-> "normal", ctl |-> "S1"],
           c |-> [path |-> "bcast", kind |-> "normal", ctl |-> "S1"]]
\* C08 on the TCP path: calls that queue for the shared fixed port and then talk TCP (each to its own controller endpoint)
G3tcp == [a |-> [path |-> "tcp", kind |-> "normal", ctl |-> "S1"], b |-> [path |-> "tcp", kind |-> "normal", ctl |-> "S2"],
          c |-> [path |-> "bcast", kind |-> "normal", ctl |-> "S3"]]
\* two connected-UDP calls to ONE controller (and a broadcast-path call to it) queueing for the shared fixed port: with both
\* sockets open at once their 4-tuples would be identical
G3udp2 == [a |-> [path |-> "udp", kind |-> "normal", ctl |-> "S1"], b |-> [path |-> "udp", kind |-> "normal", ctl |-> "S1"],
           c |-> [path |-> "bcast", kind |-> "normal", ctl |-> "S1"]]
G4same == [a |-> [path |-> "bcast", kind |-> "normal", ctl |-> "S1"], b |-> [path |-> "bcast", kind |-> "normal", ctl |-> "S1"],
           c |-> [path |-> "udp", kind |-> "normal", ctl |-> "S1"], d |-> [path |-> "bcast", kind |-> "normal", ctl |-> "S2"]]
============================================================================
