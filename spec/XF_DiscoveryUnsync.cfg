SPECIFICATION Spec
CONSTANTS
  T = 2
  MaxDgrams = 3
  UseMutex = FALSE
INVARIANT NoRace
INVARIANT ResultComplete
INVARIANT ResultSound
CHECK_DEADLOCK FALSE
