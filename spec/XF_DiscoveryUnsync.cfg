SPECIFICATION Spec
CONSTANTS
  T = 2
  MaxDgrams = 3
  UseMutex = FALSE
  RearmWindow = FALSE
  HandOff = FALSE
INVARIANT NoRace
INVARIANT ResultComplete
INVARIANT ResultSound
CHECK_DEADLOCK FALSE
