---------------------------- MODULE MC_Wire ----------------------------
(* Well-formedness of the protocol tables and round trip of the field codec on boundary       *)
(* values, checked by TLC as ASSUME-style constant evaluations (no behaviour).                *)
EXTENDS Api, TLC, FiniteSets

AllLayouts == {Req[o] : o \in DOMAIN Req} \cup {Rsp[o] : o \in DOMAIN Rsp}
              \cup {RequestTypes[n] : n \in DOMAIN RequestTypes} \cup {ResponseTypes[n] : n \in DOMAIN ResponseTypes} \cup {Event}

ASSUME WellFormed == \A L \in AllLayouts : FitsIn64(L) /\ NoOverlap(L) /\ SerialAt4(L) /\ L.code \in 0..255
                                         /\ \A k \in 1..Len(L.fields) : L.fields[k].kind \in Kinds
ASSUME UniqueReq == UniqueCodes(RequestTypes)
ASSUME UniqueRsp == UniqueCodes(ResponseTypes)
ASSUME Counts == Cardinality(DOMAIN Req) = 32 /\ Cardinality(DOMAIN Rsp) = 31
                 /\ Cardinality(DOMAIN RequestTypes) = 32 /\ Cardinality(DOMAIN ResponseTypes) = 31

\* boundary values per kind
Vals(kind) ==
  CASE kind = "u8" -> {0, 1, 9, 10, 127, 128, 255}
    [] kind = "u16" -> {0, 1, 255, 256, 65535}
    [] kind \in {"u32", "serial"} -> {<<0, 0>>, <<0, 1>>, <<1, 0>>, <<255, 65535>>, <<256, 0>>, <<65535, 65535>>, <<6186, 20344>>}
    [] kind = "bool" -> BOOLEAN
    [] kind = "ipv4" -> {<<0, 0, 0, 0>>, <<192, 168, 1, 100>>, <<255, 255, 255, 255>>}
    [] kind = "addrport" -> {[ip |-> <<0, 0, 0, 0>>, port |-> 0], [ip |-> <<192, 168, 1, 100>>, port |-> 60001], [ip |-> <<255, 255, 255, 255>>, port |-> 65535]}
    [] kind = "mac" -> {<<0, 0, 0, 0, 0, 0>>, <<0, 102, 25, 57, 85, 45>>, <<255, 255, 255, 255, 255, 255>>}
    [] kind = "version" -> {0, 2194, 65535}
    [] kind = "pin" -> {<<0, 0>>, <<0, 7531>>, <<15, 16959>>, <<255, 65535>>}
    [] kind = "date" -> {ZeroDate, Date(1, 1, 2), Date(2023, 10, 31), Date(2024, 2, 29), Date(9999, 12, 31)}
    [] kind = "datetime" -> {ZeroDT, DT(1, 1, 2, 0, 0, 0), DT(2023, 10, 31, 23, 59, 59), DT(9999, 12, 31, 12, 34, 56)}
    [] kind = "sysdate" -> {ZeroDate, Date(2000, 1, 1), Date(2024, 2, 29), Date(2068, 12, 31)}
    [] kind = "systime" -> {[h |-> 0, mi |-> 0, s |-> 0], [h |-> 23, mi |-> 59, s |-> 59]}
    [] kind \in {"hhmm", "hhmmp"} -> {HM(0, 0), HM(8, 30), HM(23, 59), HM(24, 0)}

\* sysdate 2000-00-00 is "zero" on the wire: Date(2000,1,1) etc. are not
ASSUME FieldRoundTrip ==
  \A kind \in Kinds : \A v \in Vals(kind) :
     LET b == EncField(kind, v) d == DecField(kind, b) IN
     /\ Len(b) = Width(kind) /\ IsBytes(b)
     /\ d.dom = "in" /\ v \in d.vals

\* one whole-message round trip per layout: every field at one boundary value
Pick(kind) ==
  CASE kind = "u8" -> 128
    [] kind = "u16" -> 256
    [] kind \in {"u32", "serial"} -> <<6186, 20344>>
    [] kind = "bool" -> TRUE
    [] kind = "ipv4" -> <<192, 168, 1, 100>>
    [] kind = "addrport" -> [ip |-> <<192, 168, 1, 100>>, port |-> 60001]
    [] kind = "mac" -> <<0, 102, 25, 57, 85, 45>>
    [] kind = "version" -> 2194
    [] kind = "pin" -> <<15, 16959>>
    [] kind = "date" -> Date(2024, 2, 29)
    [] kind = "datetime" -> DT(2023, 10, 31, 23, 59, 59)
    [] kind = "sysdate" -> Date(2024, 2, 29)
    [] kind = "systime" -> [h |-> 23, mi |-> 59, s |-> 59]
    [] kind \in {"hhmm", "hhmmp"} -> HM(23, 59)
ValsOf(L) == [n \in FieldNames(L) |-> Pick(L.fields[FieldIndex(L, n)].kind)]
ASSUME MessageRoundTrip ==
  \A L \in AllLayouts :
     LET vals == ValsOf(L) msg == EncodeLayout(L, vals) dec == DecodeFields(L, msg) IN
     /\ Len(msg) = 64 /\ IsBytes(msg) /\ msg[1] = 23 /\ msg[2] = L.code /\ HeaderOK(L, msg)
     /\ \A k \in 1..Len(L.fields) : dec[k].dom = "in" /\ vals[L.fields[k].name] \in dec[k].vals
     /\ \A i \in SlackBytes(L) : msg[i] = 0

\* card formats
ASSUME W26 == /\ IsW26(U32(0)) /\ IsW26(U32(25565535)) /\ ~IsW26(U32(25565536)) /\ ~IsW26(U32(25600000))
              /\ ~IsW26(<<1525, 57600>>) /\ ~IsW26(<<1526, 0>>) /\ ~IsW26(<<65535, 65535>>)
              /\ IsW26(U32(10058400)) /\ ~IsW26(U32(99999999)) /\ ~IsW26(U32(100000001))

VARIABLE x
Init == x = 0
Next == UNCHANGED x
========================================================================
