INIT TraceInit
NEXT TraceNext
CONSTANTS
  Calls = {"a", "b"}
  T = 3
  MaxNow = 16
  FixedPort = FALSE
  CallCfg <- G2tcp
  ReplyClasses <- AllClasses
  StrayClasses = {}
  MaxReplies = 1
  MaxStray = 0
  MaxEnter = 1
  MaxDelay = 3
  PeerFaults <- Faults
  DeadlineBeforeLock = FALSE
  NoGuard = FALSE
  GuardPerClient = FALSE
  RearmPerRead = FALSE
  NoCloseOnError = FALSE
  RearmAfterConnect = FALSE
  UdpStrays = "dropped"
CHECK_DEADLOCK FALSE
CONSTRAINT HighWater
POSTCONDITION Report
