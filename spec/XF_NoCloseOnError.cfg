SPECIFICATION Spec
CONSTANTS
  Calls = {"a", "b"}
  T = 2
  MaxNow = 9
  FixedPort = FALSE
  CallCfg <- C2same
  ReplyClasses <- SomeClasses
  StrayClasses = {}
  MaxReplies = 1
  MaxStray = 0
  MaxEnter = 1
  MaxDelay = 1
  PeerFaults = {"silence"}
  DeadlineBeforeLock = FALSE
  NoGuard = FALSE
  GuardPerClient = FALSE
  RearmPerRead = FALSE
  NoCloseOnError = TRUE
  RearmAfterConnect = FALSE
  UdpStrays = "none"
VIEW View
CHECK_DEADLOCK FALSE
INVARIANT Released
