---------------------------- MODULE Calendar ----------------------------
(* The proleptic Gregorian calendar and times of day, as civil values (no time zones).      *)
EXTENDS Integers, Sequences

IsLeap(y) == (y % 4 = 0 /\ y % 100 # 0) \/ y % 400 = 0

DaysInMonth(y, m) ==
  CASE m \in {1, 3, 5, 7, 8, 10, 12} -> 31
    [] m \in {4, 6, 9, 11} -> 30
    [] m = 2 -> IF IsLeap(y) THEN 29 ELSE 28
    [] OTHER -> 0

ValidYMD(y, m, d) == y \in 0..9999 /\ m \in 1..12 /\ d >= 1 /\ d <= DaysInMonth(y, m)
ValidClock(h, mi, s) == h \in 0..23 /\ mi \in 0..59 /\ s \in 0..59

\* HH:mm values of the protocol: 00:00 .. 23:59 and 24:00
ValidHHmm(h, mi) == (h \in 0..23 /\ mi \in 0..59) \/ (h = 24 /\ mi = 0)

\* civil values as records (tagged: TLC cannot compare values of different kinds)
ZeroDate == [t |-> "zero"]
Date(y, m, d) == [t |-> "date", y |-> y, m |-> m, d |-> d]
ZeroDT == [t |-> "zero"]
DT(y, m, d, h, mi, s) == [t |-> "dt", y |-> y, m |-> m, d |-> d, h |-> h, mi |-> mi, s |-> s]
HM(h, mi) == [h |-> h, mi |-> mi]

\* the first day of the calendar is the library's zero value: the accepted domain of dates is
\* 0001-01-02 .. 9999-12-31
InDomainDate(v) == v.t = "date" /\ ValidYMD(v.y, v.m, v.d) /\ v.y >= 1 /\ ~(v.y = 1 /\ v.m = 1 /\ v.d = 1)
InDomainDT(v) == v.t = "dt" /\ ValidYMD(v.y, v.m, v.d) /\ v.y >= 1 /\ ValidClock(v.h, v.mi, v.s)
                 /\ ~(v.y = 1 /\ v.m = 1 /\ v.d = 1 /\ v.h = 0 /\ v.mi = 0 /\ v.s = 0)

\* lexicographic orders
YmdLT(a, b) == a.y < b.y \/ (a.y = b.y /\ (a.m < b.m \/ (a.m = b.m /\ a.d < b.d)))
YmdEQ(a, b) == a.y = b.y /\ a.m = b.m /\ a.d = b.d
HHmmLT(a, b) == a.h < b.h \/ (a.h = b.h /\ a.mi < b.mi)
HHmmEQ(a, b) == a.h = b.h /\ a.mi = b.mi

\* days since 0000-03-01 style day number (for adjacency checks); valid for y >= 1
DayNumber(y, m, d) ==
  LET yy == IF m <= 2 THEN y - 1 ELSE y
      mm == IF m <= 2 THEN m + 9 ELSE m - 3
  IN 365 * yy + yy \div 4 - yy \div 100 + yy \div 400 + (153 * mm + 2) \div 5 + d - 1
=========================================================================
