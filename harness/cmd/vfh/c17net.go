package main

import (
	"encoding/binary"
	"fmt"
	"math/rand"
	"net"
	"net/netip"
	"sync"
	"time"

	"github.com/uhppoted/uhppote-core/types"
	"github.com/uhppoted/uhppote-core/uhppote"
)

func init() { commands["c17net"] = runC17Net }

// sentOf: what reached the farm's socket, in the shape of a call record's `sent`
func sentOf(wire []byte) []any {
	if wire == nil {
		return []any{}
	}
	return []any{ints(wire)}
}

// runC17Net: "returned values are not affected by later reuse of the network buffers they were decoded from" and "the
// content of any other datagram never appears in a returned result" on the REAL driver, where the receive buffers are
// out of the harness' reach: every reply-bearing operation over each delivery path (connected UDP, TCP, broadcast-to,
// discovery), the result kept, 1..4 further exchanges of other operations / other paths (different datagram contents,
// a stray, a wrong-length datagram), the kept result projected again. The farm answers with a well-formed, randomly
// filled reply for the operation being called (calls are made one at a time).
func runC17Net(o *opts) (*summary, error) {
	lt, err := loadLayouts(o.extraArg("layouts"))
	if err != nil {
		return nil, err
	}
	w, err := newShardWriter(o.out, "api", o.shards)
	if err != nil {
		return nil, err
	}
	rng := rand.New(rand.NewSource(o.seed))
	g := &G{r: rng, inDomain: true}
	thorough := o.tier == "thorough"

	// what the farm answers with: set before every call
	var mu sync.Mutex
	var answer func(req []byte) [][]byte
	closeNow := false // (TCP) read the request, then end the stream without a byte of reply
	nreq := 0         // request datagrams that reached the farm since the current call was set up
	var wire []byte   // ... and the first of them, as it arrived
	reply := func(req []byte) [][]byte {
		mu.Lock()
		defer mu.Unlock()
		nreq++
		if nreq == 1 {
			wire = append([]byte{}, req...)
		}
		if answer == nil {
			return nil
		}
		return answer(req)
	}
	serveU := func(c *net.UDPConn) {
		buf := make([]byte, 2048)
		for {
			n, src, err := c.ReadFromUDP(buf)
			if err != nil {
				return
			}
			if n == 64 {
				for _, m := range reply(append([]byte{}, buf[:64]...)) {
					c.WriteToUDP(m, src)
				}
			}
		}
	}
	const s1, s2, s3 = 405419896, 303986753, 201020304
	u1 := listenUDP()
	defer u1.Close()
	bc := listenUDP()
	defer bc.Close()
	go serveU(u1)
	go serveU(bc)
	tl, err := net.ListenTCP("tcp4", &net.TCPAddr{IP: net.IPv4(127, 0, 0, 1), Port: 0})
	if err != nil {
		return nil, err
	}
	defer tl.Close()
	go func() {
		for {
			conn, err := tl.AcceptTCP()
			if err != nil {
				return
			}
			go func() {
				defer conn.Close()
				buf := make([]byte, 2048)
				conn.SetReadDeadline(time.Now().Add(time.Second))
				if n, err := conn.Read(buf); err == nil && n == 64 {
					ms := reply(append([]byte{}, buf[:64]...))
					mu.Lock()
					cn := closeNow
					mu.Unlock()
					if cn {
						return
					}
					for _, m := range ms {
						conn.Write(m)
					}
				}
				conn.SetReadDeadline(time.Now().Add(500 * time.Millisecond))
				conn.Read(buf) // the farm closes last
			}()
		}
	}()
	tcpAP := netip.AddrPortFrom(netip.AddrFrom4([4]byte{127, 0, 0, 1}), uint16(tl.Addr().(*net.TCPAddr).Port))
	devices := []uhppote.Device{
		{Name: "u", DeviceID: s1, Address: types.ControllerAddr{AddrPort: udpAddrPort(u1)}, Protocol: "udp"},
		{Name: "t", DeviceID: s2, Address: types.ControllerAddr{AddrPort: tcpAP}, Protocol: "tcp"},
	}
	cfgP := M{"bind": "", "broadcast": udpAddrPort(bc).String(), "devices": []any{
		M{"name": "u", "serial": u32(s1), "addr": udpAddrPort(u1).String(), "proto": "udp"},
		M{"name": "t", "serial": u32(s2), "addr": tcpAP.String(), "proto": "tcp"}}}
	cfgD := M{"routed": true, "bind": projAddr(""), "broadcast": projAddr(udpAddrPort(bc).String()), "devices": []any{
		M{"name": "u", "serial": u32(s1), "addr": projAddr(udpAddrPort(u1).String()), "proto": "udp"},
		M{"name": "t", "serial": u32(s2), "addr": projAddr(tcpAP.String()), "proto": "tcp"}}}
	bind := types.BindAddr{AddrPort: netip.AddrPortFrom(netip.AddrFrom4([4]byte{127, 0, 0, 1}), 0)}
	mk := func(timeout time.Duration) uhppote.IUHPPOTE {
		return uhppote.NewUHPPOTE(bind, types.BroadcastAddr{AddrPort: udpAddrPort(bc)}, types.ListenAddr{}, timeout, devices, false)
	}
	u := mk(3 * time.Second)
	ud := mk(250 * time.Millisecond) // discovery waits for the whole window

	serials := map[string]uint32{"udp": s1, "tcp": s2, "bcast": s3}
	paths := []string{"udp", "tcp", "bcast"}

	// one well-formed reply for `op` to the request `req` (echoing the request's own argument where the operation looks at it)
	outField := "" // (when set: the field of the next reply that is filled from outside its domain)
	valid := func(op string, req []byte) []byte {
		l := lt.Rsp[op]
		som := byte(0x17)
		if op == "GetStatus" && rng.Intn(3) == 0 {
			som = 0x19
		}
		m := l.message(rng, som, req[4:8], "valid", func(f field) string {
			if outField != "" && f.Name == outField {
				return "out"
			}
			return ""
		})
		switch op {
		case "GetCardByID":
			copy(m[8:12], req[8:12])
		case "GetTimeProfile":
			m[8] = req[8]
		case "GetEvent", "GetCardByIndex":
			if rng.Intn(2) == 0 {
				copy(m[8:12], req[8:12])
			}
		}
		return m
	}
	type kept struct {
		wire  []byte
		nreq  int
		op    string
		path  string
		cs    callSpec
		v     any
		err   error
		ret   M
		deliv []any
	}
	do := func(op, path string) *kept {
		cs := g.call(op, serials[path])
		k := &kept{op: op, path: path, cs: cs}
		// on the broadcast path, every third call: datagrams that are not for this call (another controller's reply, a
		// wrong length) arrive ahead of the reply - they are skipped, and nothing is sent a second time
		strays := path == "bcast" && rng.Intn(3) == 0
		mu.Lock()
		nreq, wire = 0, nil
		answer = func(req []byte) [][]byte {
			m := valid(op, req)
			k.deliv = []any{M{"b": ints(m), "keep": true}}
			if strays {
				other := valid(op, req)
				other[4] ^= 0x5a
				return [][]byte{other, other[:17], m}
			}
			return [][]byte{m}
		}
		mu.Unlock()
		defer func() {
			time.Sleep(2 * time.Millisecond) // (a request sent in reaction to a stray is on its way by now)
			mu.Lock()
			k.nreq = nreq
			k.wire = wire
			mu.Unlock()
		}()
		if p, msg := guard(func() { k.v, k.err = cs.call(u) }); p {
			k.ret = M{"t": "panic", "msg": msg}
			return k
		}
		k.ret = projRet(k.v, k.err)
		return k
	}
	discover := func() *kept {
		cs := g.call("GetDevices", 0)
		k := &kept{op: "GetDevices", path: "discovery", cs: cs}
		defer func() {
			mu.Lock()
			k.nreq = nreq
			k.wire = wire
			mu.Unlock()
		}()
		mu.Lock()
		nreq = 0
		answer = func(req []byte) [][]byte {
			out := [][]byte{}
			for i := 0; i < 3; i++ {
				sn := make([]byte, 4)
				binary.LittleEndian.PutUint32(sn, uint32(100000000+rng.Intn(800000000)))
				m := lt.Rsp["GetDevice"].message(rng, 0x17, sn, "valid", nil)
				out = append(out, m)
				k.deliv = append(k.deliv, M{"b": ints(m), "keep": true})
			}
			return out
		}
		mu.Unlock()
		if p, msg := guard(func() { k.v, k.err = cs.call(ud) }); p {
			k.ret = M{"t": "panic", "msg": msg}
			return k
		}
		k.ret = projRet(k.v, k.err)
		return k
	}
	// later traffic: another exchange, not kept
	noise := func() string {
		path := paths[rng.Intn(len(paths))]
		switch rng.Intn(6) {
		case 0:
			discover()
			return "GetDevices"
		case 1: // a wrong-length datagram, then (broadcast path) nothing: the call fails or times out quickly on a short-lived client
			op := replyOps()[rng.Intn(len(replyOps()))]
			cs := g.call(op, serials[path])
			mu.Lock()
			answer = func(req []byte) [][]byte {
				m := make([]byte, []int{0, 1, 63, 65, 128, 1024}[rng.Intn(6)])
				rng.Read(m)
				return [][]byte{m, valid(op, req)}
			}
			mu.Unlock()
			guard(func() { cs.call(u) })
			return op + "/badlen"
		}
		op := replyOps()[rng.Intn(len(replyOps()))]
		do(op, path)
		return op + "/" + path
	}

	reps := 2
	if thorough {
		reps = 30
	}
	// a reply with ONE field outside its domain right after a well-formed reply to the same operation: the result is the
	// interpretation of its own datagram (that field as 'no value', or the call fails) - nothing of the previous reply
	for rep := 0; rep < reps; rep++ {
		for _, op := range replyOps() {
			cands := []string{}
			for _, f := range lt.Rsp[op].Fields {
				switch f.Kind {
				case "date", "datetime", "sysdate", "systime", "hhmm", "hhmmp", "bool":
					cands = append(cands, f.Name)
				}
			}
			if len(cands) == 0 {
				continue
			}
			path := paths[(rep+len(op))%len(paths)]
			do(op, path)
			mu.Lock()
			outField = cands[rng.Intn(len(cands))]
			mu.Unlock()
			k := do(op, path)
			mu.Lock()
			of := outField
			outField = ""
			if k.deliv == nil {
				k.deliv = []any{}
			}
			mu.Unlock()
			w.put(M{"op": k.op, "a": k.cs.args, "sent": sentOf(k.wire), "route": M{"m": "none"}, "ncalls": 1, "delivered": k.deliv,
				"ret": k.ret, "ret_later": k.ret, "render": render(k.v, k.err), "cfg": cfgP,
				"kept": M{"path": k.path, "later": []any{"after-valid:" + of}}, "nreq": k.nreq}, "kept-out-"+k.path, fmt.Sprintf("out/%s/%s/%d", k.op, k.path, rep))
		}
	}
	for rep := 0; rep < reps; rep++ {
		for _, path := range append(append([]string{}, paths...), "discovery") {
			ops := replyOps()
			if path == "discovery" {
				ops = []string{"GetDevices", "GetDevices"}
			}
			for _, op := range ops {
				var k *kept
				if path == "discovery" {
					k = discover()
				} else {
					k = do(op, path)
				}
				n := 1 + rng.Intn(4)
				later := []any{}
				for j := 0; j < n; j++ {
					later = append(later, noise())
				}
				retLater := M{"t": "panic", "msg": "projection"}
				if k.ret["t"] == "panic" {
					retLater = k.ret
				} else {
					guard(func() { retLater = projRet(k.v, k.err) })
				}
				mu.Lock()
				answer = nil
				if k.deliv == nil {
					k.deliv = []any{}
				}
				mu.Unlock()
				w.put(M{"op": k.op, "a": k.cs.args, "sent": sentOf(k.wire), "route": M{"m": "none"}, "ncalls": 1, "delivered": k.deliv,
					"ret": k.ret, "ret_later": retLater, "render": render(k.v, k.err), "cfg": map[bool]M{true: cfgD, false: cfgP}[k.op == "GetDevices"],
					"kept": M{"path": k.path, "later": later}, "nreq": k.nreq}, "kept-"+k.path, fmt.Sprintf("%s/%s/%d", k.op, k.path, rep))
			}
		}
	}
	// a reply that is byte for byte the request (open-door 1 answered "succeeded", get-cards answered "no cards", ...) is a
	// reply like any other: whatever the call makes of it, it makes of THAT datagram
	for _, path := range paths {
		for _, op := range replyOps() {
			cs := g.call(op, serials[path])
			k := &kept{op: op, path: path, cs: cs}
			mu.Lock()
			nreq, wire = 0, nil
			answer = func(req []byte) [][]byte {
				m := append([]byte{}, req...)
				k.deliv = []any{M{"b": ints(m), "keep": true}}
				return [][]byte{m}
			}
			mu.Unlock()
			if p, msg := guard(func() { k.v, k.err = cs.call(u) }); p {
				k.ret = M{"t": "panic", "msg": msg}
			} else {
				k.ret = projRet(k.v, k.err)
			}
			time.Sleep(2 * time.Millisecond)
			mu.Lock()
			k.nreq, k.wire = nreq, wire
			answer = nil
			if k.deliv == nil {
				k.deliv = []any{}
			}
			mu.Unlock()
			w.put(M{"op": k.op, "a": k.cs.args, "sent": sentOf(k.wire), "route": M{"m": "none"}, "ncalls": 1, "delivered": k.deliv,
				"ret": k.ret, "ret_later": k.ret, "render": render(k.v, k.err), "cfg": cfgP,
				"kept": M{"path": k.path, "later": []any{"echo"}}, "nreq": k.nreq}, "kept-echo-"+k.path, fmt.Sprintf("echo/%s/%s", k.op, k.path))
		}
	}
	// a TCP controller that reads the request and ends the stream without a byte: the call fails - after ONE request
	for i, op := range replyOps() {
		if i%3 != 0 {
			continue
		}
		cs := g.call(op, serials["tcp"])
		mu.Lock()
		nreq, wire, closeNow = 0, nil, true
		answer = func(req []byte) [][]byte { return nil }
		mu.Unlock()
		var err error
		pn, _ := guard(func() { _, err = cs.call(u) })
		time.Sleep(5 * time.Millisecond)
		mu.Lock()
		n := nreq
		closeNow, answer = false, nil
		mu.Unlock()
		w.put(M{"op": "Requests", "what": "tcp-peer-closes-without-reply:" + op, "nreq": n, "failed": err != nil, "panicked": pn}, "requests", "closed/"+op)
	}
	// a FATAL datagram answers the first request; a well-formed reply would answer any repeated one: the call fails after ONE
	// request - for every reply-bearing operation over each path (wrong function code / protocol id everywhere, another
	// controller's serial number on the directed paths)
	for i, op := range replyOps() {
		for j, path := range paths {
			kinds := []string{"badcode", "badproto"}
			if path != "bcast" {
				kinds = append(kinds, "badserial")
			}
			_, _ = i, j
			for _, kind := range kinds {
				cs := g.call(op, serials[path])
				mu.Lock()
				nreq, wire = 0, nil
				first := true
				answer = func(req []byte) [][]byte {
					m := valid(op, req)
					if first {
						first = false
						switch kind {
						case "badcode":
							m[1] ^= 0x03
						case "badproto":
							m[0] = 0x18
						case "badserial":
							m[5] ^= 0x5a
						}
					}
					return [][]byte{m}
				}
				mu.Unlock()
				var err error
				pn, _ := guard(func() { _, err = cs.call(u) })
				time.Sleep(3 * time.Millisecond)
				mu.Lock()
				n := nreq
				answer = nil
				mu.Unlock()
				w.put(M{"op": "FatalFirst", "what": kind + "-then-valid:" + op + "/" + path, "nreq": n, "failed": err != nil, "panicked": pn}, "fatal-first", "fatal/"+op+"/"+path+"/"+kind)
			}
		}
	}
	return w.close(), nil
}
