package main

import (
	"math/rand"
)

// Zone pass (C02 / C10 in a zone with offset changes): replies and events whose calendar fields are moved onto the
// days on which the process zone changes its offset, restricted to civil times that EXIST in the zone (a civil time in
// a gap has no instant: what it decodes to is C13's subject, with its own existence facts).

func unbcd(b byte) (int, bool) {
	if b>>4 > 9 || b&15 > 9 {
		return 0, false
	}
	return int(b>>4)*10 + int(b&15), true
}

func unbcds(bs []byte) ([]int, bool) {
	out := make([]int, len(bs))
	for i, b := range bs {
		v, ok := unbcd(b)
		if !ok {
			return nil, false
		}
		out[i] = v
	}
	return out, true
}

// msgTimesExist: every decimal calendar field of the message denotes a day / time that exists in the local zone
func msgTimesExist(l layout, m []byte) bool {
	var sd, st []int
	for _, f := range l.Fields {
		switch f.Kind {
		case "date":
			if v, ok := unbcds(m[f.Off : f.Off+4]); ok {
				y, mo, d := v[0]*100+v[1], v[2], v[3]
				if y >= 1 && mo >= 1 && mo <= 12 && d >= 1 && d <= daysIn(y, mo) && !dayExists(y, mo, d) {
					return false
				}
			}
		case "datetime":
			if v, ok := unbcds(m[f.Off : f.Off+7]); ok {
				y, mo, d := v[0]*100+v[1], v[2], v[3]
				if y >= 1 && mo >= 1 && mo <= 12 && d >= 1 && d <= daysIn(y, mo) && v[4] <= 23 && v[5] <= 59 && v[6] <= 59 && !timeExists(y, mo, d, v[4], v[5], v[6]) {
					return false
				}
			}
		case "sysdate":
			if v, ok := unbcds(m[f.Off : f.Off+3]); ok {
				sd = v
			}
		case "systime":
			if v, ok := unbcds(m[f.Off : f.Off+3]); ok {
				st = v
			}
		}
	}
	if sd != nil {
		y, mo, d := 2000+sd[0], sd[1], sd[2]
		if mo >= 1 && mo <= 12 && d >= 1 && d <= daysIn(y, mo) {
			if !dayExists(y, mo, d) {
				return false
			}
			if st != nil && st[0] <= 23 && st[1] <= 59 && st[2] <= 59 && !timeExists(y, mo, d, st[0], st[1], st[2]) {
				return false
			}
		}
	}
	return true
}

// ontoTransitionDays moves the (valid) calendar fields of a message onto offset-change days of the local zone
func ontoTransitionDays(r *rand.Rand, l layout, m []byte) {
	pool := transitionDays()
	if len(pool) == 0 {
		return
	}
	for _, f := range l.Fields {
		d := pool[r.Intn(len(pool))]
		switch f.Kind {
		case "date", "datetime":
			if r.Intn(3) != 0 {
				copy(m[f.Off:], []byte{bcd2(d[0] / 100), bcd2(d[0] % 100), bcd2(d[1]), bcd2(d[2])})
			}
		case "sysdate":
			if d[0] >= 2000 && d[0] <= 2068 {
				copy(m[f.Off:], []byte{bcd2(d[0] % 100), bcd2(d[1]), bcd2(d[2])})
			}
		}
	}
}

// zoneMessage: a valid message with calendar fields on transition days, all of them existing civil times
func zoneMessage(r *rand.Rand, l layout, som byte, serial []byte) []byte {
	for try := 0; ; try++ {
		m := l.message(r, som, serial, "valid", nil)
		if try < 50 {
			ontoTransitionDays(r, l, m)
		}
		if msgTimesExist(l, m) {
			return m
		}
	}
}
