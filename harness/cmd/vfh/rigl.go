package main

// Rig L - loopback controller farm: the unmodified client (real sockets, real driver, real time)
// talks UDP/TCP to harness-owned endpoints on 127.0.0.1. Scripts are behaviours of
// spec/Transport.tla exported by TLC (-simulate); the harness executes the ENVIRONMENT's choices
// (when calls start, what each controller does d ticks after being asked, which strays go to which
// call) and records what the library did as events, which TLC validates (Trace_Transport).

import (
	"bufio"
	"encoding/binary"
	"encoding/json"
	"errors"
	"fmt"
	"math/rand"
	"net"
	"net/netip"
	"os"
	"path/filepath"
	"runtime"
	"runtime/debug"
	"sort"
	"strings"
	"sync"
	"sync/atomic"
	"syscall"
	"time"

	"github.com/uhppoted/uhppote-core/types"
	"github.com/uhppoted/uhppote-core/uhppote"
)

func init() { commands["rigl"] = runRigL }

type planStep struct {
	cls   string
	delay int
}

type strayStep struct {
	cls string
	rel int
}

type callScript struct {
	id     string
	path   string
	kind   string
	ctl    string
	start  int
	plan   []planStep
	lens   []int // lengths for this call's successive wrong-length datagrams (hand-made length scripts); else drawn from the seed
	strays []strayStep
	// expectation of the specification's own behaviour (informational: the verdict is trace validation)
	expKind string
	expRel  int
}

type script struct {
	id     string
	group  string
	T      int
	tickMs int // > 0: this behaviour needs its own tick (e.g. one that brackets the kernel's 1 s SYN retransmission)
	fixed  bool
	calls  []*callScript
}

func loadScript(path string) (*script, error) {
	recs, err := readNdjson(path)
	if err != nil {
		return nil, err
	}
	if len(recs) == 0 || recs[0]["a"] != "Cfg" {
		return nil, fmt.Errorf("%s: no Cfg header", path)
	}
	h := recs[0]
	s := &script{id: strings.TrimSuffix(filepath.Base(path), ".ndjson"), group: h["group"].(string), T: int(h["T"].(float64)), fixed: h["fixed"].(bool)}
	if x, ok := h["tick_ms"].(float64); ok {
		s.tickMs = int(x)
	}
	byID := map[string]*callScript{}
	ids := []string{}
	for id, v := range h["calls"].(map[string]any) {
		m := v.(map[string]any)
		c := &callScript{id: id, path: m["path"].(string), kind: m["kind"].(string), ctl: m["ctl"].(string), start: -1, expKind: "none", expRel: -1}
		byID[id] = c
		ids = append(ids, id)
	}
	sort.Strings(ids)
	for _, id := range ids {
		s.calls = append(s.calls, byID[id])
	}
	for _, r := range recs[1:] {
		c := byID[r["c"].(string)]
		switch r["a"] {
		case "Enter":
			c.start = int(r["t"].(float64))
		case "Send":
			for _, p := range r["plan"].([]any) {
				pp := p.([]any)
				c.plan = append(c.plan, planStep{pp[0].(string), int(pp[1].(float64))})
			}
			if ls, ok := r["lens"].([]any); ok {
				for _, x := range ls {
					c.lens = append(c.lens, int(x.(float64)))
				}
			}
		case "Stray":
			c.strays = append(c.strays, strayStep{r["cls"].(string), int(r["rel"].(float64))})
		case "Return":
			c.expKind = r["kind"].(string)
			c.expRel = int(r["rel"].(float64))
		}
	}
	return s, nil
}

// ---- events -------------------------------------------------------------------------------------

var gseq int64

type evlog struct {
	mu sync.Mutex
	ev []M
}

func (l *evlog) add(e M) {
	l.mu.Lock()
	e["seq"] = atomic.AddInt64(&gseq, 1)
	l.ev = append(l.ev, e)
	l.mu.Unlock()
}

func (l *evlog) sorted() []M {
	l.mu.Lock()
	defer l.mu.Unlock()
	sort.Slice(l.ev, func(i, j int) bool { return l.ev[i]["seq"].(int64) < l.ev[j]["seq"].(int64) })
	return l.ev
}

// ---- farm ---------------------------------------------------------------------------------------

type farm struct {
	sc      *script
	lt      *layoutTables
	tick    time.Duration
	rng     *rand.Rand
	rmu     sync.Mutex
	log     *evlog
	bcast   *net.UDPConn
	udp     map[string]*net.UDPConn     // controller -> endpoint
	tcp     map[string]*net.TCPListener // controller -> listener
	decoys  []*net.UDPConn
	closedP map[string]int        // controller -> a port nobody listens on (refused)
	holes   map[string]*blackhole // controller -> a TCP endpoint that never answers a SYN
	serial  map[string]uint32
	tag     map[string]uint32 // call -> tag
	calls   map[string]*callScript
	asked   sync.Map // call -> time.Time
	asks    sync.Map // call -> *int32 count
	strange *net.UDPConn
	wg      sync.WaitGroup
	closing int32
	bindIP  net.IP
	bindP   int
	split   int // > 0: the next TCP reply is written in two segments, the first of `split` bytes
}

func listenUDP() *net.UDPConn {
	c, err := net.ListenUDP("udp4", &net.UDPAddr{IP: net.IPv4(127, 0, 0, 1), Port: 0})
	if err != nil {
		panic(err)
	}
	return c
}

func (f *farm) rand(n int) int {
	f.rmu.Lock()
	defer f.rmu.Unlock()
	return f.rng.Intn(n)
}

func newFarm(sc *script, lt *layoutTables, tick time.Duration, seed int64, log *evlog) *farm {
	f := &farm{sc: sc, lt: lt, tick: tick, rng: rand.New(rand.NewSource(seed)), log: log, udp: map[string]*net.UDPConn{}, tcp: map[string]*net.TCPListener{},
		closedP: map[string]int{}, holes: map[string]*blackhole{}, serial: map[string]uint32{}, tag: map[string]uint32{}, calls: map[string]*callScript{}}
	f.bcast = listenUDP()
	f.strange = listenUDP()
	for i, c := range sc.calls {
		f.calls[c.id] = c
		f.tag[c.id] = uint32(17 + i)
		if _, ok := f.serial[c.ctl]; !ok {
			n := len(f.serial)
			f.serial[c.ctl] = 405419896 + uint32(n)*7919
			f.udp[c.ctl] = listenUDP()
			l, err := net.ListenTCP("tcp4", &net.TCPAddr{IP: net.IPv4(127, 0, 0, 1), Port: 0})
			if err != nil {
				panic(err)
			}
			f.tcp[c.ctl] = l
			x := listenUDP() // a port nobody listens on
			f.closedP[c.ctl] = x.LocalAddr().(*net.UDPAddr).Port
			x.Close()
		}
	}
	for i := 0; i < 2; i++ {
		f.decoys = append(f.decoys, listenUDP())
	}
	return f
}

// blackhole: a TCP endpoint whose accept queue is full, so that the kernel drops further SYNs (listen backlog 0, two
// connections parked unaccepted; net.ipv4.tcp_abort_on_overflow = 0): a connect to it gets no answer at all
type blackhole struct {
	fd     int
	port   int
	parked []net.Conn
	mu     sync.Mutex
	served []net.Conn
	wg     sync.WaitGroup
}

func newBlackhole() *blackhole {
	fd, err := syscall.Socket(syscall.AF_INET, syscall.SOCK_STREAM, 0)
	if err != nil {
		return nil
	}
	if err := syscall.Bind(fd, &syscall.SockaddrInet4{Port: 0, Addr: [4]byte{127, 0, 0, 1}}); err != nil {
		syscall.Close(fd)
		return nil
	}
	if err := syscall.Listen(fd, 0); err != nil {
		syscall.Close(fd)
		return nil
	}
	sa, err := syscall.Getsockname(fd)
	if err != nil {
		syscall.Close(fd)
		return nil
	}
	h := &blackhole{fd: fd, port: sa.(*syscall.SockaddrInet4).Port}
	addr := fmt.Sprintf("127.0.0.1:%d", h.port)
	for i := 0; i < 4; i++ {
		if c, err := net.DialTimeout("tcp4", addr, 60*time.Millisecond); err == nil {
			h.parked = append(h.parked, c)
		} else {
			return h // saturated: this connect was left unanswered
		}
	}
	h.close()
	return nil
}

// drainAndServe: after `after`, accept whatever sits in the queue (the parked connections are dropped, the client's
// connection - once its retransmitted SYN got through - is read like any request and then left to stall)
func (h *blackhole) drainAndServe(f *farm, ctl string, after time.Duration) {
	h.wg.Add(1)
	defer h.wg.Done()
	time.Sleep(after)
	mine := map[int]bool{}
	for _, c := range h.parked {
		mine[c.LocalAddr().(*net.TCPAddr).Port] = true
	}
	for {
		nfd, sa, err := syscall.Accept(h.fd)
		if err != nil {
			return
		}
		in4, ok := sa.(*syscall.SockaddrInet4)
		if !ok || mine[in4.Port] {
			syscall.Close(nfd)
			continue
		}
		file := os.NewFile(uintptr(nfd), "accepted")
		conn, err := net.FileConn(file)
		file.Close()
		if err != nil {
			continue
		}
		h.mu.Lock()
		h.served = append(h.served, conn)
		h.mu.Unlock()
		h.wg.Add(1)
		go func() {
			defer h.wg.Done()
			defer conn.Close()
			buf := make([]byte, 2048)
			conn.SetReadDeadline(time.Now().Add(20 * f.tick))
			n, err := conn.Read(buf)
			if err != nil {
				return
			}
			req := append([]byte{}, buf[:n]...)
			if c := f.identify(req); c != nil {
				f.onRequest(c, "tcp", ctl, &net.UDPAddr{IP: net.IPv4(in4.Addr[0], in4.Addr[1], in4.Addr[2], in4.Addr[3]), Port: in4.Port}, func(b []byte) {})
			}
			conn.SetReadDeadline(time.Now().Add(time.Duration(f.sc.T+6) * f.tick))
			conn.Read(buf) // stall until the client goes away
		}()
	}
}

func (h *blackhole) close() {
	for _, c := range h.parked {
		c.Close()
	}
	h.mu.Lock()
	for _, c := range h.served {
		c.Close()
	}
	h.mu.Unlock()
	syscall.Shutdown(h.fd, syscall.SHUT_RDWR) // unblocks a pending accept (closing the descriptor alone does not)
	syscall.Close(h.fd)
	h.wg.Wait()
}

func (f *farm) close() {
	for _, h := range f.holes {
		h.close()
	}
	atomic.StoreInt32(&f.closing, 1)
	f.bcast.Close()
	f.strange.Close()
	for _, c := range f.udp {
		c.Close()
	}
	for _, l := range f.tcp {
		l.Close()
	}
	for _, d := range f.decoys {
		d.Close()
	}
	f.wg.Wait()
}

// which call does this request belong to? (serial number + the tag carried in bytes 8..11)
func (f *farm) identify(req []byte) *callScript {
	if len(req) != 64 {
		return nil
	}
	serial := binary.LittleEndian.Uint32(req[4:8])
	tag := binary.LittleEndian.Uint32(req[8:12])
	for _, c := range f.sc.calls {
		if f.serial[c.ctl] != serial {
			continue
		}
		switch c.kind {
		case "status":
			if req[1] == 0x20 {
				return c
			}
		case "setaddr":
			if req[1] == 0x96 && uint32(req[11]) == f.tag[c.id] {
				return c
			}
		default:
			if req[1] == 0x5c && tag == f.tag[c.id] {
				return c
			}
		}
	}
	return nil
}

func (f *farm) replyLayout(c *callScript) layout {
	if c.kind == "status" {
		return f.lt.Rsp["GetStatus"]
	}
	return f.lt.Rsp["GetCardByIndex"]
}

// datagram of class cls answering call c
func (f *farm) datagram(c *callScript, cls string) []byte {
	f.rmu.Lock()
	defer f.rmu.Unlock()
	l := f.replyLayout(c)
	serial := make([]byte, 4)
	binary.LittleEndian.PutUint32(serial, f.serial[c.ctl])
	m := l.message(f.rng, 0x17, serial, "valid", nil)
	// the reply identifies the request it answers: card number / sequence id carry the call's tag
	if c.kind == "status" {
		binary.LittleEndian.PutUint32(m[40:44], 1000+f.tag[c.id])
	} else {
		binary.LittleEndian.PutUint32(m[8:12], 1000+f.tag[c.id])
	}
	switch cls {
	case "valid":
	case "proto19":
		m[0] = 0x19
	case "badproto":
		m[0] = []byte{0x18, 0x00, 0xff, 0x16}[f.rng.Intn(4)]
	case "badcode":
		m[1] = []byte{0x94, 0x50, 0x32, 0x21}[f.rng.Intn(4)]
	case "badserial":
		m[7] ^= byte(0x40 + f.rng.Intn(0x80)) // never another controller of the scenario
	case "serial0":
		copy(m[4:8], []byte{0, 0, 0, 0})
	case "badlen":
		n := []int{1, 63, 65, 128, 1024, 0}[f.rng.Intn(6)]
		if len(c.lens) > 0 {
			n = c.lens[0]
			c.lens = c.lens[1:]
		}
		if n < 0 {
			// TCP only: the genuine 64 bytes in two segments of -n and 64+n bytes (a pause in between): the first read
			// returns fewer than 64 bytes, which is a wrong-length reply
			f.split = -n
			return m
		}
		if c.path == "tcp" && n == 0 {
			n = 32 // a TCP peer cannot send an empty segment
		}
		if n <= 64 {
			m = m[:n]
		} else {
			m = append(m, make([]byte, n-64)...)
		}
	case "malformed":
		if c.kind == "status" {
			switch f.rng.Intn(3) {
			case 0:
				m[28+f.rng.Intn(8)] = byte(2 + f.rng.Intn(254)) // a boolean byte other than 0/1
			case 1:
				// the event timestamp: a "no date" (all zero, or 2000-00-00) in front of a time of day with a non-decimal nibble
				copy(m[20:27], [][]byte{{0, 0, 0, 0, 0x12, 0x30, 0x00}, {0x20, 0, 0, 0, 0x12, 0x30, 0x00}}[f.rng.Intn(2)])
				m[24+f.rng.Intn(3)] |= 0x0a + byte(f.rng.Intn(6))
			case 2:
				m[37+f.rng.Intn(3)] = 0xa0 | byte(f.rng.Intn(16)) // non-decimal nibble in the system time
			}
		} else {
			m[12+f.rng.Intn(8)] = 0xa0 | byte(f.rng.Intn(16)) // non-decimal BCD nibble in a date
		}
	default:
		panic("unknown class " + cls)
	}
	return m
}

// onRequest: the request of call c has arrived (from `src`); `send` writes a datagram back the way
// the controller would. Schedules the scripted answer and strays relative to this instant.
func (f *farm) onRequest(c *callScript, via, to string, src *net.UDPAddr, send func([]byte)) {
	now := time.Now()
	cnt := new(int32)
	if v, loaded := f.asks.LoadOrStore(c.id, cnt); loaded {
		cnt = v.(*int32)
	}
	n := atomic.AddInt32(cnt, 1)
	plan := []any{}
	for _, p := range c.plan {
		plan = append(plan, []any{p.cls, p.delay})
	}
	srcok := src != nil && src.IP.Equal(f.bindIP) && (f.bindP == 0 || src.Port == f.bindP)
	f.log.add(M{"ev": "ask", "c": c.id, "plan": plan, "via": via, "to": to, "srcok": srcok, "nth": int(n), "t": now.UnixMicro()})
	if n > 1 {
		return
	}
	f.asked.Store(c.id, now)

	type act struct {
		at    time.Duration
		stray bool
		cls   string
		n     int
	}
	acts := []act{}
	// controllers do not answer function 0x96 (set-address)
	if c.kind != "setaddr" && !(len(c.plan) == 1 && (c.plan[0].cls == "silence" || c.plan[0].cls == "reset" || c.plan[0].cls == "closed" || c.plan[0].cls == "refused" || c.plan[0].cls == "blackhole" || c.plan[0].cls == "slowstall")) {
		for i, p := range c.plan {
			acts = append(acts, act{at: time.Duration(float64(f.tick)*(float64(p.delay)+0.45)) + time.Duration(i)*time.Millisecond, cls: p.cls, n: i + 1})
		}
	}
	for j, s := range c.strays {
		// (the strays of one tick leave between 0.22 and 0.42 of it, in script order - however many there are)
		off := time.Duration(j) * time.Millisecond
		if len(c.strays) > 8 {
			off = time.Duration(j%100) * f.tick / 500
		}
		acts = append(acts, act{at: time.Duration(float64(f.tick)*(float64(s.rel)+0.22)) + off, stray: true, cls: s.cls})
	}
	sort.SliceStable(acts, func(i, j int) bool { return acts[i].at < acts[j].at })

	f.wg.Add(1)
	go func() {
		defer f.wg.Done()
		for _, a := range acts {
			if d := time.Until(now.Add(a.at)); d > 0 {
				time.Sleep(d)
			}
			if atomic.LoadInt32(&f.closing) != 0 {
				return
			}
			b := f.datagram(c, a.cls)
			rel := int(time.Since(now) / f.tick)
			// the event is stamped BEFORE the datagram leaves: whatever the datagram causes in the
			// client (a return, say) is then ordered after it
			if a.stray {
				f.log.add(M{"ev": "stray", "c": c.id, "cls": a.cls, "rel": rel})
				if src != nil {
					f.strange.WriteToUDP(b, src)
				}
			} else {
				f.log.add(M{"ev": "dg", "c": c.id, "n": a.n, "cls": a.cls, "rel": rel})
				send(b)
			}
		}
	}()
}

func (f *farm) serveUDP(conn *net.UDPConn, via, ctl string) {
	f.wg.Add(1)
	go func() {
		defer f.wg.Done()
		buf := make([]byte, 2048)
		for {
			n, src, err := conn.ReadFromUDP(buf)
			if err != nil {
				return
			}
			req := append([]byte{}, buf[:n]...)
			c := f.identify(req)
			if c == nil || via == "decoy" {
				f.log.add(M{"ev": "unexpected", "via": via, "to": ctl, "len": n})
				continue
			}
			f.onRequest(c, via, ctl, src, func(b []byte) { conn.WriteToUDP(b, src) })
		}
	}()
}

func (f *farm) serveTCP(l *net.TCPListener, ctl string) {
	f.wg.Add(1)
	go func() {
		defer f.wg.Done()
		for {
			conn, err := l.AcceptTCP()
			if err != nil {
				return
			}
			f.wg.Add(1)
			go func() {
				defer f.wg.Done()
				defer conn.Close()
				buf := make([]byte, 2048)
				conn.SetReadDeadline(time.Now().Add(20 * f.tick))
				n, err := conn.Read(buf)
				if err != nil {
					return
				}
				req := append([]byte{}, buf[:n]...)
				c := f.identify(req)
				if c == nil {
					f.log.add(M{"ev": "unexpected", "via": "tcp", "to": ctl, "len": n})
					return
				}
				src := conn.RemoteAddr().(*net.TCPAddr)
				f.onRequest(c, "tcp", ctl, &net.UDPAddr{IP: src.IP, Port: src.Port}, func(b []byte) {
					f.rmu.Lock()
					sp := f.split
					f.split = 0
					f.rmu.Unlock()
					if sp > 0 && sp < len(b) {
						conn.Write(b[:sp])
						time.Sleep(f.tick / 2)
						conn.Write(b[sp:])
						return
					}
					conn.Write(b)
				})
				if len(c.plan) == 1 && c.plan[0].cls == "reset" {
					conn.SetLinger(0)
					return // deferred Close sends RST
				}
				if len(c.plan) == 1 && c.plan[0].cls == "closed" {
					return // deferred Close: an orderly end of stream (FIN) without a single byte of reply
				}
				// keep the connection open until the client goes away (accept-and-stall when silent)
				conn.SetReadDeadline(time.Now().Add(time.Duration(f.sc.T+6) * f.tick))
				conn.Read(buf)
			}()
		}
	}()
}

func (f *farm) start() {
	f.serveUDP(f.bcast, "bcast", "*")
	for ctl, c := range f.udp {
		f.serveUDP(c, "udp", ctl)
	}
	for ctl, l := range f.tcp {
		f.serveTCP(l, ctl)
	}
	for _, d := range f.decoys {
		f.serveUDP(d, "decoy", "decoy")
	}
}

// ---- scenario -----------------------------------------------------------------------------------

func udpAddrPort(c *net.UDPConn) netip.AddrPort {
	a := c.LocalAddr().(*net.UDPAddr)
	return netip.AddrPortFrom(netip.AddrFrom4([4]byte{127, 0, 0, 1}), uint16(a.Port))
}

func classify(err error) string {
	if err == nil {
		return "ok"
	}
	var ne net.Error
	if errors.As(err, &ne) && ne.Timeout() {
		return "timeout"
	}
	return "err"
}

var fixedPortBase = 21000

// jitterMonitor: a goroutine that sleeps 1 ms over and over and records by how much its wake-ups were late
type jitterMonitor struct {
	worst int64
	quit  chan struct{}
}

func startJitterMonitor() *jitterMonitor {
	j := &jitterMonitor{quit: make(chan struct{})}
	go func() {
		for {
			select {
			case <-j.quit:
				return
			default:
			}
			t0 := time.Now()
			time.Sleep(time.Millisecond)
			if over := int64(time.Since(t0)-time.Millisecond) / 1000; over > atomic.LoadInt64(&j.worst) {
				atomic.StoreInt64(&j.worst, over)
			}
		}
	}()
	return j
}
func (j *jitterMonitor) max() int64 { return atomic.LoadInt64(&j.worst) }
func (j *jitterMonitor) stop()      { close(j.quit) }

func runScenario(sc *script, lt *layoutTables, tick time.Duration, seed int64, fixedPort int) M {
	// timing self-check: a goroutine that sleeps 1 ms over and over records by how much its wake-ups were late while the
	// scenario ran. A scenario whose own clockwork was disturbed by more than a fraction of a tick (other processes
	// hogging the CPUs) proves nothing either way; the orchestrator discounts its rejection.
	if sc.tickMs > 0 {
		tick = time.Duration(sc.tickMs) * time.Millisecond
	}
	jm := startJitterMonitor()
	defer jm.stop()
	log := &evlog{}
	f := newFarm(sc, lt, tick, seed, log)
	f.bindIP = net.IPv4(127, 0, 0, 1)
	bind := types.BindAddr{AddrPort: netip.AddrPortFrom(netip.AddrFrom4([4]byte{127, 0, 0, 1}), 0)}
	if sc.fixed {
		f.bindP = fixedPort
		bind = types.BindAddr{AddrPort: netip.AddrPortFrom(netip.AddrFrom4([4]byte{127, 0, 0, 1}), uint16(fixedPort))}
	}
	f.start()
	defer f.close()

	bc := types.BroadcastAddr{AddrPort: udpAddrPort(f.bcast)}
	timeout := time.Duration(sc.T) * tick

	// one client per delivery path (several clients coexist in the process); calls on the same path share one
	clients := map[string]uhppote.IUHPPOTE{}
	all := []uhppote.Device{}
	for _, path := range []string{"bcast", "udp", "tcp"} {
		devices := []uhppote.Device{}
		if path != "bcast" {
			seen := map[string]bool{}
			for _, c := range sc.calls {
				if c.path != path || seen[c.ctl] {
					continue
				}
				seen[c.ctl] = true
				var ap netip.AddrPort
				refused := len(c.plan) == 1 && c.plan[0].cls == "refused"
				switch {
				case len(c.plan) == 1 && c.plan[0].cls == "slowstall" && path == "tcp":
					// the accept queue is full when the client's first SYN arrives and is drained 300 ms later: the
					// handshake completes on the kernel's retransmission (1 s), then the peer reads the request and stalls
					h := newBlackhole()
					if h == nil {
						return M{"id": sc.id, "group": sc.group, "ev": []any{}, "expect": M{}, "hung": false, "skipped": "no blackhole endpoint", "jitter_us": 0, "tick_us": int64(tick / time.Microsecond)}
					}
					f.holes[c.ctl] = h
					ap = netip.AddrPortFrom(netip.AddrFrom4([4]byte{127, 0, 0, 1}), uint16(h.port))
					go h.drainAndServe(f, c.ctl, 300*time.Millisecond)
				case len(c.plan) == 1 && c.plan[0].cls == "blackhole" && path == "tcp":
					h := newBlackhole()
					if h == nil {
						return M{"id": sc.id, "group": sc.group, "ev": []any{}, "expect": M{}, "hung": false, "skipped": "no blackhole endpoint", "jitter_us": 0, "tick_us": int64(tick / time.Microsecond)}
					}
					f.holes[c.ctl] = h
					ap = netip.AddrPortFrom(netip.AddrFrom4([4]byte{127, 0, 0, 1}), uint16(h.port))
				case refused:
					ap = netip.AddrPortFrom(netip.AddrFrom4([4]byte{127, 0, 0, 1}), uint16(f.closedP[c.ctl]))
				case path == "udp":
					ap = udpAddrPort(f.udp[c.ctl])
				default:
					ap = netip.AddrPortFrom(netip.AddrFrom4([4]byte{127, 0, 0, 1}), uint16(f.tcp[c.ctl].Addr().(*net.TCPAddr).Port))
				}
				devices = append(devices, uhppote.Device{Name: c.ctl, DeviceID: f.serial[c.ctl], Address: types.ControllerAddr{AddrPort: ap}, Protocol: path})
			}
		}
		// (on a shared fixed port every third scenario gives the connected-UDP client the WILDCARD address with the same
		// port: it is the same port - the calls of all clients still take turns)
		b := bind
		if f.bindP != 0 && path == "udp" && len(sc.id)%3 == 1 {
			b = types.BindAddr{AddrPort: netip.AddrPortFrom(netip.AddrFrom4([4]byte{0, 0, 0, 0}), uint16(f.bindP))}
		}
		clients[path] = uhppote.NewUHPPOTE(b, bc, types.ListenAddr{}, timeout, devices, false)
		all = append(all, devices...)
	}
	// ... or, in every other scenario in which no controller is reached over two different paths, ONE client that is
	// configured with all of them (udp and tcp controllers side by side, the rest not configured): whatever a client
	// keeps between calls is then shared by calls over different transports
	pathsOf := map[string]map[string]bool{}
	for _, c := range sc.calls {
		if pathsOf[c.ctl] == nil {
			pathsOf[c.ctl] = map[string]bool{}
		}
		pathsOf[c.ctl][c.path] = true
	}
	shareable := true
	for _, ps := range pathsOf {
		if len(ps) > 1 {
			shareable = false
		}
	}
	h := 0
	for _, ch := range sc.id {
		h = h*31 + int(ch)
	}
	if shareable && h%2 == 0 {
		one := uhppote.NewUHPPOTE(bind, bc, types.ListenAddr{}, timeout, all, false)
		for _, path := range []string{"bcast", "udp", "tcp"} {
			clients[path] = one
		}
	}

	t0 := time.Now().Add(5 * time.Millisecond)
	var wg sync.WaitGroup
	hung := int32(0)
	for _, c := range sc.calls {
		if c.start < 0 {
			continue
		}
		wg.Add(1)
		go func(c *callScript) {
			defer wg.Done()
			time.Sleep(time.Until(t0.Add(time.Duration(float64(tick) * (float64(c.start) + 0.13)))))
			u := clients[c.path]
			serial := f.serial[c.ctl]
			if c.kind == "badid" {
				serial = 0
			}
			tag := f.tag[c.id]
			log.add(M{"ev": "start", "c": c.id})
			tStart := time.Now()
			done := make(chan M, 1)
			go func() {
				var kind, from string = "ok", "none"
				p, _ := guard(func() {
					switch c.kind {
					case "status":
						st, err := u.GetStatus(serial)
						kind = classify(err)
						if err == nil && st != nil {
							from = f.callOfTag(st.SequenceId)
						}
					case "setaddr":
						_, err := u.SetAddress(serial, net.IPv4(10, 0, 0, byte(tag)), net.IPv4(255, 255, 255, 0), net.IPv4(10, 0, 0, 1))
						kind = classify(err)
					default:
						card, err := u.GetCardByIndex(serial, tag)
						kind = classify(err)
						if err == nil && card != nil {
							from = f.callOfTag(card.CardNumber)
						} else if err == nil {
							from = "nil-card"
						}
					}
				})
				if p {
					kind = "panic"
				}
				done <- M{"kind": kind, "from": from}
			}()
			select {
			case r := <-done:
				rel := -1
				lat := int64(-1)
				if v, ok := f.asked.Load(c.id); ok {
					lat = v.(time.Time).Sub(tStart).Microseconds()
					// the farm stamps the arrival of the request a little after the client armed its
					// deadline: a quarter tick of slack keeps a time-out at exactly T ticks in tick T
					// (half a tick for time-outs, which are the only returns not caused by a farm datagram)
					bias := tick / 4
					if r["kind"] == "timeout" {
						bias = tick / 2
					}
					rel = int((time.Since(v.(time.Time)) + bias) / tick)
				}
				if c.kind == "badid" {
					r["kind"] = map[string]string{"err": "rejected"}[r["kind"].(string)]
				}
				sbias := tick / 4
				if r["kind"] == "timeout" {
					sbias = tick / 2
				}
				log.add(M{"ev": "ret", "c": c.id, "kind": r["kind"], "from": r["from"], "rel": rel, "relstart": int((time.Since(tStart) + sbias) / tick),
					"asklat_us": lat, "elapsed_us": time.Since(tStart).Microseconds()})
			case <-time.After(time.Duration(4*sc.T+4) * tick):
				atomic.StoreInt32(&hung, 1)
				log.add(M{"ev": "hung", "c": c.id})
			}
		}(c)
	}
	wg.Wait()
	// let the farm finish its scripted sends (late datagrams are part of the scenario)
	maxAt := 0
	for _, c := range sc.calls {
		for _, p := range c.plan {
			if p.delay > maxAt {
				maxAt = p.delay
			}
		}
	}
	deadline := time.Now().Add(time.Duration(maxAt+1) * tick)
	for time.Now().Before(deadline) {
		pending := false
		for _, c := range sc.calls {
			if v, ok := f.asked.Load(c.id); ok && time.Since(v.(time.Time)) < time.Duration(float64(tick)*(float64(maxAt)+0.6)) {
				pending = true
			}
		}
		if !pending {
			break
		}
		time.Sleep(tick / 4)
	}

	evs := log.sorted()
	out := []any{}
	for _, e := range evs {
		delete(e, "seq")
		delete(e, "t")
		out = append(out, e)
	}
	exp := M{}
	for _, c := range sc.calls {
		exp[c.id] = M{"kind": c.expKind, "rel": c.expRel}
	}
	return M{"id": sc.id, "group": sc.group, "ev": out, "expect": exp, "hung": hung != 0, "jitter_us": jm.max(), "tick_us": int64(tick / time.Microsecond)}
}

func (f *farm) callOfTag(v uint32) string {
	for id, t := range f.tag {
		if v == 1000+t {
			return id
		}
	}
	return "unknown"
}

func countFDs() int {
	ents, err := os.ReadDir("/proc/self/fd")
	if err != nil {
		return -1
	}
	n := 0
	for _, e := range ents {
		if l, err := os.Readlink("/proc/self/fd/" + e.Name()); err == nil && strings.HasPrefix(l, "socket:") {
			n++
		}
	}
	return n
}

// runRigL: -x "scripts=<dir>;layouts=<file>;group=<G>;part=i/k;tick=40;out=<file>"
func runRigL(o *opts) (*summary, error) {
	lt, err := loadLayouts(o.extraArg("layouts"))
	if err != nil {
		return nil, err
	}
	group := o.extraArg("group")
	files, _ := filepath.Glob(filepath.Join(o.extraArg("scripts"), "beh_"+group+"_*.ndjson"))
	sort.Strings(files)
	part, parts := 0, 1
	fmt.Sscanf(o.extraArg("part"), "%d/%d", &part, &parts)
	tickMs := 40
	fmt.Sscanf(o.extraArg("tick"), "%d", &tickMs)
	tick := time.Duration(tickMs) * time.Millisecond
	if x := o.extraArg("port"); x != "" && x != "0" {
		fmt.Sscanf(x, "%d", &fixedPortBase)
	}

	scripts := []*script{}
	for i, f := range files {
		if i%parts != part {
			continue
		}
		s, err := loadScript(f)
		if err != nil {
			return nil, err
		}
		scripts = append(scripts, s)
	}

	runtime.GC()
	debug.SetGCPercent(-1) // no collector pauses inside timed scenarios (the process is short-lived)
	time.Sleep(20 * time.Millisecond)
	baseFD, baseG := countFDs(), runtime.NumGoroutine()

	results := make([]M, len(scripts))
	if len(scripts) > 0 && scripts[0].fixed {
		// a fixed bind port is guarded by a process-wide lock: scenarios run one at a time
		for i, s := range scripts {
			results[i] = runScenario(s, lt, tick, o.seed+int64(i), fixedPortBase+part*9+i%9)
		}
	} else {
		sem := make(chan struct{}, 16)
		var wg sync.WaitGroup
		for i, s := range scripts {
			wg.Add(1)
			sem <- struct{}{}
			time.Sleep(7 * time.Millisecond) // stagger: no thundering herd of scenario starts
			go func(i int, s *script) {
				defer wg.Done()
				defer func() { <-sem }()
				results[i] = runScenario(s, lt, tick, o.seed+int64(i), 0)
			}(i, s)
		}
		wg.Wait()
	}

	// process-level resources after everything returned
	time.Sleep(time.Duration(6) * tick)
	runtime.GC()
	time.Sleep(30 * time.Millisecond)
	fds, gs := countFDs(), runtime.NumGoroutine()

	name := filepath.Join(o.out, fmt.Sprintf("rigl-%s-%d.ndjson", group, part))
	fh, err := os.Create(name)
	if err != nil {
		return nil, err
	}
	w := bufio.NewWriter(fh)
	calls := 0
	samples := []any{}
	for _, r := range results {
		b, _ := json.Marshal(r)
		w.Write(b)
		w.WriteByte('\n')
		calls += len(r["expect"].(M))
		if len(samples) < 2 {
			var v any
			json.Unmarshal(b, &v)
			samples = append(samples, v)
		}
	}
	w.Flush()
	fh.Close()
	files2 := []string{}
	if len(results) > 0 {
		files2 = append(files2, name)
	}
	return &summary{Files: files2, Records: len(results), Distinct: len(results), Samples: samples,
		Extra: map[string]any{"calls": calls, "fds_before": baseFD, "fds_after": fds, "goroutines_before": baseG, "goroutines_after": gs}}, nil
}
