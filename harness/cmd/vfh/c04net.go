package main

import (
	"fmt"
	"math/rand"
	"net"
	"net/netip"
	"os"
	"sync"
	"time"

	"github.com/uhppoted/uhppote-core/types"
	"github.com/uhppoted/uhppote-core/uhppote"
)

func init() { commands["c04net"] = runC04Net }

// runC04Net: C04 through the REAL driver (what the stub transport bypasses: the receive buffers, the
// debug dump of every received datagram, the read loops). A loopback controller answers every request
// with one byte string of a scripted length and content class - over connected UDP, TCP, the broadcast
// path, discovery - and a sender feeds the real event listener with the same strings. A panic on the
// calling goroutine is recovered and recorded; a panic on a goroutine of the library kills the process,
// which the orchestrator reports (LibraryPanic). Both with debug off and on.
func runC04Net(o *opts) (*summary, error) {
	lt, err := loadLayouts(o.extraArg("layouts"))
	if err != nil {
		return nil, err
	}
	w, err := newShardWriter(o.out, "codec", o.shards)
	if err != nil {
		return nil, err
	}
	rng := rand.New(rand.NewSource(o.seed))
	thorough := o.tier == "thorough"

	lengths := []int{}
	for n := 0; n <= 80; n++ {
		lengths = append(lengths, n)
	}
	lengths = append(lengths, 127, 128, 129, 255, 256, 1023, 1024, 1025, 2047, 2048, 2049, 4096)

	var mu sync.Mutex
	var next []byte // what the controller answers with
	copies := 1     // ... and how many times over
	reply := func() []byte {
		mu.Lock()
		defer mu.Unlock()
		return append([]byte{}, next...)
	}

	udp := listenUDP()
	defer udp.Close()
	bc := listenUDP()
	defer bc.Close()
	serveU := func(c *net.UDPConn) {
		buf := make([]byte, 2048)
		for {
			_, src, err := c.ReadFromUDP(buf)
			if err != nil {
				return
			}
			mu.Lock()
			k := copies
			mu.Unlock()
			for i := 0; i < k; i++ {
				c.WriteToUDP(reply(), src)
			}
		}
	}
	go serveU(udp)
	go serveU(bc)
	tl, err := net.ListenTCP("tcp4", &net.TCPAddr{IP: net.IPv4(127, 0, 0, 1), Port: 0})
	if err != nil {
		return nil, err
	}
	defer tl.Close()
	go func() {
		for {
			conn, err := tl.AcceptTCP()
			if err != nil {
				return
			}
			go func() {
				defer conn.Close()
				buf := make([]byte, 2048)
				conn.SetReadDeadline(time.Now().Add(time.Second))
				if _, err := conn.Read(buf); err != nil {
					return
				}
				b := reply()
				if len(b) > 0 {
					conn.Write(b)
				}
				// the farm closes last (no TIME_WAIT on the client side): wait for the client to go away
				conn.SetReadDeadline(time.Now().Add(300 * time.Millisecond))
				conn.Read(buf)
			}()
		}
	}()

	const serialU, serialT, serialB = 405419896, 303986753, 201020304
	timeout := 20 * time.Millisecond
	tcpAP := netip.AddrPortFrom(netip.AddrFrom4([4]byte{127, 0, 0, 1}), uint16(tl.Addr().(*net.TCPAddr).Port))
	devices := []uhppote.Device{
		{Name: "u", DeviceID: serialU, Address: types.ControllerAddr{AddrPort: udpAddrPort(udp)}, Protocol: "udp"},
		{Name: "t", DeviceID: serialT, Address: types.ControllerAddr{AddrPort: tcpAP}, Protocol: "tcp"},
	}
	bind := types.BindAddr{AddrPort: netip.AddrPortFrom(netip.AddrFrom4([4]byte{127, 0, 0, 1}), 0)}

	sp := listenUDP() // reserve a port for the listener
	laddr := udpAddrPort(sp)
	sp.Close()

	for _, debug := range []bool{false, true} {
		if debug {
			// the library prints its debug dump with fmt.Printf: keep it out of the harness' own stdout
			if null, err := os.OpenFile(os.DevNull, os.O_WRONLY, 0); err == nil {
				old := os.Stdout
				os.Stdout = null
				defer func() { os.Stdout = old; null.Close() }()
			}
		}
		u := uhppote.NewUHPPOTE(bind, types.BroadcastAddr{AddrPort: udpAddrPort(bc)}, types.ListenAddr{AddrPort: laddr}, timeout, devices, debug)

		// the real listener, fed with the same byte strings
		rec := &recorder{}
		if debug {
			rec.slow = time.Millisecond // second pass: a slow application, shut down while events are still queued
		}
		q := make(chan os.Signal, 1)
		ldone := make(chan struct{})
		go func() { u.Listen(rec, q); close(ldone) }()
		time.Sleep(30 * time.Millisecond)
		evc, err := net.DialUDP("udp4", nil, net.UDPAddrFromAddrPort(laddr))
		if err != nil {
			return nil, err
		}

		content := func(cls string, ln int, serial uint32, code byte) []byte {
			b := make([]byte, ln)
			switch cls {
			case "zeros":
			case "random":
				rng.Read(b)
			case "header+random":
				rng.Read(b)
				fallthrough
			case "header":
				h := []byte{0x17, code, 0, 0, byte(serial), byte(serial >> 8), byte(serial >> 16), byte(serial >> 24)}
				copy(b, h)
			case "valid-prefix":
				m := lt.Rsp["GetStatus"].message(rng, 0x17, []byte{byte(serial), byte(serial >> 8), byte(serial >> 16), byte(serial >> 24)}, "valid", nil)
				copy(b, m)
			}
			return b
		}
		classes := []string{"zeros", "random", "header", "header+random", "valid-prefix"}
		reps := 1
		if thorough {
			reps = 4
		}
		paths := []struct {
			name   string
			serial uint32
		}{{"udp", serialU}, {"tcp", serialT}, {"bcast", serialB}, {"discovery", 0}}
		for _, ln := range lengths {
			for _, cls := range classes {
				for _, p := range paths {
					if (p.name == "bcast" || p.name == "discovery") && !thorough && cls != "header" && ln%8 != 1 {
						continue // a skipped datagram (and every discovery) costs a full timeout
					}
					panics := 0
					first := M{"t": "none"}
					for i := 0; i < reps; i++ {
						code := byte(0x20)
						if p.name == "discovery" {
							code = 0x94
						}
						b := content(cls, ln, p.serial, code)
						mu.Lock()
						next = b
						mu.Unlock()
						pn, msg := guard(func() {
							var v any
							var err error
							if p.name == "discovery" {
								v, err = u.GetDevices()
							} else {
								v, err = u.GetStatus(p.serial)
							}
							if err == nil && v != nil {
								if r := render(v, nil); r["string"] != "ok" || r["json"] != "ok" {
									panic("render")
								}
							}
						})
						if pn {
							panics++
							if first["t"] == "none" {
								first = M{"t": "panic", "entry": []string{p.name, msg}, "b": ints(b)}
							}
						}
						if p.name == "udp" {
							evc.Write(b) // and the same bytes to the listener
						}
					}
					w.put(M{"fn": "fuzz", "type": fmt.Sprintf("driver-%s-debug=%v", p.name, debug), "dir": "net", "cls": cls, "len": ln, "n": reps, "panics": panics, "first": first},
						"net-"+cls, fmt.Sprintf("%s/%v/%s/%d", p.name, debug, cls, ln))
				}
			}
		}
		// windows full of datagrams: 60 x 2048 bytes, 1200 x 64 bytes, 300 x 1 byte answer one discovery / one broadcast-to
		// call (whatever the driver keeps per datagram or per window must hold them)
		for _, bulk := range []struct{ n, ln int }{{60, 2048}, {1200, 64}, {300, 1}} {
			for _, p := range []string{"discovery", "bcast"} {
				mu.Lock()
				next, copies = content("header+random", bulk.ln, serialB+1, map[string]byte{"discovery": 0x94, "bcast": 0x20}[p]), bulk.n
				mu.Unlock()
				pn, msg := guard(func() {
					if p == "discovery" {
						u.GetDevices()
					} else {
						u.GetStatus(serialB)
					}
				})
				first := M{"t": "none"}
				if pn {
					first = M{"t": "panic", "entry": []string{p, msg}, "b": []int{bulk.n, bulk.ln}}
				}
				w.put(M{"fn": "fuzz", "type": fmt.Sprintf("driver-%s-bulk-debug=%v", p, debug), "dir": "net", "cls": "bulk", "len": bulk.ln, "n": bulk.n, "panics": map[bool]int{true: 1, false: 0}[pn], "first": first},
					"net-bulk", fmt.Sprintf("%s/%v/bulk/%d", p, debug, bulk.ln))
				mu.Lock()
				copies = 1
				mu.Unlock()
				time.Sleep(30 * time.Millisecond) // the tail of the burst goes to a closed port
			}
		}
		if !debug {
			time.Sleep(50 * time.Millisecond)
		} else {
			// a burst of valid events, and the listener is shut down while most of them are still queued behind the
			// slow application
			for i := 0; i < 24; i++ {
				evc.Write(content("valid-prefix", 64, uint32(1000+i), 0x20))
			}
			time.Sleep(3 * time.Millisecond)
		}
		evc.Close()
		q <- os.Interrupt
		select {
		case <-ldone:
		case <-time.After(5 * time.Second):
			return nil, fmt.Errorf("listener did not stop")
		}
		time.Sleep(20 * time.Millisecond)
	}
	return w.close(), nil
}
