package main

import (
	"encoding/json"
	"fmt"
	"math/rand"
	"net/netip"
	"os"
	"reflect"
	"time"

	"github.com/uhppoted/uhppote-core/types"
)

func init() { commands["c14"] = runC14 }

func secPair(t time.Time) []int { s := t.Unix(); return []int{int(s >> 20), int(s & 0xfffff)} }

func projDT(d types.DateTime) M {
	if d.IsZero() {
		return M{"t": "zero"}
	}
	return M{"t": "instant", "s": secPair(time.Time(d))}
}

func weekdaysSem(w types.Weekdays) []any {
	p := []any{}
	for d := 0; d < 7; d++ {
		p = append(p, w[time.Weekday(d)])
	}
	return p
}

func segmentsSem(s types.Segments) []any {
	p := []any{}
	for k := uint8(1); k <= 3; k++ {
		p = append(p, segPair(projHHmm(s[k].Start), projHHmm(s[k].End)))
	}
	return p
}

func cardSem(c types.Card) M {
	return M{"n": u32(c.CardNumber), "from": projDate(c.From), "to": projDate(c.To), "pin": u32(uint32(c.PIN)),
		"doors": []any{int(c.Doors[1]), int(c.Doors[2]), int(c.Doors[3]), int(c.Doors[4])}}
}

// jsonRT: marshal v, unmarshal into a fresh zero value (nil maps) and as a member of an enclosing struct
func jsonRT(typ, zone string, abs any, v any, fresh func() any, proj func(any) any) M {
	rec := M{"fn": "json_rt", "type": typ, "zone": zone, "v": abs}
	var text []byte
	if p, msg := guard(func() {
		b, err := json.Marshal(v)
		if err != nil {
			rec["enc"] = M{"t": "err"}
			return
		}
		text = b
		rec["enc"] = M{"t": "ok", "text": string(b)}
	}); p {
		rec["enc"] = M{"t": "panic", "msg": msg}
	}
	rec["dec"], rec["decm"] = M{"t": "none"}, M{"t": "na"}
	if text == nil {
		return rec
	}
	if p, msg := guard(func() {
		x := fresh()
		if err := json.Unmarshal(text, x); err != nil {
			rec["dec"] = M{"t": "err"}
		} else {
			rec["dec"] = M{"t": "ok", "v": proj(reflect.ValueOf(x).Elem().Interface())}
		}
	}); p {
		rec["dec"] = M{"t": "panic", "msg": msg}
	}
	// as a member of an enclosing struct
	if p, msg := guard(func() {
		t := reflect.TypeOf(fresh()).Elem()
		st := reflect.StructOf([]reflect.StructField{{Name: "X", Type: t, Tag: `json:"x"`}})
		outer := reflect.New(st)
		wrapped := []byte(`{"x":` + string(text) + `}`)
		if err := json.Unmarshal(wrapped, outer.Interface()); err != nil {
			rec["decm"] = M{"t": "err"}
		} else {
			rec["decm"] = M{"t": "ok", "v": proj(outer.Elem().Field(0).Interface())}
		}
	}); p {
		rec["decm"] = M{"t": "panic", "msg": msg}
	}
	return rec
}

func textEv(typ, via, text string, f func() (any, error)) M {
	out := M{"t": "err"}
	if p, msg := guard(func() {
		v, err := f()
		if err == nil {
			out = M{"t": "ok", "v": v}
		}
	}); p {
		out = M{"t": "panic", "msg": msg}
	}
	return M{"fn": "text", "type": typ, "via": via, "text": text, "cp": cps(text), "out": out}
}

func runC14(o *opts) (*summary, error) {
	w, err := newShardWriter(o.out, "pure", o.shards)
	if err != nil {
		return nil, err
	}
	zone := os.Getenv("TZ")
	rng := rand.New(rand.NewSource(o.seed))
	g := &G{r: rng, inDomain: true}
	thorough := o.tier == "thorough"
	zonedOnly := o.extraArg("zoned") == "1" // in the per-zone children only the zone dependent types run
	n := 60
	if thorough {
		n = 600
	}
	put := func(r M, class string) {
		// distinct cases: (zone, type, value or text)
		id, _ := json.Marshal([]any{r["v"], r["text"], r["s"]})
		w.put(r, class, fmt.Sprintf("%s/%v/%s", zone, r["type"], id))
	}

	// ---- zone dependent: date, date-time ---------------------------------------------------------
	// (a third of the dates fall on days on which this zone changes its offset - among them the days without a midnight)
	pool := transitionDays()
	zday := func() (int, int, int) {
		if len(pool) > 0 && rng.Intn(3) == 0 {
			d := pool[rng.Intn(len(pool))]
			return d[0], d[1], d[2]
		}
		return g.ymd()
	}
	for i := 0; i < n; i++ {
		y, m, d := zday()
		v := types.ToDate(y, time.Month(m), d)
		if rng.Intn(8) == 0 {
			v = types.Date{}
		}
		put(jsonRT("date", zone, projDate(v), v, func() any { return new(types.Date) }, func(x any) any { return projDate(x.(types.Date)) }), "json-date")
	}
	// cards (their dates go through the text parser) and the text form of dates, per zone
	for i := 0; i < n/2; i++ {
		fy, fm, fd := zday()
		ty, tm, td := zday()
		c := types.Card{CardNumber: g.u32(), From: types.ToDate(fy, time.Month(fm), fd), To: types.ToDate(ty, time.Month(tm), td), Doors: map[uint8]uint8{1: 1, 2: 0, 3: 29, 4: 1}, PIN: types.PIN(g.pin())}
		put(jsonRT("card", zone, cardSem(c), c, func() any { return new(types.Card) }, func(x any) any { return cardSem(x.(types.Card)) }), "json-card-zoned")
	}
	for i := 0; i < n/2; i++ {
		y, m, d := zday()
		s := fmt.Sprintf("%04d-%02d-%02d", y, m, d)
		put(textEv("date", "ParseDate", s, func() (any, error) { v, err := types.ParseDate(s); return projDate(v), err }), "text-date-zoned")
	}
	for i := 0; i < 3*n; i++ {
		// instants across 1850..2100 so that numeric zone abbreviations such as -03 and +0545 occur
		sec := -3786825600 + rng.Int63n(3786825600+4102444800)
		v := types.DateTime(time.Unix(sec, 0).In(time.Local))
		if rng.Intn(12) == 0 {
			v = types.DateTime{}
		}
		put(jsonRT("datetime", zone, projDT(v), v, func() any { return new(types.DateTime) }, func(x any) any { return projDT(x.(types.DateTime)) }), "json-datetime")
	}
	// instants around the zone's own transitions: the hour that occurs twice when clocks are set back is told
	// apart only by the zone abbreviation in the text (transitions that keep the abbreviation cannot be told
	// apart by this format at all and are left out)
	{
		trans := []int64{}
		t := time.Date(1900, 1, 1, 12, 0, 0, 0, time.Local)
		limit := time.Date(2100, 1, 1, 0, 0, 0, 0, time.UTC)
		for i := 0; i < 2000; i++ {
			_, end := t.ZoneBounds()
			if end.IsZero() || end.After(limit) {
				break
			}
			nb, _ := end.Add(-time.Second).Zone()
			na, _ := end.Zone()
			if nb != na {
				trans = append(trans, end.Unix())
			}
			t = end.Add(time.Hour)
		}
		k := 40
		if thorough {
			k = len(trans)
		}
		for i := 0; i < k && len(trans) > 0; i++ {
			e := trans[len(trans)-1-i%len(trans)]
			if i >= len(trans) || !thorough && i%2 == 1 {
				e = trans[rng.Intn(len(trans))]
			}
			for _, off := range []int64{-3600, -1800, -1, 0, 1, 1799, 1800, 3599, 3600} {
				v := types.DateTime(time.Unix(e+off, 0).In(time.Local))
				put(jsonRT("datetime", zone, projDT(v), v, func() any { return new(types.DateTime) }, func(x any) any { return projDT(x.(types.DateTime)) }), "json-datetime-transition")
			}
		}
	}
	if zonedOnly {
		return w.close(), nil
	}

	// ---- the other types (zone independent) ------------------------------------------------------
	for i := 0; i <= 1440; i++ {
		if !thorough && i%9 != 0 && i != 1440 {
			continue
		}
		v, p := hhmmOf(i)
		put(jsonRT("hhmm", zone, p, v, func() any { return new(types.HHmm) }, func(x any) any { return projHHmm(x.(types.HHmm)) }), "json-hhmm")
	}
	for i := 0; i < n; i++ {
		v := types.PIN(g.pin())
		put(jsonRT("pin", zone, u32(uint32(v)), v, func() any { return new(types.PIN) }, func(x any) any { return u32(uint32(x.(types.PIN))) }), "json-pin")
	}
	for i := 0; i < n; i++ {
		from, _ := g.date(false)
		to, _ := g.date(false)
		doors := map[uint8]uint8{}
		for k := uint8(1); k <= 4; k++ {
			if rng.Intn(4) != 0 {
				doors[k] = uint8(rng.Intn(256))
			}
		}
		if rng.Intn(6) == 0 {
			doors = nil
		}
		// dates are compared as civil values: normalise to local midnight the way the decoder builds them
		fy, fm, fd := time.Time(from).Date()
		ty, tm, td := time.Time(to).Date()
		c := types.Card{CardNumber: g.u32(), From: types.ToDate(fy, fm, fd), To: types.ToDate(ty, tm, td), Doors: doors, PIN: types.PIN(g.pin())}
		put(jsonRT("card", zone, cardSem(c), c, func() any { return new(types.Card) }, func(x any) any { return cardSem(x.(types.Card)) }), "json-card")
	}
	mkWeekdays := func() types.Weekdays {
		if rng.Intn(6) == 0 {
			return types.Weekdays{}
		}
		wd := types.Weekdays{}
		for d := 0; d < 7; d++ {
			if rng.Intn(3) != 0 {
				wd[time.Weekday(d)] = rng.Intn(2) == 0
			}
		}
		return wd
	}
	mkSegments := func() types.Segments {
		s := types.Segments{}
		for k := 1; k <= rng.Intn(4); k++ { // keys a prefix of 1..3
			a, _ := g.hhmm()
			b, _ := g.hhmm()
			s[uint8(k)] = types.Segment{Start: a, End: b}
		}
		return s
	}
	for i := 0; i < n; i++ {
		wd := mkWeekdays()
		put(jsonRT("weekdays", zone, weekdaysSem(wd), wd, func() any { return new(types.Weekdays) }, func(x any) any { return weekdaysSem(x.(types.Weekdays)) }), "json-weekdays")
		sg := mkSegments()
		put(jsonRT("segments", zone, segmentsSem(sg), sg, func() any { return new(types.Segments) }, func(x any) any { return segmentsSem(x.(types.Segments)) }), "json-segments")
		fy, fm, fd := g.ymd()
		ty, tm, td := g.ymd()
		// (open-ended validity: the zero date at either end, or both - "from:-", "-:to" are values like any other)
		dFrom, dTo := types.ToDate(fy, time.Month(fm), fd), types.ToDate(ty, time.Month(tm), td)
		switch i % 7 {
		case 3:
			dFrom = types.Date{}
		case 4:
			dTo = types.Date{}
		case 5:
			dFrom, dTo = types.Date{}, types.Date{}
		}
		tp := types.TimeProfile{ID: uint8(rng.Intn(256)), LinkedProfileID: uint8(rng.Intn(256)), From: dFrom, To: dTo, Weekdays: mkWeekdays(), Segments: mkSegments()}
		ptp := func(x types.TimeProfile) any {
			return M{"id": int(x.ID), "linked": int(x.LinkedProfileID), "from": projDate(x.From), "to": projDate(x.To), "weekdays": weekdaysSem(x.Weekdays), "segments": segmentsSem(x.Segments)}
		}
		put(jsonRT("timeprofile", zone, ptp(tp), tp, func() any { return new(types.TimeProfile) }, func(x any) any { return ptp(x.(types.TimeProfile)) }), "json-timeprofile")
		start, _ := g.hhmm()
		tk := types.Task{Task: types.TaskType(rng.Intn(13)), Door: uint8(rng.Intn(256)), From: dFrom, To: dTo, Weekdays: mkWeekdays(), Start: start, Cards: uint8(rng.Intn(256))}
		ptk := func(x types.Task) any {
			return M{"task": int(x.Task), "door": int(x.Door), "from": projDate(x.From), "to": projDate(x.To), "weekdays": weekdaysSem(x.Weekdays), "start": projHHmm(x.Start), "cards": int(x.Cards)}
		}
		put(jsonRT("task", zone, ptk(tk), tk, func() any { return new(types.Task) }, func(x any) any { return ptk(x.(types.Task)) }), "json-task")
	}
	for tt := 0; tt < 13; tt++ {
		v := types.TaskType(tt)
		put(jsonRT("tasktype", zone, tt, v, func() any { return new(types.TaskType) }, func(x any) any { return int(x.(types.TaskType)) }), "json-tasktype")
	}
	for cs := 1; cs <= 3; cs++ {
		v := types.ControlState(cs)
		put(jsonRT("controlstate", zone, cs, v, func() any { return new(types.ControlState) }, func(x any) any { return int(x.(types.ControlState)) }), "json-controlstate")
	}
	for i := 0; i < n; i++ {
		v := types.Version(rng.Intn(65536))
		if i < 4 {
			v = []types.Version{0, 0x0892, 0xffff, 0x000a}[i]
		}
		put(jsonRT("version", zone, int(v), v, func() any { return new(types.Version) }, func(x any) any { return int(x.(types.Version)) }), "json-version")
		mac := make([]byte, 6)
		rng.Read(mac)
		mv := types.MacAddress(mac)
		put(jsonRT("mac", zone, ints(mac), mv, func() any { return new(types.MacAddress) }, func(x any) any { return ints(x.(types.MacAddress)) }), "json-mac")
	}
	pap := func(ap netip.AddrPort) any { return M{"ip": ints(ap.Addr().AsSlice()), "port": int(ap.Port())} }
	for i := 0; i < n; i++ {
		ip := netip.AddrFrom4([4]byte{byte(rng.Intn(256)), byte(rng.Intn(256)), byte(rng.Intn(256)), byte(rng.Intn(256))})
		port := func(ok func(int) bool) uint16 {
			for {
				p := []int{0, 1, 59999, 60000, 60001, 65535, rng.Intn(65536)}[rng.Intn(7)]
				if ok(p) {
					return uint16(p)
				}
			}
		}
		b := types.BindAddr{AddrPort: netip.AddrPortFrom(ip, port(func(p int) bool { return p != 60000 }))}
		put(jsonRT("bindaddr", zone, pap(b.AddrPort), b, func() any { return new(types.BindAddr) }, func(x any) any { return pap(x.(types.BindAddr).AddrPort) }), "json-addr")
		bc := types.BroadcastAddr{AddrPort: netip.AddrPortFrom(ip, port(func(p int) bool { return p != 0 }))}
		put(jsonRT("broadcastaddr", zone, pap(bc.AddrPort), bc, func() any { return new(types.BroadcastAddr) }, func(x any) any { return pap(x.(types.BroadcastAddr).AddrPort) }), "json-addr")
		ls := types.ListenAddr{AddrPort: netip.AddrPortFrom(ip, port(func(p int) bool { return p != 0 && p != 60000 }))}
		put(jsonRT("listenaddr", zone, pap(ls.AddrPort), ls, func() any { return new(types.ListenAddr) }, func(x any) any { return pap(x.(types.ListenAddr).AddrPort) }), "json-addr")
		ca := types.ControllerAddr{AddrPort: netip.AddrPortFrom(ip, port(func(p int) bool { return p != 0 }))}
		put(jsonRT("controlleraddr", zone, pap(ca.AddrPort), ca, func() any { return new(types.ControllerAddr) }, func(x any) any { return pap(x.(types.ControllerAddr).AddrPort) }), "json-addr")
	}

	// ---- reject / parse side: texts --------------------------------------------------------------
	dates := []string{"", "2023-02-30", "2023-13-01", "2023-00-10", "2023-01-00", "2023-01-32", "2023-04-31", "2024-02-29", "2023-02-29", "1900-02-29", "2000-02-29",
		"2023-1-1", "20230101", "2023-01-01 ", " 2023-01-01", "2023/01/01", "23-01-01", "2023-01-01T00:00:00Z", "abcd-ef-gh", "+023-01-01", "2023-+1-01", "2023-01-+1", "2023-01- 1", "2023- 1-01", "-023-01-01", "2023-01-0x", "２０２３-01-01", "9999-12-31", "0001-01-02", "0000-01-01", "2023-12-31", "2023-10-31"}
	for i := 0; i < n; i++ {
		dates = append(dates, fmt.Sprintf("%04d-%02d-%02d", 1+rng.Intn(9999), rng.Intn(15), rng.Intn(34)))
	}
	for _, s := range dates {
		s := s
		put(textEv("date", "ParseDate", s, func() (any, error) { v, err := types.ParseDate(s); return projDate(v), err }), "text-date")
		put(textEv("date-json", "Date.UnmarshalJSON", s, func() (any, error) {
			var v types.Date
			b, _ := json.Marshal(s)
			err := v.UnmarshalJSON(b)
			return projDate(v), err
		}), "text-date")
	}
	// the same date texts as the start / end date of a card document (and the document without the member)
	for i, s := range append([]string{"<absent>"}, dates...) {
		s := s
		which := []string{"start-date", "end-date"}[i%2]
		put(textEv("card-date", "Card.UnmarshalJSON/"+which, map[bool]string{true: "", false: s}[s == "<absent>"], func() (any, error) {
			c := types.Card{CardNumber: 8165538, From: types.ToDate(2023, 1, 1), To: types.ToDate(2023, 12, 31), Doors: map[uint8]uint8{1: 1, 2: 0, 3: 29, 4: 1}, PIN: 7531}
			b, err := json.Marshal(c)
			if err != nil {
				return nil, nil // (no document to edit: nothing to judge)
			}
			doc := map[string]any{}
			if err := json.Unmarshal(b, &doc); err != nil {
				return nil, nil
			}
			if s == "<absent>" {
				delete(doc, which)
			} else {
				doc[which] = s
			}
			b, _ = json.Marshal(doc)
			var v types.Card
			if err := json.Unmarshal(b, &v); err != nil {
				return nil, err
			}
			if which == "start-date" {
				return projDate(v.From), nil
			}
			return projDate(v.To), nil
		}), "text-card-date")
	}
	hh := []string{"", "24:00", "24:01", "23:60", "00:60", "7:30", "07:3", "0730", "07:30:00", " 07:30", "07:30 ", "ab:cd", "-1:30", "12:5x",
		"+7:30", "-0:30", "07:+5", "07:-0", " 7:30", "07: 5", "0x:30", "07:3x", "+0:00", "2 :00"}
	for h := 0; h < 30; h++ {
		for m := 0; m < 70; m++ {
			if thorough || (h+m)%3 == 0 || m >= 58 || h >= 23 {
				hh = append(hh, fmt.Sprintf("%02d:%02d", h, m))
			}
		}
	}
	for _, s := range hh {
		s := s
		put(textEv("hhmm", "HHmmFromString", s, func() (any, error) {
			v, err := types.HHmmFromString(s)
			if err != nil || v == nil {
				return nil, fmt.Errorf("err")
			}
			return projHHmm(*v), nil
		}), "text-hhmm")
		put(textEv("hhmm", "HHmm.UnmarshalJSON", s, func() (any, error) {
			var v types.HHmm
			b, _ := json.Marshal(s)
			err := v.UnmarshalJSON(b)
			return projHHmm(v), err
		}), "text-hhmm")
	}
	clocks := []string{"", "24:00:00", "23:59:60", "23:60:00", "7:05:09", "07:05", "07:05:09 ", "ab:cd:ef",
		// (fields of the right width that are no two digits: a sign, a blank, a letter)
		"+1:02:03", "12:+4:05", "12:34:-0", "-0:00:00", "-1:02:03", " 1:02:03", "12: 4:05", "12:34: 5", "1x:02:03", "12:34:5x", "0x:00:00", "１２:34:56"}
	for i := 0; i < 3*n; i++ {
		clocks = append(clocks, fmt.Sprintf("%02d:%02d:%02d", rng.Intn(27), rng.Intn(64), rng.Intn(64)))
	}
	for _, s := range clocks {
		s := s
		put(textEv("systime", "TimeFromString", s, func() (any, error) {
			v, err := types.TimeFromString(s)
			if err != nil || v == nil {
				return nil, fmt.Errorf("err")
			}
			h, mi, sec := time.Time(*v).Clock()
			return M{"h": h, "mi": mi, "s": sec}, nil
		}), "text-systime")
	}
	pins := []string{"", "0", "1", "999999", "1000000", "0000001", "12345", "123456", "1234567", "12345678", "12a45", "-1", " 123", "123 ", "1.5", "１２３"}
	for _, s := range pins {
		s := s
		put(textEv("pin", "PIN.UnmarshalJSON", s, func() (any, error) {
			var v types.PIN
			b, _ := json.Marshal(s)
			err := v.UnmarshalJSON(b)
			return u32(uint32(v)), err
		}), "text-pin")
	}
	for _, s := range []string{"normally open", "normally closed", "controlled", "", "Controlled", "normally  open", "open", "unknown", "NORMALLY OPEN", "controlled "} {
		s := s
		put(textEv("controlstate", "ControlState.UnmarshalJSON", s, func() (any, error) {
			var v types.ControlState
			b, _ := json.Marshal(s)
			err := v.UnmarshalJSON(b)
			return int(v), err
		}), "text-controlstate")
	}
	names := []string{"CONTROL DOOR", "UNLOCK DOOR", "LOCK DOOR", "DISABLE TIME PROFILE", "ENABLE TIME PROFILE", "ENABLE CARD, NO PASSWORD", "ENABLE CARD+IN PASSWORD",
		"ENABLE CARD+PASSWORD", "ENABLE MORE CARDS", "DISABLE MORE CARDS", "TRIGGER ONCE", "DISABLE PUSH BUTTON", "ENABLE PUSH BUTTON"}
	tts := []string{"", "door", "lock", "unlock", "control doors", "trigger", "enable", "x"}
	for _, nm := range names {
		tts = append(tts, nm, fmt.Sprintf(" %s ", nm), fmt.Sprintf("%s", lowerSpaced(nm)), nm+"x")
	}
	for _, s := range tts {
		s := s
		put(textEv("tasktype", "TaskType.UnmarshalJSON(string)", s, func() (any, error) {
			var v types.TaskType
			b, _ := json.Marshal(s)
			err := v.UnmarshalJSON(b)
			return int(v), err
		}), "text-tasktype")
		put(textEv("tasktype", "TaskType.UnmarshalTSV", s, func() (any, error) {
			var v types.TaskType
			r, err := v.UnmarshalTSV(s)
			if err != nil {
				return nil, err
			}
			return int(r.(types.TaskType)), nil
		}), "text-tasktype")
	}
	// (0..20, and numbers that are a task type only after being cut down to a byte, a short or a word)
	ttNumbers := []string{}
	for k := 0; k <= 20; k++ {
		ttNumbers = append(ttNumbers, fmt.Sprint(k))
	}
	for _, base := range []uint64{256, 512, 65536, 131072, 1 << 32, 1 << 40} {
		for _, low := range []uint64{0, 1, 2, 7, 13, 14} {
			ttNumbers = append(ttNumbers, fmt.Sprint(base+low))
		}
	}
	ttNumbers = append(ttNumbers, "255", "1000", "18446744073709551617", "-1", "-243")
	for _, s := range ttNumbers {
		s := s
		put(textEv("tasktype", "TaskType.UnmarshalJSON(number)", s, func() (any, error) {
			var v types.TaskType
			err := v.UnmarshalJSON([]byte(s))
			return int(v), err
		}), "text-tasktype")
		put(textEv("tasktype", "TaskType.UnmarshalTSV", s, func() (any, error) {
			var v types.TaskType
			r, err := v.UnmarshalTSV(s)
			if err != nil {
				return nil, err
			}
			return int(r.(types.TaskType)), nil
		}), "text-tasktype")
	}
	for _, s := range []string{"any", "ANY", "Any", "Wiegand-26", "wiegand-26", "wiegand26", "Wiegand 26", "WIEGAND-26", "", "wiegand", "26", "wiegand-34", "anything", "company", "none", "w26", "wiegand_26"} {
		s := s
		put(textEv("cardformat", "CardFormatFromString", s, func() (any, error) { v, err := types.CardFormatFromString(s); return int(v), err }), "text-cardformat")
		put(textEv("cardformat", "CardFormat.UnmarshalConf", s, func() (any, error) {
			var v types.CardFormat
			r, err := v.UnmarshalConf("k", map[string]string{"k": s})
			if err != nil {
				return nil, err
			}
			return int(r.(types.CardFormat)), nil
		}), "text-cardformat")
	}
	// addresses violating the port rules, through JSON
	for _, role := range addrRoles {
		for _, s := range []string{"192.168.1.100:0", "192.168.1.100:60000", "192.168.1.100:60001", "192.168.1.100", "0.0.0.0:1", "1.2.3", "", "x",
			// (ports that are no ports, texts that are not plain decimal, texts without a dotted quad)
			"192.168.1.100:65535", "192.168.1.100:65536", "192.168.1.100:65537", "192.168.1.100:70000", "192.168.1.100:99999", "192.168.1.100:125536", "192.168.1.100:4294967297",
			"192.168.1.100:0x50", "192.168.1.100:+80", "192.168.1.100: 80", "192.168.1.100:", " 192.168.1.100:60001", "192.168.1.100:60001 ", "1:2:3:4::", "[::1]:60001", "::", "localhost:60001", "255.255.255.255:65535", "0.0.0.0:0", "0.0.0.0:60000"} {
			role, s := role, s
			rec := M{"fn": "parse", "role": role, "s": cps(s), "text": s, "via": "json"}
			out := M{"t": "err"}
			if p, msg := guard(func() {
				b, _ := json.Marshal(s)
				var ap netip.AddrPort
				var err error
				switch role {
				case "bind":
					var v types.BindAddr
					err = v.UnmarshalJSON(b)
					ap = v.AddrPort
				case "broadcast":
					var v types.BroadcastAddr
					err = v.UnmarshalJSON(b)
					ap = v.AddrPort
				case "listen":
					var v types.ListenAddr
					err = v.UnmarshalJSON(b)
					ap = v.AddrPort
				default:
					var v types.ControllerAddr
					err = v.UnmarshalJSON(b)
					ap = v.AddrPort
				}
				if err == nil {
					out = M{"t": "ok", "ip": ints(ap.Addr().AsSlice()), "port": int(ap.Port())}
				}
			}); p {
				out = M{"t": "panic", "msg": msg}
			}
			rec["out"] = out
			put(rec, "text-addr-json")
		}
	}
	return w.close(), nil
}

func lowerSpaced(s string) string {
	b := []byte{}
	for _, c := range []byte(s) {
		if c >= 'A' && c <= 'Z' {
			c += 32
		}
		b = append(b, c)
		if c == ' ' {
			b = append(b, ' ')
		}
	}
	return string(b)
}
