package main

import (
	"bufio"
	"encoding/json"
	"fmt"
	"math/rand"
	"net/netip"
	"os"
	"path/filepath"
	"strings"
	"sync"
	"time"

	"github.com/uhppoted/uhppote-core/types"
	"github.com/uhppoted/uhppote-core/uhppote"
)

func init() { commands["c17"] = runC17 }

var insActions = []string{"mutate_caller", "mutate_returned", "call", "scribble", "mutate_result", "recheck", "clone", "events"}

type heldVal struct {
	v       any
	mutated bool
}

// mutateValue changes whatever mutable storage a returned value exposes
func mutateValue(v any, rng *rand.Rand) {
	switch r := v.(type) {
	case *types.Device:
		if r != nil {
			for i := range r.IpAddress {
				r.IpAddress[i] ^= 0x5a
			}
			for i := range r.MacAddress {
				r.MacAddress[i] ^= 0x5a
			}
			for i := range r.Gateway {
				r.Gateway[i] ^= 0x11
			}
		}
	case *types.Card:
		if r != nil {
			for k := range r.Doors {
				r.Doors[k] ^= 0x5a
			}
			r.Doors[9] = 9
		}
	case *types.Status:
		if r != nil {
			for k := range r.DoorState {
				r.DoorState[k] = !r.DoorState[k]
			}
			r.DoorButton[7] = true
		}
	case *types.TimeProfile:
		if r != nil {
			for k := range r.Weekdays {
				r.Weekdays[k] = !r.Weekdays[k]
			}
			delete(r.Segments, 1)
		}
	case []types.Device:
		for i := range r {
			for j := range r[i].IpAddress {
				r[i].IpAddress[j] ^= 0x5a
			}
			for j := range r[i].MacAddress {
				r[i].MacAddress[j] ^= 0x5a
			}
		}
	}
}

// keepListener keeps the pointer it is handed by OnEvent (and what the status looked like at that moment)
type keepListener struct {
	mu   sync.Mutex
	kept []*types.Status
	at   []M
}

func (l *keepListener) OnConnected() {}
func (l *keepListener) OnEvent(s *types.Status) {
	l.mu.Lock()
	l.kept = append(l.kept, s)
	l.at = append(l.at, projRet(s, nil))
	l.mu.Unlock()
}
func (l *keepListener) OnError(err error) bool { return true }
func (l *keepListener) count() int {
	l.mu.Lock()
	defer l.mu.Unlock()
	return len(l.kept)
}

func insHistory(id string, rng *rand.Rand, lt *layoutTables, actions []string) M {
	ev := []any{}
	const target = 405419896
	cfgChoices := []clientCfg{
		{Devices: []devCfg{{Name: "alpha", Serial: target, Addr: "192.168.1.100:60000", Proto: "udp"}, {Name: "beta", Serial: 303986753, Addr: "192.168.1.101:60001", Proto: "tcp"}}},
		{Broadcast: "192.168.1.255:60000", Devices: []devCfg{{Name: "alpha", Serial: target, Addr: "192.168.1.100:60000", Proto: "tcp"}}},
		{Bind: "192.168.1.10:0", Broadcast: "192.168.1.255:60005", Devices: []devCfg{{Name: "gamma", Serial: 201020304, Addr: "192.168.1.102:60000", Proto: "udp"}, {Name: "alpha", Serial: target, Addr: "", Proto: "udp"}}},
	}
	// ... and lists with entries that are no controllers (id 0) in front of / between / behind the real ones
	spare := devCfg{Name: "spare", Serial: 0, Addr: "192.168.1.99:60000", Proto: "udp"}
	cfgChoices = append(cfgChoices,
		clientCfg{Devices: []devCfg{spare, cfgChoices[0].Devices[0], cfgChoices[0].Devices[1]}},
		clientCfg{Broadcast: "192.168.1.255:60000", Devices: []devCfg{cfgChoices[0].Devices[0], spare, cfgChoices[0].Devices[1], spare}})
	cfg := cfgChoices[rng.Intn(len(cfgChoices))]
	cfg.Listen = "127.0.0.1:60001"
	d := &stubDriver{reuse: true}
	// the list the caller hands to the constructor is the caller's: it reads the same afterwards
	projCaller := func(ds []uhppote.Device) []any {
		out := []any{}
		for _, x := range ds {
			out = append(out, M{"name": x.Name, "serial": u32(x.DeviceID), "addr": x.Address.String(), "proto": x.Protocol, "doors": fmt.Sprint(x.Doors)})
		}
		return out
	}
	devices := cfg.deviceList()
	if rng.Intn(2) == 0 {
		devices = append(make([]uhppote.Device, 0, len(devices)+3), devices...) // spare capacity behind the list
	}
	callerBefore := projCaller(devices)
	u := cfg.buildFrom(devices, func(uhppote.Driver) uhppote.Driver { return d })
	ev = append(ev, M{"ev": "construct", "cfg": projCfgRouted(cfg), "caller_before": callerBefore, "caller_after": projCaller(devices)})
	g := &G{r: rng, inDomain: true}
	gOut := &G{r: rng, inDomain: false}
	held := []*heldVal{}
	serials := []uint32{target, 303986753, 201020304, 99}
	ops := []string{"GetDevice", "GetCardByIndex", "GetStatus", "GetTimeProfile", "GetListener", "GetEvent", "PutCard", "SetTimeProfile", "AddTask", "ActivateKeypads", "GetDevices", "GetTime", "SetDoorPasscodes", "SetAddress", "SetListener"}

	for _, act := range actions {
		a := act
		if strings.HasPrefix(act, "call:") {
			a = "call"
		}
		if strings.HasPrefix(act, "twice:") {
			a = "twice"
		}
		switch a {
		case "mutate_caller":
			// the caller's own slice, its elements and their door-name slices
			for i := range devices {
				devices[i].Address = types.ControllerAddr{AddrPort: netip.MustParseAddrPort("10.9.8.7:1234")}
				devices[i].Protocol = []string{"tcp", "udp"}[rng.Intn(2)]
				devices[i].Name = "mutated"
				if rng.Intn(2) == 0 {
					devices[i].DeviceID = 777
				}
				for j := range devices[i].Doors {
					devices[i].Doors[j] = "zzz"
				}
			}
			ev = append(ev, M{"ev": "mutate_caller"})
		case "mutate_returned":
			m := u.DeviceList()
			for k, v := range m {
				v.Address = types.ControllerAddr{AddrPort: netip.MustParseAddrPort("10.1.1.1:4321")}
				v.Protocol = "tcp"
				for j := range v.Doors {
					v.Doors[j] = "yyy"
				}
				m[k] = v
				if rng.Intn(2) == 0 {
					delete(m, k)
				}
			}
			m[target] = uhppote.Device{DeviceID: target, Address: types.ControllerAddr{AddrPort: netip.MustParseAddrPort("10.2.2.2:2222")}, Protocol: "tcp"}
			ev = append(ev, M{"ev": "mutate_returned"})
			// what the client reports as configured is still the snapshot
			ser := []any{}
			have := u.DeviceList()
			for _, dc := range cfg.Devices {
				if _, ok := have[dc.Serial]; ok && dc.Serial != 0 {
					ser = append(ser, u32(dc.Serial))
				}
			}
			ev = append(ev, M{"ev": "devicelist", "serials": ser})
		case "call":
			op := ops[rng.Intn(len(ops))]
			serial := serials[rng.Intn(len(serials))]
			forced := false
			if strings.HasPrefix(act, "call:") { // this operation, for the configured target, answered "succeeded"
				op, serial, forced = act[5:], target, true
			}
			cs := g.call(op, serial)
			if !forced && rng.Intn(4) == 0 {
				// arguments outside the accepted domain too (partial / nil maps, missing segments, zero dates): a refused
				// call must leave its arguments alone just like an accepted one
				cs = gOut.call(op, serial)
			}
			l, ok := lt.Rsp[op]
			d.script = func(method string, req []byte) [][]byte {
				if !ok {
					return nil
				}
				m := l.message(rng, 0x17, req[4:8], "valid", nil)
				switch op {
				case "GetCardByID":
					copy(m[8:12], req[8:12])
				case "GetTimeProfile":
					m[8] = req[8]
				}
				if forced && !valueAt8[op] {
					m[8] = 1
				}
				if op == "GetDevices" {
					return [][]byte{m, l.message(rng, 0x17, []byte{1, 2, 3, 4}, "valid", nil)}
				}
				return [][]byte{m}
			}
			d.reset()
			var v any
			var err error
			pn, _ := guard(func() { v, err = cs.call(u) })
			// the arguments, re-projected from the values the caller still holds
			after := cs.args
			if cs.reproject != nil {
				after = cs.reproject()
			}
			route := M{"m": "none"}
			for _, c := range d.calls {
				route = M{"m": c.method, "ip": ints(c.ip), "port": c.port}
			}
			ret := M{"t": "panic"}
			if !pn {
				ret = projRet(v, err)
			}
			ev = append(ev, M{"ev": "call", "op": op, "a": cs.args, "a_after": after, "route": route, "ret": ret})
			if !pn && err == nil && ret["t"] != "nil" {
				held = append(held, &heldVal{v: v})
			}
		case "events":
			// two or three events through the listener (fed from one reused, scribbled-over buffer); the caller KEEPS the
			// *types.Status it was handed: a later event must not change an earlier one
			evs := [][]byte{}
			for k := 0; k < 2+rng.Intn(2); k++ {
				evs = append(evs, lt.Event.message(rng, 0x17, []byte{byte(1 + rng.Intn(255)), byte(rng.Intn(256)), 3, 4}, "valid", nil))
			}
			d.events = evs
			kl := &keepListener{}
			q := make(chan os.Signal, 1)
			done := make(chan struct{})
			go func() { u.Listen(kl, q); close(done) }()
			for t0 := time.Now(); kl.count() < len(evs) && time.Since(t0) < 2*time.Second; {
				time.Sleep(200 * time.Microsecond)
			}
			q <- os.Interrupt
			select {
			case <-done:
			case <-time.After(2 * time.Second):
			}
			kl.mu.Lock()
			for i, st := range kl.kept {
				ev = append(ev, M{"ev": "event", "ret": kl.at[i]})
				held = append(held, &heldVal{v: st})
			}
			kl.mu.Unlock()
		case "scribble":
			for i := range d.scratch {
				d.scratch[i] = 0xee
			}
			// ... and the transport serves another call from the same buffer
			d.script = func(method string, req []byte) [][]byte {
				m := make([]byte, 64)
				rng.Read(m)
				return [][]byte{m}
			}
			u.GetCards(4242)
			ev = append(ev, M{"ev": "scribble"})
		case "twice":
			// the same call answered twice by byte-identical replies, the first result edited by the caller in between:
			// a result is a function of its reply - results share no storage with each other or with the library
			op := act[6:]
			l, ok := lt.Rsp[op]
			if !ok {
				break
			}
			cs := g.call(op, target)
			var reply []byte
			d.script = func(method string, req []byte) [][]byte {
				if reply == nil {
					reply = l.message(rng, 0x17, req[4:8], "valid", nil)
					switch op {
					case "GetCardByID":
						copy(reply[8:12], req[8:12])
					case "GetTimeProfile":
						reply[8] = req[8]
					}
					if allZero := rng.Intn(2) == 0; allZero { // (the degenerate values: all segments 00:00, no doors, ...)
						for _, f := range l.Fields {
							if f.Kind == "hhmm" || f.Kind == "hhmmp" || f.Kind == "u8" || f.Kind == "bool" {
								if f.Off >= 9 {
									for i := 0; i < width(f.Kind); i++ {
										reply[f.Off+i] = 0
									}
								}
							}
						}
					}
				}
				return [][]byte{append([]byte{}, reply...)}
			}
			var v1, v2 any
			var e1, e2 error
			first, second := M{"t": "panic"}, M{"t": "panic"}
			d.reset()
			if pn, _ := guard(func() { v1, e1 = cs.call(u) }); !pn {
				first = projRet(v1, e1)
				guard(func() { mutateValue(v1, rng) })
			}
			d.reset()
			if pn, _ := guard(func() { v2, e2 = cs.call(u) }); !pn {
				second = projRet(v2, e2)
			}
			d.script = nil
			ev = append(ev, M{"ev": "same_reply", "op": op, "first": first, "second": second})
		case "mutate_result":
			if len(held) > 0 {
				h := held[rng.Intn(len(held))]
				mutateValue(h.v, rng)
				h.mutated = true
			}
			ev = append(ev, M{"ev": "mutate_result"})
		case "recheck":
			for i, h := range held {
				var now M
				if pn, msg := guard(func() { now = projRet(h.v, nil) }); pn {
					now = M{"t": "panic", "msg": msg}
				}
				ev = append(ev, M{"ev": "recheck", "ix": i + 1, "now": now, "mutated": h.mutated})
			}
		case "clone":
			from, pf := g.date(true)
			to, pt := g.date(true)
			doors, _ := g.doors()
			card := types.Card{CardNumber: g.u32(), From: from, To: to, Doors: doors, PIN: types.PIN(g.pin())}
			_, _ = pf, pt
			// equality of cards is by their door look-ups 1..4 (an absent door is 0)
			sem := func(c *types.Card) M {
				m := projCard(c)
				m["doors"] = []any{[]any{1, int(c.Doors[1])}, []any{2, int(c.Doors[2])}, []any{3, int(c.Doors[3])}, []any{4, int(c.Doors[4])}}
				return m
			}
			orig := sem(&card)
			// (rendering the card - String, JSON - is not a way to change it)
			guard(func() { _ = card.String(); json.Marshal(card); json.Marshal(&card) })
			clone := card.Clone()
			pc := sem(&clone)
			for k := range clone.Doors {
				clone.Doors[k] ^= 0x5a
			}
			if clone.Doors != nil {
				clone.Doors[1] = 99
			}
			after := sem(&card)
			ev = append(ev, M{"ev": "clone", "what": "card", "orig": orig, "clone": pc, "orig_after": after})

			// (every protocol string and a nil / foreign TimeZone: the clone is EQUAL to the original, field by field)
			zones := []*time.Location{time.UTC, nil, time.Local, locs[rng.Intn(len(locs))]}
			dev := uhppote.Device{Name: "n", DeviceID: 5, Address: types.ControllerAddr{AddrPort: netip.MustParseAddrPort("1.2.3.4:5")}, Doors: []string{"a", "b", "c", "d"},
				TimeZone: zones[rng.Intn(len(zones))], Protocol: []string{"udp", "tcp", "any", "", "TCP"}[rng.Intn(5)]}
			pd := func(x uhppote.Device) M {
				tz := "nil"
				if x.TimeZone != nil {
					tz = x.TimeZone.String()
				}
				return M{"name": x.Name, "id": int(x.DeviceID), "addr": x.Address.String(), "doors": fmt.Sprint(x.Doors), "proto": x.Protocol, "tz": tz}
			}
			o1 := pd(dev)
			dc := dev.Clone()
			c1 := pd(dc)
			for i := range dc.Doors {
				dc.Doors[i] = "x"
			}
			ev = append(ev, M{"ev": "clone", "what": "device", "orig": o1, "clone": c1, "orig_after": pd(dev)})
		}
	}
	// final re-check of everything held
	for i, h := range held {
		var now M
		if pn, msg := guard(func() { now = projRet(h.v, nil) }); pn {
			now = M{"t": "panic", "msg": msg}
		}
		ev = append(ev, M{"ev": "recheck", "ix": i + 1, "now": now, "mutated": h.mutated})
	}
	return M{"id": id, "ev": ev, "actions": actions}
}

func runC17(o *opts) (*summary, error) {
	lt, err := loadLayouts(o.extraArg("layouts"))
	if err != nil {
		return nil, err
	}
	rng := rand.New(rand.NewSource(o.seed))
	thorough := o.tier == "thorough"
	maxLen := 3
	if thorough {
		maxLen = 4
	}
	hists := []M{}
	var gen func(prefix []string, n int)
	gen = func(prefix []string, n int) {
		if len(prefix) > 0 {
			hists = append(hists, insHistory(fmt.Sprintf("H%d", len(hists)), rng, lt, append(append([]string{}, prefix...), "call", "recheck")))
		}
		if n == 0 {
			return
		}
		for _, a := range insActions {
			gen(append(prefix, a), n-1)
		}
	}
	gen(nil, maxLen)
	// what an operation that SUCCEEDED leaves behind in the client: every operation once for the configured target, answered
	// "succeeded", then further calls for the same controller - routed by the snapshot like the first - and the configuration
	// the client reports
	for r := 0; r < map[bool]int{false: 2, true: 10}[thorough]; r++ {
		for _, op := range allOps {
			hists = append(hists, insHistory(fmt.Sprintf("S%d-%s", r, op), rng, lt, []string{"call:" + op, "call:GetCards", "call:" + op, "mutate_returned", "call:GetStatus", "recheck"}))
		}
		for k, op := range []string{"GetTimeProfile", "GetCardByID", "GetCardByIndex", "GetStatus", "GetDevice", "GetTimeProfile", "GetTimeProfile", "GetStatus"} {
			hists = append(hists, insHistory(fmt.Sprintf("T%d-%d-%s", r, k, op), rng, lt, []string{"twice:" + op, "twice:" + op, "recheck"}))
		}
	}
	nr := 300
	if thorough {
		nr = 5000
	}
	for i := 0; i < nr; i++ {
		acts := []string{}
		for k := 0; k < 20; k++ {
			acts = append(acts, insActions[rng.Intn(len(insActions))])
		}
		hists = append(hists, insHistory(fmt.Sprintf("R%d", i), rng, lt, acts))
	}
	files := []string{}
	per := (len(hists) + o.shards - 1) / o.shards
	var sample any
	for s := 0; s*per < len(hists); s++ {
		name := filepath.Join(o.out, fmt.Sprintf("ins-%02d.ndjson", s))
		fh, err := os.Create(name)
		if err != nil {
			return nil, err
		}
		bw := bufio.NewWriter(fh)
		for _, h := range hists[s*per : min(len(hists), (s+1)*per)] {
			b, _ := json.Marshal(h)
			bw.Write(b)
			bw.WriteByte('\n')
			if sample == nil {
				json.Unmarshal(b, &sample)
			}
		}
		bw.Flush()
		fh.Close()
		files = append(files, name)
	}
	nev := 0
	for _, h := range hists {
		nev += len(h["ev"].([]any))
	}
	return &summary{Files: files, Records: len(hists), Distinct: len(hists), Samples: []any{sample}, Extra: map[string]any{"events": nev}}, nil
}
