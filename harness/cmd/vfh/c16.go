package main

import (
	"fmt"
	"math/rand"
	"time"

	"github.com/uhppoted/uhppote-core/types"
)

func init() { commands["c16"] = runC16 }

func cmpCode(before, after, equals bool) int {
	c := 0
	if before {
		c |= 1
	}
	if after {
		c |= 2
	}
	if equals {
		c |= 4
	}
	return c
}

func runC16(o *opts) (*summary, error) {
	w, err := newShardWriter(o.out, "pure", o.shards)
	if err != nil {
		return nil, err
	}
	rng := rand.New(rand.NewSource(o.seed))
	g := &G{r: rng, inDomain: true}
	thorough := o.tier == "thorough"

	// HH:mm: all 1441^2 pairs (quick: every 5th left operand against all right operands)
	all := make([]int, 1441)
	for i := range all {
		all[i] = i
	}
	step := 5
	if thorough {
		step = 1
	}
	for a := 0; a <= 1440; a += step {
		ha, _ := hhmmOf(a)
		if a < 1440 && a%2 == 1 {
			// the same value through the other constructor
			ha = types.HHmmFromTime(time.Date(2000+rng.Intn(50), time.Month(1+rng.Intn(12)), 1+rng.Intn(28), a/60, a%60, rng.Intn(60), rng.Intn(1000), locs[rng.Intn(len(locs))]))
		}
		codes := make([]int, 1441)
		for b := 0; b <= 1440; b++ {
			hb, _ := hhmmOf(b)
			codes[b] = cmpCode(ha.Before(hb), ha.After(hb), ha.Equals(hb))
		}
		w.put(M{"fn": "hhmm_row", "a": a, "bs": all, "codes": codes}, "hhmm", fmt.Sprintf("h%d", a))
	}

	// dates: adjacent days of 4 years (leap, century), month/year boundaries, 0001/9999, random grid
	days := [][3]int{}
	for _, y := range []int{1900, 2000, 2023, 2024, 400, 2400} {
		for d := time.Date(y, 1, 1, 0, 0, 0, 0, time.UTC); d.Year() == y; d = d.AddDate(0, 0, 1) {
			days = append(days, [3]int{d.Year(), int(d.Month()), d.Day()})
		}
	}
	for _, d := range [][3]int{{1, 1, 1}, {1, 1, 2}, {1, 1, 3}, {1, 12, 31}, {2, 1, 1}, {9998, 12, 31}, {9999, 1, 1}, {9999, 12, 30}, {9999, 12, 31}, {1999, 12, 31}, {2001, 1, 1}, {2022, 12, 31}, {2025, 1, 1}} {
		days = append(days, d)
	}
	mk := func(d [3]int) (types.Date, M) {
		// the first day of the range is also the zero value of the type
		if d == [3]int{1, 1, 1} && rng.Intn(2) == 0 {
			return types.Date{}, M{"y": 1, "m": 1, "d": 1}
		}
		// a third of the values through the constructor
		if rng.Intn(3) == 0 {
			return types.ToDate(d[0], time.Month(d[1]), d[2]), M{"y": d[0], "m": d[1], "d": d[2]}
		}
		// half of the values at a non-midnight clock in a foreign location: comparisons are by civil date
		var t time.Time
		if rng.Intn(2) == 0 {
			t = time.Date(d[0], time.Month(d[1]), d[2], 0, 0, 0, 0, time.UTC)
		} else {
			t = time.Date(d[0], time.Month(d[1]), d[2], rng.Intn(24), rng.Intn(60), 0, 0, locs[rng.Intn(len(locs))])
		}
		y, m, dd := t.Date()
		return types.Date(t), M{"y": y, "m": int(m), "d": dd}
	}
	row := func(a [3]int, bs [][3]int, class string) {
		da, pa := mk(a)
		pbs := []any{}
		codes := []int{}
		for _, b := range bs {
			db, pb := mk(b)
			pbs = append(pbs, pb)
			codes = append(codes, cmpCode(da.Before(db), da.After(db), da.Equals(db)))
		}
		w.put(M{"fn": "date_row", "a": pa, "bs": pbs, "codes": codes}, class, fmt.Sprintf("d%v/%d", a, len(bs)))
	}
	// every listed day against its calendar neighbours (two days either side, across month and year ends)
	around := func(d [3]int) [][3]int {
		bs := [][3]int{}
		for k := -2; k <= 2; k++ {
			t := time.Date(d[0], time.Month(d[1]), d[2]+k, 0, 0, 0, 0, time.UTC)
			if t.Year() < 1 || t.Year() > 9999 {
				continue
			}
			bs = append(bs, [3]int{t.Year(), int(t.Month()), t.Day()})
		}
		return bs
	}
	for i := range days {
		row(days[i], around(days[i]), "date-adjacent")
	}
	// year ends: 31 December / 1 January of every year of a 400-year cycle (quick) / of every year (thorough)
	y0, y1 := 1890, 2290
	if thorough {
		y0, y1 = 1, 9998
	}
	for y := y0; y <= y1; y++ {
		row([3]int{y, 12, 31}, around([3]int{y, 12, 31}), "date-yearend")
		row([3]int{y + 1, 1, 1}, around([3]int{y + 1, 1, 1}), "date-yearend")
	}
	// month ends of the same years (quick: a leap and a common year per century)
	for y := y0; y <= y1; y++ {
		if !thorough && y%25 != 0 && y%100 != 99 {
			continue
		}
		for m := 1; m <= 12; m++ {
			last := time.Date(y, time.Month(m)+1, 0, 0, 0, 0, 0, time.UTC).Day()
			row([3]int{y, m, last}, around([3]int{y, m, last}), "date-monthend")
		}
	}
	n := 120
	if thorough {
		n = 1500
	}
	grid := [][3]int{}
	for i := 0; i < n; i++ {
		y, m, d := g.ymd()
		grid = append(grid, [3]int{y, m, d})
	}
	grid = append(grid, [3]int{1, 1, 1}, [3]int{1, 1, 2}, [3]int{9999, 12, 31})
	for i := range grid {
		row(grid[i], grid, "date-grid")
	}

	// date-time before instant: pairs straddling second boundaries from 1970 on
	sec := func(s int64) []int { return []int{int(s >> 20), int(s & 0xfffff)} }
	nd := 3000
	if thorough {
		nd = 60000
	}
	for i := 0; i < nd; i++ {
		base := rng.Int63n(253402300799) // up to 9999-12-31
		if rng.Intn(2) == 0 {
			base = rng.Int63n(4102444800) // up to 2100
		}
		dns := []int64{0, 1, 499999999, 500000000, 999999999}[rng.Intn(5)]
		dt := types.DateTime(time.Unix(base, dns).In(locs[rng.Intn(len(locs))]))
		off := []int64{-1, 0, 0, 0, 1, 1, -2, 2, rng.Int63n(100000) - 50000}[rng.Intn(9)]
		tns := []int64{0, 1, 499999999, 500000000, 999999999}[rng.Intn(5)]
		ts := base + off
		if ts < 0 {
			ts = 0
		}
		t := time.Unix(ts, tns).In(locs[rng.Intn(len(locs))])
		w.put(M{"fn": "dt_before", "dt": sec(base), "t": sec(ts), "before": dt.Before(t)}, "dt-before", fmt.Sprintf("t%d/%d/%d", base, ts, tns))
	}
	// ... and around the offset changes of the operands' own locations (the hour that occurs twice when clocks are
	// set back: a comparison that goes through the wall-clock fields instead of the instant gets it wrong there)
	offs := []int64{-7200, -3601, -3600, -1800, -1, 0, 1, 1800, 3599, 3600, 7200}
	for _, loc := range locs {
		tr := transitionsIn(loc)
		if len(tr) == 0 {
			continue
		}
		k := 12
		if thorough {
			k = len(tr)
		}
		for i := 0; i < k; i++ {
			e := tr[len(tr)-1-i%len(tr)]
			if !thorough && i%2 == 1 {
				e = tr[rng.Intn(len(tr))]
			}
			if e < 0 {
				continue
			}
			for _, a := range offs {
				for _, b := range offs {
					if e+a < 0 || e+b < 0 {
						continue
					}
					dt := types.DateTime(time.Unix(e+a, []int64{0, 999999999}[rng.Intn(2)]).In(loc))
					t := time.Unix(e+b, []int64{0, 1, 999999999}[rng.Intn(3)]).In(locs[rng.Intn(len(locs))])
					w.put(M{"fn": "dt_before", "dt": sec(e + a), "t": sec(e + b), "before": dt.Before(t)}, "dt-before-transition", fmt.Sprintf("x%s/%d/%d/%d", loc, e, a, b))
				}
			}
		}
	}
	return w.close(), nil
}
