package main

import (
	"fmt"
	"math/rand"
	"net"
	"net/netip"
	"time"

	"github.com/uhppoted/uhppote-core/types"
	"github.com/uhppoted/uhppote-core/uhppote"
)

func init() { commands["c11"] = runC11 }

var discClasses = []string{"valid1", "valid2", "dup", "badlen", "badproto", "badcode", "badbcd"}

// discoveryDatagram: one datagram of the given class (prev = the previous valid datagram, for "dup")
func discoveryDatagram(rng *rand.Rand, lt *layoutTables, cls string, prev []byte) []byte {
	l := lt.Rsp["GetDevice"]
	serial := []byte{0x78, 0x37, 0x2a, 0x18} // 405419896: a configured controller
	if cls == "valid2" || rng.Intn(3) == 0 {
		serial = []byte{byte(rng.Intn(256)), byte(rng.Intn(256)), byte(rng.Intn(256)), byte(1 + rng.Intn(255))}
	}
	m := l.message(rng, 0x17, serial, "valid", nil)
	switch cls {
	case "valid1", "valid2":
	case "dup":
		if prev != nil {
			m = append([]byte{}, prev...)
		}
	case "badlen":
		n := []int{0, 1, 63, 65, 128, 1024}[rng.Intn(6)]
		if n <= 64 {
			m = m[:n]
		} else {
			m = append(m, make([]byte, n-64)...)
		}
	case "badproto":
		m[0] = []byte{0x19, 0x18, 0x00, 0xff}[rng.Intn(4)]
	case "badcode":
		m[1] = []byte{0x92, 0x20, 0x96, 0x00}[rng.Intn(4)]
	case "badbcd":
		m[28+rng.Intn(4)] |= byte(0xa+rng.Intn(6)) << uint(4*rng.Intn(2))
	case "baddate": // decimal but not a calendar date
		m[30], m[31] = bcd2(13+rng.Intn(80)), bcd2(1+rng.Intn(28))
	}
	return m
}

func runC11(o *opts) (*summary, error) {
	lt, err := loadLayouts(o.extraArg("layouts"))
	if err != nil {
		return nil, err
	}
	w, err := newShardWriter(o.out, "api", o.shards)
	if err != nil {
		return nil, err
	}
	w.only = parseOnly(o.extraArg("only"))
	rng := rand.New(rand.NewSource(o.seed))
	g := &G{r: rng, inDomain: true}
	thorough := o.tier == "thorough"

	cfgs := []clientCfg{
		{Devices: []devCfg{{Name: "alpha", Serial: 405419896, Addr: "192.168.1.100:60000", Proto: "udp"}}},
		{Broadcast: "192.168.1.255:60005", Devices: []devCfg{{Name: "  alpha  beta ", Serial: 405419896, Addr: "192.168.1.100:54321", Proto: "tcp"}}},
		{Broadcast: "192.168.1.255:60000"},
	}

	// ---- Rig S: all sequences of up to 4 datagrams over 7 classes (3 in the quick tier + sampled 4)
	maxLen := 3
	var seqs [][]string
	var gen func(prefix []string, n int)
	gen = func(prefix []string, n int) {
		seqs = append(seqs, append([]string{}, prefix...))
		if n == 0 {
			return
		}
		for _, c := range discClasses {
			gen(append(prefix, c), n-1)
		}
	}
	if thorough {
		maxLen = 4
	}
	gen(nil, maxLen)
	if !thorough {
		for i := 0; i < 300; i++ {
			s := []string{}
			for k := 0; k < 4+rng.Intn(5); k++ {
				s = append(s, append(discClasses, "baddate")[rng.Intn(8)])
			}
			seqs = append(seqs, s)
		}
	}
	for i, seq := range seqs {
		cfg := cfgs[i%len(cfgs)]
		u, d := stubClient(cfg)
		dgs := [][]byte{}
		var prev []byte
		for _, c := range seq {
			b := discoveryDatagram(rng, lt, c, prev)
			if c == "valid1" || c == "valid2" {
				prev = b
			}
			dgs = append(dgs, b)
		}
		d.script = func(method string, req []byte) [][]byte { return dgs }
		cs := g.call("GetDevices", 0)
		rec := doCall(u, d, cs)
		rec["cfg"] = projCfgRouted(cfg)
		rec["classes"] = seq
		w.put(rec, "rigS", fmt.Sprintf("S%d", i))
	}

	// ---- Rig L: the real Broadcast() against a farm that answers with a scripted multiset well inside the
	// window (and, afterwards, a late datagram that must neither appear nor disturb the next call)
	nL := 24
	if thorough {
		nL = 300
	}
	tick := 40 * time.Millisecond
	T := 4
	type job struct {
		seq []string
		rec M
	}
	results := make(chan M, nL)
	sem := make(chan struct{}, 12)
	for i := 0; i < nL; i++ {
		seq := []string{}
		for k := 0; k < rng.Intn(7); k++ {
			seq = append(seq, discClasses[rng.Intn(len(discClasses))])
		}
		seed := rng.Int63()
		sem <- struct{}{}
		time.Sleep(5 * time.Millisecond)
		go func(i int, seq []string, seed int64) {
			defer func() { <-sem }()
			r := rand.New(rand.NewSource(seed))
			bc := listenUDP()
			defer bc.Close()
			dgs := [][]byte{}
			var prev []byte
			for _, c := range seq {
				b := discoveryDatagram(r, lt, c, prev)
				if c == "valid1" || c == "valid2" {
					prev = b
				}
				dgs = append(dgs, b)
			}
			got := make(chan *net.UDPAddr, 4)
			go func() {
				buf := make([]byte, 2048)
				for {
					_, src, err := bc.ReadFromUDP(buf)
					if err != nil {
						return
					}
					got <- src
				}
			}()
			cfg := clientCfg{Broadcast: udpAddrPort(bc).String(), Devices: []devCfg{{Name: "alpha", Serial: 405419896, Addr: "192.168.1.100:60000", Proto: "udp"}}}
			bind := types.BindAddr{AddrPort: netip.AddrPortFrom(netip.AddrFrom4([4]byte{127, 0, 0, 1}), 0)}
			u := uhppote.NewUHPPOTE(bind, types.BroadcastAddr{AddrPort: udpAddrPort(bc)}, types.ListenAddr{}, time.Duration(T)*tick,
				[]uhppote.Device{{Name: "alpha", DeviceID: 405419896}}, false)
			done := make(chan M, 1)
			go func() {
				var v any
				var err error
				p, msg := guard(func() { v, err = u.GetDevices() })
				if p {
					done <- M{"t": "panic", "msg": msg}
				} else {
					done <- projRet(v, err)
				}
			}()
			var src *net.UDPAddr
			select {
			case src = <-got:
			case <-time.After(2 * time.Second):
			}
			if src != nil {
				// spread over the first T-1.5 ticks, sequentially (arrival order = send order)
				gap := time.Duration(float64(T-1) * float64(tick) / float64(len(dgs)+1) * 0.6)
				for _, b := range dgs {
					time.Sleep(gap)
					bc.WriteToUDP(b, src)
				}
			}
			ret := <-done
			// after the window: a late valid reply to the (now closed) port
			if src != nil {
				bc.WriteToUDP(discoveryDatagram(r, lt, "valid2", nil), src)
			}
			delivered := []any{}
			for _, b := range dgs {
				delivered = append(delivered, M{"b": ints(b), "keep": true})
			}
			results <- M{"op": "GetDevices", "a": M{"serial": u32(0)}, "sent": []any{}, "route": M{"m": "none"}, "ncalls": 1, "delivered": delivered,
				"ret": ret, "render": M{"string": "ok", "json": "ok"}, "cfg": projCfgRouted(cfg), "classes": seq, "rig": "L", "asked": src != nil}
		}(i, seq, seed)
	}
	for i := 0; i < nL; i++ {
		w.put(<-results, "rigL", fmt.Sprintf("L%d", i))
	}
	return w.close(), nil
}
