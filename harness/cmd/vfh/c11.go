package main

import (
	"fmt"
	"math/rand"
	"net"
	"net/netip"
	"os"
	"runtime"
	"runtime/debug"
	"sync"
	"sync/atomic"
	"time"

	"github.com/uhppoted/uhppote-core/types"
	"github.com/uhppoted/uhppote-core/uhppote"
)

func init() { commands["c11"] = runC11; commands["c09disc"] = runC09Disc }

// runC09Disc: C09 for discovery - GetDevices while datagrams keep arriving up to and beyond the deadline (a valid
// reply early in the window, then a datagram every millisecond from 0.7 T to 1.15 T). Every call must return
// within T plus slack, and afterwards the process must hold no more goroutines or sockets than before.
func runC09Disc(o *opts) (*summary, error) {
	lt, err := loadLayouts(o.extraArg("layouts"))
	if err != nil {
		return nil, err
	}
	w, err := newShardWriter(o.out, "api", o.shards)
	if err != nil {
		return nil, err
	}
	rng := rand.New(rand.NewSource(o.seed))
	n := 12
	if o.tier == "thorough" {
		n = 150
	}
	tick := 30 * time.Millisecond
	T := 3
	timeout := time.Duration(T) * tick
	bc := listenUDP()
	defer bc.Close()
	floods := 0
	go func() {
		buf := make([]byte, 2048)
		for {
			_, src, err := bc.ReadFromUDP(buf)
			if err != nil {
				return
			}
			asked := time.Now()
			go func() {
				time.Sleep(timeout / 5)
				bc.WriteToUDP(discoveryDatagram(rng, lt, "valid1", nil), src)
				time.Sleep(time.Until(asked.Add(timeout * 7 / 10)))
				for time.Since(asked) < timeout*115/100 {
					bc.WriteToUDP([]byte{0x17, 0x94, 0, 0, 1, 2, 3, 4, 5, 6}, src) // wrong length: contributes nothing either way
					floods++
					time.Sleep(time.Millisecond)
				}
			}()
		}
	}()
	bind := types.BindAddr{AddrPort: netip.AddrPortFrom(netip.AddrFrom4([4]byte{127, 0, 0, 1}), 0)}
	u := uhppote.NewUHPPOTE(bind, types.BroadcastAddr{AddrPort: udpAddrPort(bc)}, types.ListenAddr{}, timeout, nil, false)
	u.GetDevices() // warm-up (lazy runtime goroutines, resolver, ...)
	time.Sleep(timeout)
	g0, f0 := settle()
	maxElapsed, minElapsed, listed := time.Duration(0), time.Hour, 0
	jm := startJitterMonitor() // timing self-check: the elapsed-time bound is judged only if the run's own clockwork was undisturbed
	for i := 0; i < n; i++ {
		t0 := time.Now()
		v, err := u.GetDevices()
		el := time.Since(t0)
		if el > maxElapsed {
			maxElapsed = el
		}
		if el < minElapsed {
			minElapsed = el
		}
		if err == nil {
			listed += len(v)
		}
	}
	jm.stop()
	disturbed := jm.max() > int64(timeout/time.Microsecond)*15/100
	time.Sleep(2 * timeout)
	g1, f1 := settle()
	w.put(M{"op": "Quiesce", "what": "discovery-flood", "disturbed": disturbed, "jitter_us": jm.max(), "calls": n, "listed": listed, "floods": floods, "goroutines_before": g0, "goroutines_after": g1, "fds_before": f0, "fds_after": f1,
		"elapsed_max_ms": int(maxElapsed / time.Millisecond), "elapsed_min_ms": int(minElapsed / time.Millisecond), "T_ms": int(timeout / time.Millisecond)}, "quiesce", "discovery-flood")
	// the event listener asked to listen on an address that is in use (started twice, say): every attempt returns an
	// error promptly - and leaves no goroutine or socket behind
	{
		held := listenUDP()
		laddr := udpAddrPort(held)
		ul := uhppote.NewUHPPOTE(bind, types.BroadcastAddr{AddrPort: udpAddrPort(bc)}, types.ListenAddr{AddrPort: laddr}, timeout, nil, false)
		gl0, fl0 := settle()
		attempts, failed, stuck := 20, 0, 0
		for i := 0; i < attempts; i++ {
			q := make(chan os.Signal, 1)
			done := make(chan error, 1)
			go func() { done <- ul.Listen(&nullListener{}, q) }()
			select {
			case err := <-done:
				if err != nil {
					failed++
				}
			case <-time.After(2 * time.Second):
				stuck++
				q <- os.Interrupt
			}
		}
		held.Close()
		gl1, fl1 := settle()
		w.put(M{"op": "Quiesce", "what": "listen-on-busy-port", "disturbed": true, "calls": attempts, "failed": failed, "stuck": stuck,
			"goroutines_before": gl0, "goroutines_after": gl1, "fds_before": fl0, "fds_after": fl1 - 0,
			"elapsed_max_ms": 0, "elapsed_min_ms": 1 << 20, "T_ms": 0}, "quiesce", "listen-busy")
	}
	// discoveries that overlap on an EPHEMERAL bind port (explicit address, port 0) have nothing to queue for: each of them
	// returns after T, not after k x T
	for attempt := 0; attempt < 4; attempt++ {
		ue := uhppote.NewUHPPOTE(bind, types.BroadcastAddr{AddrPort: udpAddrPort(bc)}, types.ListenAddr{}, timeout, nil, false)
		g0, f0 := settle()
		jm := startJitterMonitor()
		maxEl, minEl := time.Duration(0), time.Hour
		var mu sync.Mutex
		for round := 0; round < 3; round++ {
			var wg sync.WaitGroup
			for k := 0; k < 3; k++ {
				wg.Add(1)
				go func() {
					defer wg.Done()
					t0 := time.Now()
					ue.GetDevices()
					el := time.Since(t0)
					mu.Lock()
					if el > maxEl {
						maxEl = el
					}
					if el < minEl {
						minEl = el
					}
					mu.Unlock()
				}()
			}
			wg.Wait()
		}
		jm.stop()
		time.Sleep(2 * timeout)
		g1, f1 := settle()
		disturbed := jm.max() > int64(timeout/time.Microsecond)*15/100
		if disturbed && attempt < 3 {
			continue // the harness' own clockwork was disturbed: this run says nothing about elapsed times - again
		}
		w.put(M{"op": "Quiesce", "what": "overlapped-discovery-ephemeral-port", "disturbed": disturbed, "jitter_us": jm.max(), "calls": 9,
			"goroutines_before": g0, "goroutines_after": g1, "fds_before": f0, "fds_after": f1,
			"elapsed_max_ms": int(maxEl / time.Millisecond), "elapsed_min_ms": int(minEl / time.Millisecond), "T_ms": int(timeout / time.Millisecond)}, "quiesce", "overlap-eph")
		break
	}
	// EVERY operation against controllers that say nothing (connected UDP to a bound, silent socket; TCP to a peer that accepts
	// and stalls; the broadcast path to a silent broadcast address): the call fails after T - not after 2 T because the
	// operation likes to try once more, or another way - and leaves nothing behind. One path per goroutine, its operations one
	// after the other.
	for attempt := 0; attempt < 4; attempt++ {
		silentU, silentB := listenUDP(), listenUDP()
		silentT, err := net.ListenTCP("tcp4", &net.TCPAddr{IP: net.IPv4(127, 0, 0, 1), Port: 0}) // (never accepts: the kernel completes the handshake, nobody answers)
		if err != nil {
			silentU.Close()
			silentB.Close()
			break
		}
		tcpAP := netip.AddrPortFrom(netip.AddrFrom4([4]byte{127, 0, 0, 1}), uint16(silentT.Addr().(*net.TCPAddr).Port))
		const s1, s2, s3 = 405419896, 303986753, 201020304
		tmo := 90 * time.Millisecond
		us := uhppote.NewUHPPOTE(bind, types.BroadcastAddr{AddrPort: udpAddrPort(silentB)}, types.ListenAddr{}, tmo, []uhppote.Device{
			{Name: "u", DeviceID: s1, Address: types.ControllerAddr{AddrPort: udpAddrPort(silentU)}, Protocol: "udp"},
			{Name: "t", DeviceID: s2, Address: types.ControllerAddr{AddrPort: tcpAP}, Protocol: "tcp"}}, false)
		us.GetCards(s1) // warm-up
		g0, f0 := settle()
		jm := startJitterMonitor()
		type res struct {
			maxEl, minEl time.Duration
			slowest      string
			succeeded    int
		}
		results := map[string]*res{}
		var mu sync.Mutex
		var wg sync.WaitGroup
		for path, serial := range map[string]uint32{"udp": s1, "tcp": s2, "bcast": s3} {
			r := &res{minEl: time.Hour}
			results[path] = r
			gp := &G{r: rand.New(rand.NewSource(o.seed + int64(serial))), inDomain: true}
			wg.Add(1)
			go func() {
				defer wg.Done()
				for _, op := range replyOps() {
					cs := gp.call(op, serial)
					t0 := time.Now()
					var err error
					guard(func() { _, err = cs.call(us) })
					el := time.Since(t0)
					mu.Lock()
					if el > r.maxEl {
						r.maxEl, r.slowest = el, op
					}
					if el < r.minEl {
						r.minEl = el
					}
					if err == nil {
						r.succeeded++
					}
					mu.Unlock()
				}
			}()
		}
		wg.Wait()
		jm.stop()
		silentU.Close()
		silentB.Close()
		silentT.Close()
		time.Sleep(2 * tmo)
		g1, f1 := settle()
		disturbed := jm.max() > int64(tmo/time.Microsecond)*15/100
		if disturbed && attempt < 3 {
			continue
		}
		for _, path := range []string{"udp", "tcp", "bcast"} {
			r := results[path]
			w.put(M{"op": "Quiesce", "what": "silent-controller-every-operation/" + path + " slowest=" + r.slowest, "disturbed": disturbed, "jitter_us": jm.max(), "calls": len(replyOps()),
				"succeeded": r.succeeded, "goroutines_before": g0, "goroutines_after": g1, "fds_before": f0, "fds_after": f1 + 3, // (the three silent sockets were open at the first count)
				"elapsed_max_ms": int(r.maxEl / time.Millisecond), "elapsed_min_ms": int(r.minEl / time.Millisecond), "T_ms": int(tmo / time.Millisecond)}, "quiesce", "silent-ops-"+path)
		}
		break
	}
	// the event listener asked to listen on port 0 (no listen address configured): refused - and nothing is left behind
	{
		uz := uhppote.NewUHPPOTE(bind, types.BroadcastAddr{AddrPort: udpAddrPort(bc)}, types.ListenAddr{}, timeout, nil, false)
		uz2 := uhppote.NewUHPPOTE(bind, types.BroadcastAddr{AddrPort: udpAddrPort(bc)}, types.ListenAddrFrom(netip.AddrFrom4([4]byte{127, 0, 0, 1}), 0), timeout, nil, false)
		g0, f0 := settle()
		// (no garbage collection while the attempts are made: a socket that is merely dropped would be closed by its
		// finaliser sooner or later - "releases its socket" means closed when the call returns, not when the collector comes by)
		gcp := debug.SetGCPercent(-1)
		attempts, failed, stuck := 16, 0, 0
		for i := 0; i < attempts; i++ {
			ux := []uhppote.IUHPPOTE{uz, uz2}[i%2]
			q := make(chan os.Signal, 1)
			done := make(chan error, 1)
			go func() { done <- ux.Listen(&nullListener{}, q) }()
			select {
			case err := <-done:
				if err != nil {
					failed++
				}
			case <-time.After(500 * time.Millisecond):
				// (a library that listens on an ephemeral port instead of refusing: stop it, it is no leak)
				stuck++
				q <- os.Interrupt
				select {
				case <-done:
				case <-time.After(2 * time.Second):
				}
			}
		}
		fpeak := countFDs()
		debug.SetGCPercent(gcp)
		g1, f1 := settle()
		if fpeak > f1 {
			f1 = fpeak
		}
		w.put(M{"op": "Quiesce", "what": "listen-on-port-0", "disturbed": true, "calls": attempts, "failed": failed, "stuck": stuck,
			"goroutines_before": g0, "goroutines_after": g1, "fds_before": f0, "fds_after": f1,
			"elapsed_max_ms": 0, "elapsed_min_ms": 1 << 20, "T_ms": 0}, "quiesce", "listen-port0")
	}
	// a client whose timeout is zero (or negative): every call that gets no answer ends at once - "within its timeout" -
	// over connected UDP, TCP accept-and-stall and the broadcast path
	for _, to := range []time.Duration{0, -time.Second} {
		silentU := listenUDP()
		silentT, err := net.ListenTCP("tcp4", &net.TCPAddr{IP: net.IPv4(127, 0, 0, 1), Port: 0})
		if err != nil {
			silentU.Close()
			break
		}
		silentB := listenUDP()
		tcpAP := netip.AddrPortFrom(netip.AddrFrom4([4]byte{127, 0, 0, 1}), uint16(silentT.Addr().(*net.TCPAddr).Port))
		u0 := uhppote.NewUHPPOTE(bind, types.BroadcastAddr{AddrPort: udpAddrPort(silentB)}, types.ListenAddr{}, to, []uhppote.Device{
			{Name: "u", DeviceID: 405419896, Address: types.ControllerAddr{AddrPort: udpAddrPort(silentU)}, Protocol: "udp"},
			{Name: "t", DeviceID: 303986753, Address: types.ControllerAddr{AddrPort: tcpAP}, Protocol: "tcp"}}, false)
		g0, f0 := settle()
		jm := startJitterMonitor()
		maxEl := time.Duration(0)
		for _, serial := range []uint32{405419896, 303986753, 201020304} {
			done := make(chan time.Duration, 1)
			t0 := time.Now()
			go func() { u0.GetTime(serial); done <- time.Since(t0) }()
			el := 3 * time.Second
			select {
			case el = <-done:
			case <-time.After(3 * time.Second):
			}
			if el > maxEl {
				maxEl = el
			}
		}
		jm.stop()
		silentU.Close()
		silentT.Close()
		silentB.Close()
		time.Sleep(50 * time.Millisecond)
		g1, f1 := settle()
		w.put(M{"op": "Quiesce", "what": fmt.Sprintf("timeout-%v", to), "disturbed": jm.max() > 100000, "jitter_us": jm.max(), "calls": 3,
			"goroutines_before": g0, "goroutines_after": g1, "fds_before": f0, "fds_after": f1,
			"elapsed_max_ms": int(maxEl / time.Millisecond), "elapsed_min_ms": 1 << 20, "T_ms": 0, "slack_ms": 400}, "quiesce", fmt.Sprintf("timeout-%v", to))
	}
	// a LONG discovery window (1.3 s: longer than any constant a driver may have lying around): the reply that arrives at
	// 1.15 s is listed, and a silent window yields an empty list, not an error
	{
		long := 1300 * time.Millisecond
		lb := listenUDP()
		var answer int32 = 1
		go func() {
			buf := make([]byte, 2048)
			for {
				_, src, err := lb.ReadFromUDP(buf)
				if err != nil {
					return
				}
				if atomic.LoadInt32(&answer) != 0 {
					go func() {
						time.Sleep(1150 * time.Millisecond)
						lb.WriteToUDP(discoveryDatagram(rng, lt, "valid2", nil), src)
					}()
				}
			}
		}()
		ul := uhppote.NewUHPPOTE(bind, types.BroadcastAddr{AddrPort: udpAddrPort(lb)}, types.ListenAddr{}, long, nil, false)
		for _, silent := range []bool{false, true} {
			if silent {
				atomic.StoreInt32(&answer, 0)
			}
			jm := startJitterMonitor()
			t0 := time.Now()
			v, err := ul.GetDevices()
			el := time.Since(t0)
			jm.stop()
			want := 1
			if silent {
				want = 0
			}
			w.put(M{"op": "Window", "what": map[bool]string{false: "reply-at-1150ms-of-1300ms", true: "silence-for-1300ms"}[silent], "listed": len(v), "expected": want, "failed": err != nil,
				"disturbed": jm.max() > 100000, "elapsed_ms": int(el / time.Millisecond), "T_ms": int(long / time.Millisecond)}, "window", fmt.Sprintf("long-%v", silent))
		}
		lb.Close()
	}
	// a discovery that cannot bind its fixed port fails - and the next one, once the port is free, runs as if nothing had happened
	{
		probe := listenUDP()
		fixed := udpAddrPort(probe)
		uf := uhppote.NewUHPPOTE(types.BindAddr{AddrPort: fixed}, types.BroadcastAddr{AddrPort: udpAddrPort(bc)}, types.ListenAddr{}, timeout, nil, false)
		g0, f0 := settle()
		failed := 0
		for i := 0; i < 3; i++ {
			// (bounded: a call that never comes back is what is being looked for, not something to wait for)
			done := make(chan error, 1)
			go func() { _, err := uf.GetDevices(); done <- err }()
			select {
			case err := <-done:
				if err != nil {
					failed++
				}
			case <-time.After(6 * timeout):
			}
		}
		probe.Close()
		jm := startJitterMonitor()
		maxEl, minEl := time.Duration(0), time.Hour
		for i := 0; i < 3; i++ {
			done := make(chan time.Duration, 1)
			t0 := time.Now()
			go func() { uf.GetDevices(); done <- time.Since(t0) }()
			var el time.Duration
			select {
			case el = <-done:
			case <-time.After(6 * timeout):
				el = 6 * timeout // never came back
			}
			if el > maxEl {
				maxEl = el
			}
			if el < minEl {
				minEl = el
			}
		}
		jm.stop()
		time.Sleep(2 * timeout)
		g1, f1 := settle()
		w.put(M{"op": "Quiesce", "what": "discovery-after-failed-bind", "disturbed": jm.max() > int64(timeout/time.Microsecond)*15/100, "jitter_us": jm.max(), "calls": 3, "failed": failed,
			"goroutines_before": g0, "goroutines_after": g1, "fds_before": f0, "fds_after": f1,
			"elapsed_max_ms": int(maxEl / time.Millisecond), "elapsed_min_ms": int(minEl / time.Millisecond), "T_ms": int(timeout / time.Millisecond)}, "quiesce", "failed-bind")
	}
	return w.close(), nil
}

var discBadlenTurn int32

var discClasses = []string{"valid1", "valid2", "dup", "badlen", "badproto", "badcode", "badbcd"}

// discoveryDatagram: one datagram of the given class (prev = the previous valid datagram, for "dup")
func discoveryDatagram(rng *rand.Rand, lt *layoutTables, cls string, prev []byte) []byte {
	l := lt.Rsp["GetDevice"]
	serial := []byte{0x78, 0x37, 0x2a, 0x18} // 405419896: a configured controller
	if cls == "valid2" || rng.Intn(3) == 0 {
		serial = []byte{byte(rng.Intn(256)), byte(rng.Intn(256)), byte(rng.Intn(256)), byte(1 + rng.Intn(255))}
	}
	// "all field values": a controller that reports serial number 0 (or the top bit set) has answered like any other
	switch rng.Intn(12) {
	case 0:
		serial = []byte{0, 0, 0, 0}
	case 1:
		serial = []byte{0xff, 0xff, 0xff, 0xff}
	}
	m := l.message(rng, 0x17, serial, "valid", nil)
	// a quarter of the datagrams carry noise in the bytes that belong to no field (2, 3 and whatever the layout leaves free):
	// "each entry the protocol decoding of its reply" does not depend on them
	if rng.Intn(4) == 0 {
		for _, o := range l.slackOffsets() {
			if rng.Intn(2) == 0 {
				m[o] = byte(1 + rng.Intn(255))
			}
		}
	}
	if len(cls) > 6 && cls[:6] == "badlen" {
		// "badlen<N>": a datagram of exactly N bytes
		n := 0
		fmt.Sscanf(cls[6:], "%d", &n)
		if n <= 64 {
			return m[:n]
		}
		return append(m, make([]byte, n-64)...)
	}
	switch cls {
	case "valid1", "valid2":
	case "dup":
		if prev != nil {
			m = append([]byte{}, prev...)
		}
	case "badlen":
		// every wrong length in turn (process-wide counter): each of them - the empty datagram too - occurs in every run
		n := []int{0, 1, 63, 65, 128, 1024, 2, 66}[int(atomic.AddInt32(&discBadlenTurn, 1))%8]
		if n <= 64 {
			m = m[:n]
		} else {
			m = append(m, make([]byte, n-64)...)
		}
	case "badproto":
		m[0] = []byte{0x19, 0x18, 0x00, 0xff}[rng.Intn(4)]
	case "badcode":
		m[1] = []byte{0x92, 0x20, 0x96, 0x00}[rng.Intn(4)]
	case "badbcd":
		m[28+rng.Intn(4)] |= byte(0xa+rng.Intn(6)) << uint(4*rng.Intn(2))
	case "baddate": // decimal but not a calendar date: month 13.., or a day the month does not have
		if rng.Intn(2) == 0 {
			m[30], m[31] = bcd2(13+rng.Intn(80)), bcd2(1+rng.Intn(28))
		} else {
			copy(m[28:32], [][]byte{{0x20, 0x23, 0x02, 0x30}, {0x20, 0x21, 0x04, 0x31}, {0x20, 0x23, 0x02, 0x29}, {0x21, 0x00, 0x02, 0x29}, {0x20, 0x24, 0x06, 0x00}, {0x20, 0x24, 0x11, 0x31}}[rng.Intn(6)])
		}
	}
	return m
}

// settle: goroutine and socket counts once things have calmed down (a few short sleeps, a GC in between)
func settle() (goroutines int, fds int) {
	best := 1 << 30
	for i := 0; i < 6; i++ {
		time.Sleep(40 * time.Millisecond)
		runtime.GC()
		if g := runtime.NumGoroutine(); g < best {
			best = g
		}
	}
	return best, countFDs()
}

func runC11(o *opts) (*summary, error) {
	lt, err := loadLayouts(o.extraArg("layouts"))
	if err != nil {
		return nil, err
	}
	w, err := newShardWriter(o.out, "api", o.shards)
	if err != nil {
		return nil, err
	}
	w.only = parseOnly(o.extraArg("only"))
	rng := rand.New(rand.NewSource(o.seed))
	g := &G{r: rng, inDomain: true}
	thorough := o.tier == "thorough"

	cfgs := []clientCfg{
		{Devices: []devCfg{{Name: "alpha", Serial: 405419896, Addr: "192.168.1.100:60000", Proto: "udp"}}},
		{Broadcast: "192.168.1.255:60005", Devices: []devCfg{{Name: "  alpha  beta ", Serial: 405419896, Addr: "192.168.1.100:54321", Proto: "tcp"}}},
		{Broadcast: "192.168.1.255:60000"},
	}

	// ---- Rig S: all sequences of up to 4 datagrams over 7 classes (3 in the quick tier + sampled 4)
	maxLen := 3
	var seqs [][]string
	var gen func(prefix []string, n int)
	gen = func(prefix []string, n int) {
		seqs = append(seqs, append([]string{}, prefix...))
		if n == 0 {
			return
		}
		for _, c := range discClasses {
			gen(append(prefix, c), n-1)
		}
	}
	if thorough {
		maxLen = 4
	}
	gen(nil, maxLen)
	if !thorough {
		for i := 0; i < 300; i++ {
			s := []string{}
			for k := 0; k < 4+rng.Intn(5); k++ {
				s = append(s, append(discClasses, "baddate")[rng.Intn(8)])
			}
			seqs = append(seqs, s)
		}
	}
	for i, seq := range seqs {
		cfg := cfgs[i%len(cfgs)]
		u, d := stubClient(cfg)
		dgs := [][]byte{}
		var prev []byte
		for _, c := range seq {
			b := discoveryDatagram(rng, lt, c, prev)
			if c == "valid1" || c == "valid2" {
				prev = b
			}
			dgs = append(dgs, b)
		}
		d.script = func(method string, req []byte) [][]byte { return dgs }
		cs := g.call("GetDevices", 0)
		rec := doCall(u, d, cs)
		rec["cfg"] = projCfgRouted(cfg)
		rec["classes"] = seq
		w.put(rec, "rigS", fmt.Sprintf("S%d", i))
	}

	// ---- Rig L, shared fixed bind port: two discoveries overlap (the second waits its turn for the port); each
	// controller answers 0.5 T after being asked - well inside the window of the call that asked, however long that
	// call had to queue. Sequential scenarios (one fixed port), each repeated when its clockwork was disturbed.
	if port := o.extraArg("port"); port != "" && port != "0" {
		fixed := 0
		fmt.Sscanf(port, "%d", &fixed)
		nO := 4
		if thorough {
			nO = 40
		}
		tick := 40 * time.Millisecond
		T := 4
		for i := 0; i < nO; i++ {
			for attempt := 0; attempt < 4; attempt++ {
				jm := startJitterMonitor()
				recs := overlappedDiscovery(rng, lt, fixed, T, tick, 0.2+0.15*float64(i%4), i%2 == 1)
				jm.stop()
				if jm.max() <= int64(tick/time.Microsecond)*15/100 {
					for j, r := range recs {
						w.put(r, "rigL-overlap", fmt.Sprintf("O%d/%d", i, j))
					}
					break
				}
			}
		}
	}

	// ---- Rig L: the real Broadcast() against a farm that answers with a scripted multiset well inside the
	// window (and, afterwards, a late datagram that must neither appear nor disturb the next call)
	nL := 24
	if thorough {
		nL = 300
	}
	tick := 40 * time.Millisecond
	T := 4
	type job struct {
		seq []string
		rec M
	}
	results := make(chan M, nL+16)
	sem := make(chan struct{}, 12)
	// the first scenarios are fixed: a datagram of each wrong length BETWEEN two valid replies (neither may be hidden)
	fixedSeqs := [][]string{}
	for _, n := range []int{0, 1, 63, 65, 128, 1024, 2048, 4096} {
		fixedSeqs = append(fixedSeqs, []string{"valid1", fmt.Sprintf("badlen%d", n), "valid2"})
	}
	// ... and crowded windows: 90 datagrams that are not replies ahead of three that are, and a large installation
	// (120 controllers answer): "never ... hide the valid replies around them", however many there are
	crowd := []string{"valid1"}
	for k := 0; k < 90; k++ {
		crowd = append(crowd, []string{"badlen17", "badcode", "badproto", "badlen65"}[k%4])
	}
	crowd = append(crowd, "valid2", "valid2")
	many := []string{}
	for k := 0; k < 120; k++ {
		many = append(many, "valid2")
	}
	// ... and 45 datagrams of 2048 bytes (90 KiB in one window) between two replies
	bulk := []string{"valid1"}
	for k := 0; k < 45; k++ {
		bulk = append(bulk, "badlen2048")
	}
	bulk = append(bulk, "valid2")
	fixedSeqs = append(fixedSeqs, crowd, many, bulk)
	nL += len(fixedSeqs)
	for i := 0; i < nL; i++ {
		seq := []string{}
		for k := 0; k < rng.Intn(7); k++ {
			seq = append(seq, discClasses[rng.Intn(len(discClasses))])
		}
		if i < len(fixedSeqs) {
			seq = fixedSeqs[i]
		}
		seed := rng.Int63()
		sem <- struct{}{}
		time.Sleep(5 * time.Millisecond)
		go func(i int, seq []string, seed int64) {
			defer func() { <-sem }()
			// timing self-check: a run during which a 1 ms sleeper woke up more than 15% of a tick late proves nothing
			// about the window; it is repeated (up to 4 times), and dropped if the machine never calms down
			for attempt := 0; ; attempt++ {
				jm := startJitterMonitor()
				rec := discoveryScenario(i, seq, seed+int64(attempt), lt, T, tick)
				jm.stop()
				if jm.max() <= int64(tick/time.Microsecond)*15/100 {
					results <- rec
					return
				}
				if attempt == 3 {
					results <- nil
					return
				}
			}
		}(i, seq, seed)
	}
	disturbed := 0
	for i := 0; i < nL; i++ {
		if rec := <-results; rec != nil {
			w.put(rec, "rigL", fmt.Sprintf("L%d", i))
		} else {
			disturbed++
		}
	}
	s := w.close()
	s.Extra = map[string]any{"rigL_disturbed": disturbed}
	return s, nil
}

// overlappedDiscovery: clients A and B share one fixed bind port; B starts `lag` x T after A and therefore queues for
// the port until A's window is over; the farm answers every request 0.5 T after it arrived
// (directedFirst: the first call is not a discovery but a broadcast-to operation nobody answers - it holds the port for
// a full timeout while the discovery queues behind it)
func overlappedDiscovery(rng *rand.Rand, lt *layoutTables, fixed int, T int, tick time.Duration, lag float64, directedFirst bool) []M {
	bc := listenUDP()
	defer bc.Close()
	timeout := time.Duration(T) * tick
	replies := make(chan []byte, 4)
	go func() {
		buf := make([]byte, 2048)
		for n := 0; ; n++ {
			k, src, err := bc.ReadFromUDP(buf)
			if err != nil {
				return
			}
			if k < 2 || buf[1] != 0x94 {
				continue // only discovery is answered
			}
			b := discoveryDatagram(rng, lt, "valid2", nil)
			replies <- b
			go func() {
				time.Sleep(timeout / 2)
				bc.WriteToUDP(b, src)
			}()
		}
	}()
	cfg := clientCfg{Broadcast: udpAddrPort(bc).String()}
	bind := types.BindAddr{AddrPort: netip.AddrPortFrom(netip.AddrFrom4([4]byte{127, 0, 0, 1}), uint16(fixed))}
	mk := func() uhppote.IUHPPOTE {
		return uhppote.NewUHPPOTE(bind, types.BroadcastAddr{AddrPort: udpAddrPort(bc)}, types.ListenAddr{}, timeout, nil, false)
	}
	ua, ub := mk(), mk()
	type out struct {
		ret M
	}
	run := func(u uhppote.IUHPPOTE, ch chan M) {
		var v any
		var err error
		if p, msg := guard(func() { v, err = u.GetDevices() }); p {
			ch <- M{"t": "panic", "msg": msg}
		} else {
			ch <- projRet(v, err)
		}
	}
	ca, cb := make(chan M, 1), make(chan M, 1)
	if directedFirst {
		go func() {
			guard(func() { ua.GetCards(201020304) })
			ca <- M{"t": "skip"}
		}()
	} else {
		go run(ua, ca)
	}
	time.Sleep(time.Duration(float64(timeout) * lag))
	go run(ub, cb)
	ra, rb := <-ca, <-cb
	var ba, bb []byte
	if !directedFirst {
		select {
		case ba = <-replies:
		default:
		}
	}
	select {
	case bb = <-replies:
	default:
	}
	mkrec := func(ret M, b []byte, who string) M {
		delivered := []any{}
		if b != nil {
			delivered = append(delivered, M{"b": ints(b), "keep": true})
		}
		return M{"op": "GetDevices", "a": M{"serial": u32(0)}, "sent": []any{}, "route": M{"m": "none"}, "ncalls": 1, "delivered": delivered,
			"ret": ret, "render": M{"string": "ok", "json": "ok"}, "cfg": projCfgRouted(cfg), "classes": []string{"overlap-" + who}, "rig": "L", "asked": b != nil}
	}
	time.Sleep(timeout / 2) // let the port settle before the next scenario
	if directedFirst {
		return []M{mkrec(rb, bb, "behind-directed")}
	}
	return []M{mkrec(ra, ba, "first"), mkrec(rb, bb, "second")}
}

func discoveryScenario(i int, seq []string, seed int64, lt *layoutTables, T int, tick time.Duration) M {
	{
		{
			r := rand.New(rand.NewSource(seed))
			bc := listenUDP()
			defer bc.Close()
			dgs := [][]byte{}
			var prev []byte
			for _, c := range seq {
				b := discoveryDatagram(r, lt, c, prev)
				if c == "valid1" || c == "valid2" {
					prev = b
				}
				dgs = append(dgs, b)
			}
			got := make(chan *net.UDPAddr, 4)
			go func() {
				buf := make([]byte, 2048)
				for {
					_, src, err := bc.ReadFromUDP(buf)
					if err != nil {
						return
					}
					got <- src
				}
			}()
			cfg := clientCfg{Broadcast: udpAddrPort(bc).String(), Devices: []devCfg{{Name: "alpha", Serial: 405419896, Addr: "192.168.1.100:60000", Proto: "udp"}}}
			bind := types.BindAddr{AddrPort: netip.AddrPortFrom(netip.AddrFrom4([4]byte{127, 0, 0, 1}), 0)}
			u := uhppote.NewUHPPOTE(bind, types.BroadcastAddr{AddrPort: udpAddrPort(bc)}, types.ListenAddr{}, time.Duration(T)*tick,
				[]uhppote.Device{{Name: "alpha", DeviceID: 405419896}}, false)
			done := make(chan M, 1)
			go func() {
				var v any
				var err error
				p, msg := guard(func() { v, err = u.GetDevices() })
				if p {
					done <- M{"t": "panic", "msg": msg}
				} else {
					done <- projRet(v, err)
				}
			}()
			var src *net.UDPAddr
			select {
			case src = <-got:
			case <-time.After(2 * time.Second):
			}
			asked := time.Now()
			if src != nil {
				// spread over the first 0.6 T (the last one 1.6 ticks inside the window), sequentially (arrival order = send order)
				gap := time.Duration(float64(T) * float64(tick) * 0.6 / float64(len(dgs)+1))
				if len(dgs) > 0 {
					gap = time.Duration(float64(T) * float64(tick) * 0.6 / float64(len(dgs)))
				}
				// (sleeps shorter than 2 ms are not worth their name: a crowded window is sent in small bursts)
				every := 1
				if gap < 2*time.Millisecond && gap > 0 {
					every = int(2*time.Millisecond/gap) + 1
				}
				for k, b := range dgs {
					if k%every == 0 {
						time.Sleep(gap * time.Duration(every))
					}
					bc.WriteToUDP(b, src)
				}
			}
			// every other scenario: a valid reply 0.35 T AFTER the timeout, whether or not the call has returned by then
			// ("received before the timeout": it must not be listed; a window that is re-armed by every datagram lists it)
			var ret M
			if src != nil && i%2 == 0 {
				select {
				case ret = <-done:
				case <-time.After(time.Until(asked.Add(time.Duration(float64(T) * float64(tick) * 1.35)))):
					bc.WriteToUDP(discoveryDatagram(r, lt, "valid2", nil), src)
				}
			}
			if ret == nil {
				ret = <-done
			}
			elapsed := time.Since(asked)
			// after the window: a late valid reply to the (now closed) port
			if src != nil {
				bc.WriteToUDP(discoveryDatagram(r, lt, "valid2", nil), src)
			}
			delivered := []any{}
			for _, b := range dgs {
				delivered = append(delivered, M{"b": ints(b), "keep": true})
			}
			return M{"op": "GetDevices", "a": M{"serial": u32(0)}, "sent": []any{}, "route": M{"m": "none"}, "ncalls": 1, "delivered": delivered,
				"ret": ret, "render": M{"string": "ok", "json": "ok"}, "cfg": projCfgRouted(cfg), "classes": seq, "rig": "L", "asked": src != nil,
				"elapsed_ms": int(elapsed / time.Millisecond), "T_ms": int(time.Duration(T) * tick / time.Millisecond)}
		}
	}
}
