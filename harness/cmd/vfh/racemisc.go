package main

import (
	"math/rand"
	"net"
	"net/netip"
	"os"
	"sync"
	"sync/atomic"
	"time"

	"github.com/uhppoted/uhppote-core/types"
	"github.com/uhppoted/uhppote-core/uhppote"
)

func init() { commands["racemisc"] = runRaceMisc }

type nullListener struct{ n int32 }

func (l *nullListener) OnConnected()            {}
func (l *nullListener) OnEvent(s *types.Status) { atomic.AddInt32(&l.n, 1); _ = s.String() }
func (l *nullListener) OnError(err error) bool  { return true }

// runRaceMisc exercises, for the race detector, (1) discovery while replies are still arriving
// (some right at the end of the window), (2) the event listener being shut down while events
// flow, (3) concurrent calls on one client alongside them. No verdict here: the orchestrator reads
// the race detector's log.
func runRaceMisc(o *opts) (*summary, error) {
	lt, err := loadLayouts(o.extraArg("layouts"))
	if err != nil {
		return nil, err
	}
	rng := rand.New(rand.NewSource(o.seed))
	var rmu sync.Mutex

	// (0) cold start: the very first calls of the process - one goroutine per operation, all released at once, on one
	// client over the scripted transport (whatever the codec or the client memoises on first use is being filled in
	// concurrently), then a second wave on a second client
	for wave := 0; wave < 2; wave++ {
		u, d := stubClient(stubCfgs[1+wave])
		d.script = func(method string, req []byte) [][]byte {
			for op, l := range lt.Rsp {
				if len(req) > 1 && l.Code == int(req[1]) && op != "" {
					rmu.Lock()
					m := l.message(rng, 0x17, req[4:8], "valid", nil)
					rmu.Unlock()
					return [][]byte{m}
				}
			}
			return nil
		}
		calls := []callSpec{}
		g := &G{r: rand.New(rand.NewSource(o.seed + int64(wave))), inDomain: true}
		for _, op := range allOps {
			calls = append(calls, g.call(op, 405419896), g.call(op, 303986753))
		}
		gate := make(chan struct{})
		var wg sync.WaitGroup
		for _, cs := range calls {
			wg.Add(1)
			go func(cs callSpec) {
				defer wg.Done()
				<-gate
				guard(func() { cs.call(u) })
			}(cs)
		}
		close(gate)
		wg.Wait()
	}
	// (0b) concurrent calls whose slice arguments are disjoint windows of ONE table of the caller's (each window has spare
	// capacity behind it - the next door's codes): a callee that writes past the window it was given races with its neighbour
	{
		u, d := stubClient(stubCfgs[1])
		d.script = func(method string, req []byte) [][]byte { return nil }
		for round := 0; round < 20; round++ {
			table := make([]uint32, 16)
			for i := range table {
				table[i] = uint32(100000 + i)
			}
			gate := make(chan struct{})
			var wg sync.WaitGroup
			for door := 0; door < 4; door++ {
				wg.Add(1)
				go func(door int) {
					defer wg.Done()
					<-gate
					win := table[4*door : 4*door+1+(door+round)%4]
					guard(func() { u.SetDoorPasscodes(405419896, uint8(door+1), win...) })
				}(door)
			}
			close(gate)
			wg.Wait()
		}
	}
	tick := 20 * time.Millisecond
	T := 3

	bcast := listenUDP()
	defer bcast.Close()
	// farm: answers every discovery request with 6 replies spread over the window and just after it
	go func() {
		buf := make([]byte, 2048)
		for {
			n, src, err := bcast.ReadFromUDP(buf)
			if err != nil {
				return
			}
			req := append([]byte{}, buf[:n]...)
			go func() {
				for i := 0; i < 8; i++ {
					rmu.Lock()
					m := lt.Rsp["GetDevice"].message(rng, 0x17, []byte{byte(i + 1), 2, 3, 4}, "valid", nil)
					if req[1] != 0x94 {
						m = lt.Rsp["GetCards"].message(rng, 0x17, req[4:8], "valid", nil)
					}
					rmu.Unlock()
					bcast.WriteToUDP(m, src)
					time.Sleep(time.Duration(T) * tick / 6)
				}
			}()
			if req[1] == 0x94 {
				// ... and a stream of replies across the END of the window (one every 150 us from T - 8 ms to T + 8 ms): the
				// collector is handing over its list while the reader is still taking datagrams in
				go func() {
					rmu.Lock()
					m := lt.Rsp["GetDevice"].message(rng, 0x17, []byte{9, 9, 9, 9}, "valid", nil)
					rmu.Unlock()
					time.Sleep(time.Duration(T)*tick - 8*time.Millisecond)
					for t0 := time.Now(); time.Since(t0) < 16*time.Millisecond; {
						bcast.WriteToUDP(m, src)
						time.Sleep(150 * time.Microsecond)
					}
				}()
			}
		}
	}()

	ap := udpAddrPort(bcast)
	lp := listenUDP()
	laddr := udpAddrPort(lp)
	lp.Close()
	u := uhppote.NewUHPPOTE(types.BindAddr{AddrPort: netip.AddrPortFrom(netip.AddrFrom4([4]byte{127, 0, 0, 1}), 0)},
		types.BroadcastAddr{AddrPort: ap}, types.ListenAddr{AddrPort: laddr}, time.Duration(T)*tick, nil, false)

	var wg sync.WaitGroup
	for i := 0; i < 6; i++ {
		wg.Add(1)
		go func() {
			defer wg.Done()
			for k := 0; k < 4; k++ {
				if l, err := u.GetDevices(); err == nil {
					_ = l
				}
			}
		}()
		wg.Add(1)
		go func(i int) {
			defer wg.Done()
			for k := 0; k < 4; k++ {
				u.GetCards(uint32(1000 + i))
			}
		}(i)
	}

	// listener start/stop cycles with events flowing
	events := 0
	for cycle := 0; cycle < 6; cycle++ {
		l := &nullListener{}
		q := make(chan os.Signal, 1)
		done := make(chan error, 1)
		go func() { done <- u.Listen(l, q) }()
		stop := make(chan struct{})
		go func() {
			c, err := net.DialUDP("udp4", nil, net.UDPAddrFromAddrPort(laddr))
			if err != nil {
				return
			}
			defer c.Close()
			for {
				select {
				case <-stop:
					return
				default:
				}
				// bursts of events back to back (the next datagram is already queued when the previous one is handed over),
				// then a short pause
				for k := 0; k < 6; k++ {
					rmu.Lock()
					m := lt.Event.message(rng, 0x17, []byte{9, 9, 9, 9}, "valid", nil)
					rmu.Unlock()
					c.Write(m)
				}
				time.Sleep(300 * time.Microsecond)
			}
		}()
		time.Sleep(time.Duration(10+rng.Intn(30)) * time.Millisecond)
		q <- os.Interrupt
		select {
		case <-done:
		case <-time.After(3 * time.Second):
		}
		close(stop)
		events += int(atomic.LoadInt32(&l.n))
		time.Sleep(5 * time.Millisecond)
	}
	wg.Wait()
	return &summary{Records: events, Extra: map[string]any{"events": events}}, nil
}
