package main

import (
	"fmt"
	"math/rand"
	"os"
	"reflect"
	"time"

	codec "github.com/uhppoted/uhppote-core/encoding/UTO311-L0x"
	"github.com/uhppoted/uhppote-core/messages"
	"github.com/uhppoted/uhppote-core/types"
	"github.com/uhppoted/uhppote-core/uhppote"
)

func init() { commands["c04"] = runC04 }

// decodeAll pushes one byte string through every decoding entry point that applies to the type;
// returns the names of the entry points that panicked
func decodeAll(b []byte, zero any, dir string) []string {
	bad := []string{}
	try := func(name string, f func() any) {
		var v any
		if p, _ := guard(func() { v = f() }); p {
			bad = append(bad, name)
			return
		}
		if v != nil {
			if r := render(v, nil); r["string"] != "ok" || r["json"] != "ok" {
				bad = append(bad, name+"/render")
			}
		}
	}
	t := reflect.TypeOf(zero)
	try("Unmarshal", func() any {
		out := reflect.New(t)
		if err := codec.Unmarshal(b, out.Interface()); err != nil {
			return nil
		}
		return out.Elem().Interface()
	})
	try("UnmarshalAs", func() any {
		v, err := codec.UnmarshalAs(b, zero)
		if err != nil {
			return nil
		}
		return v
	})
	try("UnmarshalArrayElement", func() any {
		arr := reflect.New(reflect.SliceOf(t))
		v, err := codec.UnmarshalArrayElement(b, arr.Interface())
		if err != nil {
			return nil
		}
		return v
	})
	// the list form: the byte string alone, behind a well-formed datagram, in front of one, and next to nil / empty ones
	try("UnmarshalArray", func() any {
		good := make([]byte, 64)
		good[0] = 0x17
		if tag := functionCodeOf(t); tag >= 0 {
			good[1] = byte(tag)
		}
		var last any
		for _, list := range [][][]byte{{b}, {good, b}, {b, good}, {good, nil, b}, {{}, b}, {}} {
			arr := reflect.New(reflect.SliceOf(t))
			if err := codec.UnmarshalArray(list, arr.Interface()); err == nil && arr.Elem().Len() > 0 {
				last = arr.Elem().Index(arr.Elem().Len() - 1).Interface()
			}
		}
		return last
	})
	switch dir {
	case "req":
		try("UnmarshalRequest", func() any {
			v, err := messages.UnmarshalRequest(b)
			if err != nil {
				return nil
			}
			return v
		})
	case "rsp":
		try("UnmarshalResponse", func() any {
			v, err := messages.UnmarshalResponse(b)
			if err != nil {
				return nil
			}
			return v
		})
	}
	return bad
}

// functionCodeOf: the function code in the type's MsgType tag (-1: none)
func functionCodeOf(t reflect.Type) int {
	for i := 0; i < t.NumField(); i++ {
		if t.Field(i).Type == rtMsgType {
			var v int
			tag := t.Field(i).Tag.Get("uhppote")
			if _, err := fmt.Sscanf(tag, "value:0x%x", &v); err == nil {
				return v
			}
		}
	}
	return -1
}

type recorder struct {
	events []M
	errors int
	slow   time.Duration // a slow application: OnEvent takes this long
}

func (l *recorder) OnConnected() {}
func (l *recorder) OnEvent(s *types.Status) {
	r := render(s, nil)
	l.events = append(l.events, M{"status": projStatus(s), "render": r})
	if l.slow > 0 {
		time.Sleep(l.slow)
	}
}
func (l *recorder) OnError(err error) bool { l.errors++; return l.errors%2 == 0 } // (whatever it answers)

func runC04(o *opts) (*summary, error) {
	lt, err := loadLayouts(o.extraArg("layouts"))
	if err != nil {
		return nil, err
	}
	w, err := newShardWriter(o.out, "codec", o.shards)
	if err != nil {
		return nil, err
	}
	wa, err := newShardWriter(o.out, "api", o.shards)
	if err != nil {
		return nil, err
	}
	rng := rand.New(rand.NewSource(o.seed))
	thorough := o.tier == "thorough"

	lengths := []int{}
	for n := 0; n <= 80; n++ {
		lengths = append(lengths, n)
	}
	lengths = append(lengths, 127, 128, 129, 255, 256, 1023, 1024, 1025, 2047, 2048)

	layoutOf := func(name, dir string) layout {
		switch dir {
		case "req":
			return lt.RequestTypes[name]
		case "rsp":
			return lt.ResponseTypes[name]
		}
		return lt.Event
	}

	// ---- (a) decoding entry points --------------------------------------------------------
	fuzz := func(zero any, dir string) {
		name := reflect.TypeOf(zero).Name()
		l := layoutOf(name, dir)
		som := byte(0x17)
		if name == "EventV6_62" {
			som = 0x19
		}
		emit := func(cls string, ln int, gen func() []byte, n int) {
			panics := 0
			first := M{"t": "none"}
			for i := 0; i < n; i++ {
				b := gen()
				if bad := decodeAll(b, zero, dir); len(bad) > 0 {
					panics++
					if first["t"] == "none" {
						first = M{"t": "panic", "entry": bad, "b": ints(b)}
					}
				}
			}
			w.put(M{"fn": "fuzz", "type": name, "dir": dir, "cls": cls, "len": ln, "n": n, "panics": panics, "first": first}, "fuzz-"+cls, fmt.Sprintf("%s/%s/%d", name, cls, ln))
		}
		reps := 3
		if thorough {
			reps = 40
		}
		for _, ln := range lengths {
			ln := ln
			emit("zeros", ln, func() []byte { return make([]byte, ln) }, 1)
			emit("ff", ln, func() []byte {
				b := make([]byte, ln)
				for i := range b {
					b[i] = 0xff
				}
				return b
			}, 1)
			emit("random", ln, func() []byte { b := make([]byte, ln); rng.Read(b); return b }, reps)
			emit("header+random", ln, func() []byte {
				b := make([]byte, ln)
				rng.Read(b)
				if ln > 0 {
					b[0] = som
				}
				if ln > 1 {
					b[1] = byte(l.Code)
				}
				return b
			}, reps)
			emit("valid-prefix", ln, func() []byte {
				m := l.message(rng, som, []byte{1, 2, 3, 4}, "valid", nil)
				b := make([]byte, ln)
				copy(b, m)
				return b
			}, reps)
			emit("valid-suffix", ln, func() []byte {
				m := l.message(rng, som, []byte{1, 2, 3, 4}, "valid", nil)
				if ln <= 64 {
					return m[64-ln:]
				}
				return append(make([]byte, ln-64), m...)
			}, 1)
		}
		// each single byte of a valid message over all 256 values ("array indexed by a wire byte")
		for off := 0; off < 64; off++ {
			off := off
			v := 0
			emit(fmt.Sprintf("byte%02d-sweep", off), 64, func() []byte {
				m := l.message(rng, som, []byte{1, 2, 3, 4}, "valid", nil)
				m[off] = byte(v)
				v++
				return m
			}, 256)
		}
	}
	// every field of a valid message set to each of the special patterns (the library's own encoding of the zero
	// time, all zeros, 0xff, 0x99, ...)
	special := func(zero any, dir string) {
		name := reflect.TypeOf(zero).Name()
		l := layoutOf(name, dir)
		som := byte(0x17)
		if name == "EventV6_62" {
			som = 0x19
		}
		for _, f := range l.Fields {
			pats := specialPatterns(width(f.Kind))
			panics := 0
			first := M{"t": "none"}
			for _, pat := range pats {
				m := l.message(rng, som, []byte{1, 2, 3, 4}, "valid", nil)
				copy(m[f.Off:], pat)
				if bad := decodeAll(m, zero, dir); len(bad) > 0 {
					panics++
					if first["t"] == "none" {
						first = M{"t": "panic", "entry": bad, "b": ints(m)}
					}
				}
			}
			w.put(M{"fn": "fuzz", "type": name, "dir": dir, "cls": "special-" + f.Name, "len": 64, "n": len(pats), "panics": panics, "first": first}, "fuzz-special", fmt.Sprintf("%s/special/%s", name, f.Name))
		}
	}
	for _, set := range []struct {
		dir   string
		types []any
	}{{"req", requestTypes}, {"rsp", responseTypes}, {"event", eventTypes}} {
		for _, z := range set.types {
			special(z, set.dir)
		}
	}
	for _, z := range requestTypes {
		fuzz(z, "req")
	}
	for _, z := range responseTypes {
		fuzz(z, "rsp")
	}
	for _, z := range eventTypes {
		fuzz(z, "event")
	}

	// ---- (b) whatever the network returns to an operation ------------------------------------
	g := &G{r: rng, inDomain: false}
	u, d := stubClient(stubCfgs[1])
	nb := 12
	if thorough {
		nb = 150
	}
	mk := func(cls string, l layout, req []byte) []byte {
		ln := lengths[rng.Intn(len(lengths))]
		switch cls {
		case "random-len":
			b := make([]byte, ln)
			rng.Read(b)
			return b
		case "header-random":
			b := make([]byte, 64)
			rng.Read(b)
			b[0], b[1] = 0x17, req[1]
			copy(b[4:8], req[4:8])
			return b
		case "truncated":
			m := l.message(rng, 0x17, req[4:8], "valid", nil)
			return m[:rng.Intn(64)]
		case "padded":
			m := l.message(rng, 0x17, req[4:8], "valid", nil)
			return append(m, make([]byte, 1+rng.Intn(100))...)
		case "ff":
			b := make([]byte, 64)
			for i := range b {
				b[i] = 0xff
			}
			b[0], b[1] = 0x17, req[1]
			copy(b[4:8], req[4:8])
			return b
		case "empty":
			return []byte{}
		}
		return l.message(rng, 0x17, req[4:8], "random", nil)
	}
	for _, op := range allOps {
		l := lt.Rsp[op]
		if op == "SetAddress" {
			l = lt.Rsp["GetDevice"]
		}
		for _, cls := range []string{"random-len", "header-random", "truncated", "padded", "ff", "empty", "fields-random"} {
			for i := 0; i < nb; i++ {
				cs := g.call(op, g.serial())
				k := 1 + rng.Intn(3)
				d.script = func(method string, req []byte) [][]byte {
					out := [][]byte{}
					for j := 0; j < k; j++ {
						out = append(out, mk(cls, l, req))
					}
					return out
				}
				rec := doCall(u, d, cs)
				wa.put(rec, "net-"+cls, fmt.Sprintf("%s/%s/%d", op, cls, i))
			}
		}
	}

	// ---- (c) argument tuples: nil maps, nil / short IPs, zero and extreme dates, out-of-range enums ----
	d.script = nil
	ext := extremeCalls(rng)
	for i, cs := range ext {
		wa.put(doCall(u, d, cs), "args-extreme", fmt.Sprintf("x%d", i))
	}
	// ... and the same tuples ANSWERED by a well-formed reply: what comes back for an out-of-range argument (built from the
	// reply, or from the argument) is rendered like any other result
	d.script = func(method string, req []byte) [][]byte {
		for op, l := range lt.Rsp {
			if len(req) > 1 && l.Code == int(req[1]) && op != "" {
				m := l.message(rng, 0x17, req[4:8], "valid", nil)
				if len(req) >= 11 {
					copy(m[8:9], req[8:9]) // (the door / first argument byte echoed, the way a controller answers a set request)
				}
				return [][]byte{m}
			}
		}
		return nil
	}
	for i, cs := range extremeCalls(rng) {
		wa.put(doCall(u, d, cs), "args-extreme-answered", fmt.Sprintf("xa%d", i))
	}
	d.script = nil
	na := 40
	if thorough {
		na = 1500
	}
	for _, op := range allOps {
		for i := 0; i < na; i++ {
			s := g.serial()
			if rng.Intn(10) == 0 {
				s = 0
			}
			wa.put(doCall(u, d, g.call(op, s)), "args-random", fmt.Sprintf("%s/%d", op, i))
		}
	}

	// ---- (d) the event listener: arbitrary datagrams through the handler ------------------------
	evs := [][]byte{}
	for i := 0; i < 400; i++ {
		switch rng.Intn(5) {
		case 0:
			b := make([]byte, lengths[rng.Intn(len(lengths))])
			rng.Read(b)
			evs = append(evs, b)
		case 1:
			evs = append(evs, lt.Event.message(rng, 0x17, []byte{1, 2, 3, 4}, "random", nil))
		case 2:
			evs = append(evs, lt.Event.message(rng, 0x19, []byte{1, 2, 3, 4}, "valid", nil))
		case 3:
			m := lt.Event.message(rng, 0x17, []byte{1, 2, 3, 4}, "valid", nil)
			m[rng.Intn(64)] = byte(rng.Intn(256))
			evs = append(evs, m)
		default:
			evs = append(evs, lt.Event.message(rng, 0x17, []byte{byte(rng.Intn(2)), 0, 0, 0}, "valid", nil))
		}
	}
	{
		ul, dl := stubClient(clientCfg{Listen: "127.0.0.1:60001"})
		dl.events = evs
		rec := &recorder{}
		q := make(chan os.Signal, 1)
		done := make(chan M, 1)
		go func() {
			var err error
			p, msg := guard(func() { err = ul.Listen(rec, q) })
			out := M{"t": "ok"}
			if p {
				out = M{"t": "panic", "msg": msg}
			} else if err != nil {
				out = M{"t": "err"}
			}
			done <- out
		}()
		time.Sleep(300 * time.Millisecond)
		q <- os.Interrupt
		var ret M
		select {
		case ret = <-done:
		case <-time.After(5 * time.Second):
			ret = M{"t": "hung"}
		}
		bad := 0
		for _, e := range rec.events {
			r := e["render"].(M)
			if r["string"] != "ok" || r["json"] != "ok" {
				bad++
			}
		}
		first := M{"t": "none"}
		if ret["t"] == "panic" || bad > 0 {
			first = M{"t": "panic", "ret": ret, "badrender": bad}
		}
		panics := bad
		if ret["t"] == "panic" {
			panics++
		}
		w.put(M{"fn": "fuzz", "type": "Listen", "dir": "event", "cls": "listener", "len": 0, "n": len(evs), "panics": panics, "first": first,
			"events": len(rec.events), "errors": rec.errors}, "listener", "listener")
	}

	s := w.close()
	sa := wa.close()
	s.Extra = map[string]any{"api": sa}
	return s, nil
}

// extremeCalls: hand-picked argument tuples at and beyond the edges of the Go types
func extremeCalls(rng *rand.Rand) []callSpec {
	out := []callSpec{}
	add := func(op string, f func(u uhppote.IUHPPOTE) (any, error)) {
		out = append(out, callSpec{op: op, args: M{"serial": u32(1), "extreme": true}, call: f})
	}
	far := types.Date(time.Date(20000, 1, 1, 0, 0, 0, 0, time.UTC))
	neg := types.Date(time.Date(-5, 1, 1, 0, 0, 0, 0, time.UTC))
	dates := []types.Date{{}, far, neg, types.ToDate(9999, 12, 31), types.ToDate(0, 0, 0)}
	hhmms := []types.HHmm{types.NewHHmm(0, 0), types.NewHHmm(100, 100), types.NewHHmm(-1, -1), types.NewHHmm(1<<30, 1<<30), types.NewHHmm(24, 60)}
	for _, from := range dates {
		for _, to := range dates {
			from, to := from, to
			add("PutCard", func(u uhppote.IUHPPOTE) (any, error) {
				return u.PutCard(1, types.Card{CardNumber: 8000001, From: from, To: to, Doors: nil, PIN: 0})
			})
			for _, h := range hhmms {
				h := h
				add("AddTask", func(u uhppote.IUHPPOTE) (any, error) {
					return u.AddTask(1, types.Task{Task: types.TaskType(rng.Intn(300) - 20), From: from, To: to, Start: h, Weekdays: nil})
				})
				add("SetTimeProfile", func(u uhppote.IUHPPOTE) (any, error) {
					return u.SetTimeProfile(1, types.TimeProfile{ID: 2, From: from, To: to, Weekdays: nil, Segments: types.Segments{1: {Start: h, End: h}, 2: {Start: h, End: hhmms[0]}, 3: {}}})
				})
				add("SetTimeProfile", func(u uhppote.IUHPPOTE) (any, error) {
					return u.SetTimeProfile(1, types.TimeProfile{ID: 2, From: from, To: to, Weekdays: nil, Segments: nil})
				})
			}
		}
	}
	for _, t := range []time.Time{{}, time.Date(20000, 1, 1, 0, 0, 0, 0, time.UTC), time.Date(-5, 1, 1, 0, 0, 0, 0, time.UTC), time.Unix(1<<40, 0), time.Unix(-1<<40, 0)} {
		t := t
		add("SetTime", func(u uhppote.IUHPPOTE) (any, error) { return u.SetTime(1, t) })
	}
	for _, st := range []int{-1, 4, 255, 256, 1 << 30, -1 << 30} {
		st := st
		add("SetDoorControlState", func(u uhppote.IUHPPOTE) (any, error) {
			return u.SetDoorControlState(1, 1, types.ControlState(st), 5)
		})
	}
	add("ActivateKeypads", func(u uhppote.IUHPPOTE) (any, error) { return u.ActivateKeypads(1, nil) })
	add("SetAddress", func(u uhppote.IUHPPOTE) (any, error) { return u.SetAddress(1, nil, nil, nil) })
	add("SetAddress", func(u uhppote.IUHPPOTE) (any, error) {
		return u.SetAddress(1, []byte{1}, []byte{1, 2, 3, 4, 5}, make([]byte, 17))
	})
	add("SetDoorPasscodes", func(u uhppote.IUHPPOTE) (any, error) { return u.SetDoorPasscodes(1, 1) })
	add("PutCard", func(u uhppote.IUHPPOTE) (any, error) {
		return u.PutCard(1, types.Card{CardNumber: 8000001}, types.CardFormat(200), types.CardFormat(7))
	})
	return out
}
