package main

import (
	"encoding/json"
	"math/rand"
	"os"
)

// Layout tables are NOT part of the harness: they are exported by TLC from spec/Messages.tla
// (MC_Export) and only used to *generate* datagrams field by field.
type field struct {
	Name string `json:"name"`
	Kind string `json:"kind"`
	Off  int    `json:"off"`
}

type layout struct {
	Code   int     `json:"code"`
	Fields []field `json:"fields"`
}

type layoutTables struct {
	Req           map[string]layout `json:"req"`
	Rsp           map[string]layout `json:"rsp"`
	Event         layout            `json:"event"`
	RequestTypes  map[string]layout `json:"requestTypes"`
	ResponseTypes map[string]layout `json:"responseTypes"`
}

func loadLayouts(path string) (*layoutTables, error) {
	b, err := os.ReadFile(path)
	if err != nil {
		return nil, err
	}
	t := layoutTables{}
	if err := json.Unmarshal(b, &t); err != nil {
		return nil, err
	}
	return &t, nil
}

func width(kind string) int {
	switch kind {
	case "u8", "bool":
		return 1
	case "u16", "version", "hhmm", "hhmmp":
		return 2
	case "pin", "sysdate", "systime":
		return 3
	case "u32", "serial", "ipv4", "date":
		return 4
	case "addrport", "mac":
		return 6
	case "datetime":
		return 7
	}
	panic("unknown kind " + kind)
}

func bcd2(n int) byte { return byte(n/10<<4 | n%10) }

// fieldBytes generates the wire bytes of one field. class: "valid" (in the field's domain),
// "zero", "out" (outside the domain), "random".
// specialPatterns: byte patterns of width w that decoders tend to single out - all zero, all 0xff, all 0x99,
// the library's own encoding of the zero time (0001-01-01 00:00:00), a clock that was never set (2000-00-00),
// 0x01 repeated, and the highest / lowest decimal values
func specialPatterns(w int) [][]byte {
	rep := func(x byte) []byte {
		b := make([]byte, w)
		for i := range b {
			b[i] = x
		}
		return b
	}
	cut := func(p []byte) []byte {
		b := make([]byte, w)
		copy(b, p)
		return b
	}
	return [][]byte{rep(0), rep(0xff), rep(0x99), rep(0x01), cut([]byte{0x00, 0x01, 0x01, 0x01, 0, 0, 0}), cut([]byte{0x20, 0, 0, 0, 0, 0, 0}),
		cut([]byte{0x01, 0x01, 0x01, 0, 0, 0, 0}), cut([]byte{0x99, 0x99, 0x12, 0x31, 0x23, 0x59, 0x59}), cut([]byte{0x24, 0x00, 0, 0, 0, 0, 0})}
}

func fieldBytes(r *rand.Rand, kind, class string) []byte {
	n := width(kind)
	b := make([]byte, n)
	if class == "zero" {
		return b
	}
	if class == "random" {
		r.Read(b)
		return b
	}
	valid := class == "valid"
	ymd := func(century bool) (int, int, int) {
		y := 1990 + r.Intn(60)
		// the ends of the representable range and the years around a century (with the 4-digit year only)
		if century && valid && r.Intn(6) == 0 {
			y = []int{1, 2, 1899, 1900, 1999, 2000, 2001, 2099, 2100, 9998, 9999}[r.Intn(11)]
			m := []int{1, 2, 12, 1 + r.Intn(12)}[r.Intn(4)]
			d := []int{1, 2, daysIn(y, m), 1 + r.Intn(daysIn(y, m))}[r.Intn(4)]
			if y == 1 && m == 1 && d == 1 {
				d = 2 // 0001-01-01 is the zero value
			}
			return y, m, d
		}
		if !century {
			y %= 100
			if y >= 69 {
				y -= 50
			}
		}
		m := 1 + r.Intn(12)
		yy := y
		if !century {
			yy += 2000
		}
		d := 1 + r.Intn(daysIn(yy, m))
		return y, m, d
	}
	switch kind {
	case "u8", "u16", "u32", "serial", "ipv4", "addrport", "mac", "version":
		r.Read(b) // total kinds: every pattern is in the domain
		switch r.Intn(12) {
		case 0:
			copy(b, make([]byte, n)) // all zero: 0.0.0.0, port 0, "no listener", 00:00:00:00:00:00
		case 1:
			for i := range b {
				b[i] = 0xff
			}
		case 2:
			if kind == "addrport" {
				b[4], b[5] = 0, 0 // an address without a port
			}
		case 3:
			if kind == "addrport" {
				b[0], b[1], b[2], b[3] = 0, 0, 0, 0 // a port without an address
			}
		}
		if kind == "u32" && r.Intn(8) == 0 {
			copy(b, [][]byte{{0, 0, 0, 0}, {0xff, 0xff, 0xff, 0xff}, {0xff, 0xff, 0xff, 0}, {1, 0, 0, 0}}[r.Intn(4)])
		}
	case "pin":
		v := r.Intn(1000000)
		b[0], b[1], b[2] = byte(v), byte(v>>8), byte(v>>16)
	case "bool":
		if valid {
			b[0] = byte(r.Intn(2))
		} else {
			b[0] = byte(2 + r.Intn(254))
		}
	case "date":
		y, m, d := ymd(true)
		if !valid {
			switch r.Intn(5) {
			case 0:
				m = 13 + r.Intn(87)
			case 1:
				d = daysIn(y, m) + 1 + r.Intn(3)
			case 2:
				m = 0
			case 3:
				d = 0
			}
		}
		b[0], b[1], b[2], b[3] = bcd2(y/100), bcd2(y%100), bcd2(m), bcd2(d)
		if !valid && r.Intn(3) == 0 {
			b[r.Intn(4)] |= byte(0xa+r.Intn(6)) << uint(4*r.Intn(2))
		}
	case "datetime":
		y, m, d := ymd(true)
		h, mi, s := r.Intn(24), r.Intn(60), r.Intn(60)
		if valid && r.Intn(6) == 0 {
			x := [][3]int{{0, 0, 0}, {23, 59, 59}, {0, 0, 1}, {12, 0, 0}, {0, 59, 59}}[r.Intn(5)]
			h, mi, s = x[0], x[1], x[2]
		}
		if !valid {
			switch r.Intn(6) {
			case 0:
				m = 13 + r.Intn(20)
			case 1:
				d = daysIn(y, m) + 1
			case 2:
				h = 24 + r.Intn(76)
			case 3:
				mi = 60 + r.Intn(40)
			case 4:
				s = 60 + r.Intn(40)
			case 5:
				d = 0
			}
		}
		copy(b, []byte{bcd2(y / 100), bcd2(y % 100), bcd2(m), bcd2(d), bcd2(h), bcd2(mi), bcd2(s)})
		if !valid && r.Intn(3) == 0 {
			b[r.Intn(7)] |= byte(0xa+r.Intn(6)) << uint(4*r.Intn(2))
		}
	case "sysdate":
		y, m, d := ymd(false)
		if !valid {
			switch r.Intn(3) {
			case 0:
				m = 13 + r.Intn(20)
			case 1:
				d = daysIn(2000+y, m) + 1
			case 2:
				m = 0
			}
		}
		copy(b, []byte{bcd2(y), bcd2(m), bcd2(d)})
		if !valid && r.Intn(3) == 0 {
			b[r.Intn(3)] |= byte(0xa+r.Intn(6)) << uint(4*r.Intn(2))
		}
	case "systime":
		h, mi, s := r.Intn(24), r.Intn(60), r.Intn(60)
		if valid && r.Intn(6) == 0 {
			x := [][3]int{{0, 0, 0}, {23, 59, 59}, {0, 0, 1}, {12, 0, 0}}[r.Intn(4)]
			h, mi, s = x[0], x[1], x[2]
		}
		if !valid {
			switch r.Intn(3) {
			case 0:
				h = 24 + r.Intn(76)
			case 1:
				mi = 60 + r.Intn(40)
			case 2:
				s = 60 + r.Intn(40)
			}
		}
		copy(b, []byte{bcd2(h), bcd2(mi), bcd2(s)})
		if !valid && r.Intn(3) == 0 {
			b[r.Intn(3)] |= byte(0xa+r.Intn(6)) << uint(4*r.Intn(2))
		}
	case "hhmm", "hhmmp":
		h, mi := r.Intn(24), r.Intn(60)
		if valid && r.Intn(8) == 0 {
			h, mi = 24, 0
		}
		if !valid {
			switch r.Intn(4) {
			case 0:
				h = 25 + r.Intn(75)
			case 1:
				mi = 60 + r.Intn(40)
			case 2:
				h, mi = 24, 1+r.Intn(59)
			case 3:
				mi = 60
			}
		}
		copy(b, []byte{bcd2(h), bcd2(mi)})
		if !valid && r.Intn(4) == 0 {
			b[r.Intn(2)] |= byte(0xa+r.Intn(6)) << uint(4*r.Intn(2))
		}
	}
	return b
}

// message builds a 64-byte message of the layout: header from (som, code, serial), every field
// filled by class (classOf may return "" for the default class).
func (l layout) message(r *rand.Rand, som byte, serial []byte, def string, classOf func(f field) string) []byte {
	m := make([]byte, 64)
	for _, f := range l.Fields {
		c := def
		if classOf != nil {
			if x := classOf(f); x != "" {
				c = x
			}
		}
		copy(m[f.Off:], fieldBytes(r, f.Kind, c))
	}
	m[0] = som
	m[1] = byte(l.Code)
	copy(m[4:8], serial)
	return m
}

// slackOffsets: the payload positions (0-based, 8..63) that belong to no field of the (TLC-exported) layout
func (l layout) slackOffsets() []int {
	used := map[int]bool{}
	for _, f := range l.Fields {
		for i := 0; i < width(f.Kind); i++ {
			used[f.Off+i] = true
		}
	}
	o := []int{2, 3} // (the two header bytes behind the function code belong to no field either)
	for i := 8; i < 64; i++ {
		if !used[i] {
			o = append(o, i)
		}
	}
	return o
}

func (l layout) fieldOffsets() []int {
	o := []int{}
	for _, f := range l.Fields {
		if f.Name == "SerialNumber" {
			continue
		}
		for i := 0; i < width(f.Kind); i++ {
			o = append(o, f.Off+i)
		}
	}
	return o
}

// slack positions (1-based) per message type name, exported by TLC (Wire!SlackBytes)
func loadSlack(path string) (map[string][]int, error) {
	b, err := os.ReadFile(path)
	if err != nil {
		return nil, err
	}
	m := map[string][]int{}
	if err := json.Unmarshal(b, &m); err != nil {
		return nil, err
	}
	return m, nil
}
