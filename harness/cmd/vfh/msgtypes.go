package main

import (
	"fmt"
	"math/rand"
	"net"
	"net/netip"
	"reflect"
	"sync"
	"time"

	"github.com/uhppoted/uhppote-core/messages"
	"github.com/uhppoted/uhppote-core/types"
)

// registry of the library's message types (Go type name -> zero value)
var requestTypes = []any{
	messages.GetStatusRequest{}, messages.SetTimeRequest{}, messages.GetTimeRequest{}, messages.OpenDoorRequest{},
	messages.PutCardRequest{}, messages.DeleteCardRequest{}, messages.DeleteCardsRequest{}, messages.GetCardsRequest{},
	messages.GetCardByIDRequest{}, messages.GetCardByIndexRequest{}, messages.SetDoorControlStateRequest{},
	messages.GetDoorControlStateRequest{}, messages.SetTimeProfileRequest{}, messages.ClearTimeProfilesRequest{},
	messages.SetDoorPasscodesRequest{}, messages.RecordSpecialEventsRequest{}, messages.SetListenerRequest{},
	messages.GetListenerRequest{}, messages.GetDeviceRequest{}, messages.SetAddressRequest{}, messages.GetTimeProfileRequest{},
	messages.SetPCControlRequest{}, messages.SetInterlockRequest{}, messages.ActivateAccessKeypadsRequest{},
	messages.ClearTaskListRequest{}, messages.AddTaskRequest{}, messages.SetFirstCardRequest{}, messages.RefreshTaskListRequest{},
	messages.GetEventRequest{}, messages.SetEventIndexRequest{}, messages.GetEventIndexRequest{}, messages.RestoreDefaultParametersRequest{},
}

var responseTypes = []any{
	messages.GetStatusResponse{}, messages.SetTimeResponse{}, messages.GetTimeResponse{}, messages.OpenDoorResponse{},
	messages.PutCardResponse{}, messages.DeleteCardResponse{}, messages.DeleteCardsResponse{}, messages.GetCardsResponse{},
	messages.GetCardByIDResponse{}, messages.GetCardByIndexResponse{}, messages.SetDoorControlStateResponse{},
	messages.GetDoorControlStateResponse{}, messages.SetTimeProfileResponse{}, messages.ClearTimeProfilesResponse{},
	messages.SetDoorPasscodesResponse{}, messages.RecordSpecialEventsResponse{}, messages.SetListenerResponse{},
	messages.GetListenerResponse{}, messages.GetDeviceResponse{}, messages.GetTimeProfileResponse{},
	messages.SetPCControlResponse{}, messages.SetInterlockResponse{}, messages.ActivateAccessKeypadsResponse{},
	messages.ClearTaskListResponse{}, messages.AddTaskResponse{}, messages.SetFirstCardResponse{}, messages.RefreshTaskListResponse{},
	messages.GetEventResponse{}, messages.SetEventIndexResponse{}, messages.GetEventIndexResponse{}, messages.RestoreDefaultParametersResponse{},
}

var eventTypes = []any{messages.Event{}, messages.EventV6_62{}}

var (
	rtMsgType  = reflect.TypeOf(types.MsgType(0))
	rtSOM      = reflect.TypeOf(types.SOM(0))
	rtSerial   = reflect.TypeOf(types.SerialNumber(0))
	rtDate     = reflect.TypeOf(types.Date{})
	rtDateTime = reflect.TypeOf(types.DateTime{})
	rtSysDate  = reflect.TypeOf(types.SystemDate{})
	rtSysTime  = reflect.TypeOf(types.SystemTime{})
	rtHHmm     = reflect.TypeOf(types.HHmm{})
	rtHHmmP    = reflect.TypeOf(&types.HHmm{})
	rtDateP    = reflect.TypeOf(&types.Date{})
	rtDTP      = reflect.TypeOf(&types.DateTime{})
	rtPIN      = reflect.TypeOf(types.PIN(0))
	rtIP       = reflect.TypeOf(net.IP{})
	rtAddrPort = reflect.TypeOf(netip.AddrPort{})
	rtMAC      = reflect.TypeOf(types.MacAddress{})
	rtHW       = reflect.TypeOf(net.HardwareAddr{})
	rtVersion  = reflect.TypeOf(types.Version(0))
	rtU8       = reflect.TypeOf(uint8(0))
	rtU16      = reflect.TypeOf(uint16(0))
	rtU32      = reflect.TypeOf(uint32(0))
	rtBool     = reflect.TypeOf(false)
)

// genField sets f to a generated in-domain value (dates / times are civil values built in
// time.Local, the way the library itself builds them) and returns its abstract form.
// transitionDays: the civil days (in the process-local zone) on which the zone's offset changes, 1900-2100 -
// the days on which a decode that goes through local midnight or adds a clock reading to it goes wrong
var transitionDaysOnce sync.Once
var transitionDaysPool [][3]int

func transitionDays() [][3]int {
	transitionDaysOnce.Do(func() {
		seen := map[[3]int]bool{}
		t := time.Date(1900, 1, 1, 12, 0, 0, 0, time.Local)
		limit := time.Date(2100, 1, 1, 0, 0, 0, 0, time.UTC)
		for i := 0; i < 2000; i++ {
			_, end := t.ZoneBounds()
			if end.IsZero() || end.After(limit) {
				break
			}
			if _, o1 := end.Add(-time.Second).Zone(); true {
				if _, o2 := end.Zone(); o1 == o2 {
					break // (no offset change: beyond the zone's table ZoneBounds returns instants that are none)
				}
			}
			for _, x := range []time.Time{end.Add(-time.Second), end} {
				y, m, d := x.Date()
				k := [3]int{y, int(m), d}
				if !seen[k] && dayExists(y, int(m), d) {
					seen[k] = true
					transitionDaysPool = append(transitionDaysPool, k)
				}
			}
			t = end.Add(time.Hour)
		}
	})
	return transitionDaysPool
}

func genField(r *rand.Rand, f reflect.Value, zeroOK bool) any {
	g := &G{r: r, inDomain: true}
	// a quarter of the calendar values fall on a day on which the process zone changes its offset
	if pool := transitionDays(); len(pool) > 0 && r.Intn(4) == 0 {
		switch f.Type() {
		case rtDate, rtDateP, rtDateTime, rtDTP:
			g.dates = [][3]int{pool[r.Intn(len(pool))]}
			zeroOK = false
		}
	}
	local := func(y, m, d, h, mi, s int) time.Time { return time.Date(y, time.Month(m), d, h, mi, s, 0, time.Local) }
	switch f.Type() {
	case rtU8:
		v := r.Intn(256)
		if r.Intn(6) == 0 {
			v = []int{0, 1, 127, 128, 254, 255}[r.Intn(6)]
		}
		f.SetUint(uint64(v))
		return v
	case rtU16:
		v := r.Intn(65536)
		if r.Intn(5) == 0 {
			v = []int{0, 1, 255, 256, 0x7fff, 0x8000, 0xff00, 65535}[r.Intn(8)]
		}
		f.SetUint(uint64(v))
		return v
	case rtU32, rtSerial:
		v := g.u32()
		f.SetUint(uint64(v))
		return u32(v)
	case rtPIN:
		v := g.pin()
		f.SetUint(uint64(v))
		return u32(v)
	case rtVersion:
		v := r.Intn(65536)
		if r.Intn(5) == 0 {
			v = []int{0, 1, 255, 256, 0x0662, 0x9999, 65535}[r.Intn(7)]
		}
		f.SetUint(uint64(v))
		return v
	case rtBool:
		v := r.Intn(2) == 0
		f.SetBool(v)
		return v
	case rtIP:
		b := []byte{byte(r.Intn(256)), byte(r.Intn(256)), byte(r.Intn(256)), byte(r.Intn(256))}
		if r.Intn(5) == 0 {
			b = [][]byte{{0, 0, 0, 0}, {255, 255, 255, 255}, {0, 0, 0, 1}, {255, 0, 0, 0}, {127, 0, 0, 1}}[r.Intn(5)]
		}
		if r.Intn(2) == 0 {
			f.Set(reflect.ValueOf(net.IPv4(b[0], b[1], b[2], b[3])))
		} else {
			f.Set(reflect.ValueOf(net.IP(b)))
		}
		return ints(b)
	case rtAddrPort:
		b := [4]byte{byte(r.Intn(256)), byte(r.Intn(256)), byte(r.Intn(256)), byte(r.Intn(256))}
		port := r.Intn(65536)
		// the boundary values: no address, no port, neither ("no listener"), both at their maximum
		switch r.Intn(10) {
		case 0:
			b, port = [4]byte{}, 0
		case 1:
			port = 0
		case 2:
			b = [4]byte{}
		case 3:
			b, port = [4]byte{255, 255, 255, 255}, 65535
		case 4:
			port = []int{1, 255, 256, 60000, 65535}[r.Intn(5)]
		}
		f.Set(reflect.ValueOf(netip.AddrPortFrom(netip.AddrFrom4(b), uint16(port))))
		return M{"ip": ints(b[:]), "port": port}
	case rtMAC:
		b := make([]byte, 6)
		r.Read(b)
		if r.Intn(6) == 0 {
			b = [][]byte{{0, 0, 0, 0, 0, 0}, {255, 255, 255, 255, 255, 255}}[r.Intn(2)]
		}
		f.Set(reflect.ValueOf(types.MacAddress(b)))
		return ints(b)
	case rtHW:
		b := make([]byte, 6)
		r.Read(b)
		f.Set(reflect.ValueOf(net.HardwareAddr(b)))
		return ints(b)
	case rtDate, rtDateP:
		if zeroOK && r.Intn(6) == 0 {
			if f.Type() == rtDateP {
				z := types.Date{}
				f.Set(reflect.ValueOf(&z))
			}
			return M{"t": "zero"}
		}
		y, m, d := g.ymd()
		t := local(y, m, d, 12, 0, 0) // noon: exists in every zone on every existing day
		t = time.Date(y, time.Month(m), d, 0, 0, 0, 0, time.Local)
		yy, mm, dd := t.Date()
		if yy != y || int(mm) != m || dd != d {
			// local midnight does not exist on this day (C13's subject): use noon of the same day
			t = local(y, m, d, 12, 0, 0)
		}
		v := types.Date(t)
		if f.Type() == rtDateP {
			f.Set(reflect.ValueOf(&v))
		} else {
			f.Set(reflect.ValueOf(v))
		}
		return M{"t": "date", "y": y, "m": m, "d": d}
	case rtDateTime, rtDTP:
		if zeroOK && r.Intn(6) == 0 {
			if f.Type() == rtDTP {
				z := types.DateTime{}
				f.Set(reflect.ValueOf(&z))
			}
			return M{"t": "zero"}
		}
		y, m, d := g.ymd()
		for try := 0; ; try++ {
			if try%20 == 19 {
				y, m, d = g.ymd()
			}
			h, mi, s := r.Intn(24), r.Intn(60), r.Intn(60)
			t := local(y, m, d, h, mi, s)
			yy, mm, dd := t.Date()
			hh, mmi, ss := t.Clock()
			if yy != y || int(mm) != m || dd != d || hh != h || mmi != mi || ss != s {
				continue // this civil time does not exist in the process zone
			}
			// a civil time that occurs twice (clocks set back) decodes to one of its two instants:
			// the civil fields are what is compared
			v := types.DateTime(t)
			if f.Type() == rtDTP {
				f.Set(reflect.ValueOf(&v))
			} else {
				f.Set(reflect.ValueOf(v))
			}
			return M{"t": "dt", "y": y, "m": m, "d": d, "h": h, "mi": mi, "s": s}
		}
	case rtSysDate:
		if zeroOK && r.Intn(6) == 0 {
			return M{"t": "zero"}
		}
		y := 2000 + r.Intn(69)
		m := 1 + r.Intn(12)
		d := 1 + r.Intn(daysIn(y, m))
		if pool := transitionDays(); len(pool) > 0 && r.Intn(3) == 0 {
			if x := pool[r.Intn(len(pool))]; x[0] >= 2000 && x[0] <= 2068 {
				y, m, d = x[0], x[1], x[2]
			}
		}
		t := time.Date(y, time.Month(m), d, 0, 0, 0, 0, time.Local)
		if yy, mm, dd := t.Date(); yy != y || int(mm) != m || dd != d {
			t = local(y, m, d, 12, 0, 0)
		}
		f.Set(reflect.ValueOf(types.SystemDate(t)))
		return M{"t": "date", "y": y, "m": m, "d": d}
	case rtSysTime:
		h, mi, s := r.Intn(24), r.Intn(60), r.Intn(60)
		if r.Intn(5) == 0 {
			x := [][3]int{{0, 0, 0}, {23, 59, 59}, {0, 0, 1}, {12, 0, 0}, {0, 59, 0}}[r.Intn(5)]
			h, mi, s = x[0], x[1], x[2]
		}
		f.Set(reflect.ValueOf(types.SystemTime(time.Date(0, 1, 1, h, mi, s, 0, time.UTC))))
		return M{"h": h, "mi": mi, "s": s}
	case rtHHmm:
		v, p := g.hhmm()
		f.Set(reflect.ValueOf(v))
		return p
	case rtHHmmP:
		v, p := g.hhmm()
		f.Set(reflect.ValueOf(&v))
		return p
	}
	panic(fmt.Sprintf("genField: unsupported type %v", f.Type()))
}

// shapeClass: the shape of projField's result for a field type (Trace_Codec!ShapeClass is the layout's side of it)
func shapeClass(t reflect.Type) string {
	switch t {
	case rtU8, rtU16, rtVersion:
		return "int"
	case rtU32, rtSerial, rtPIN:
		return "pair"
	case rtBool:
		return "bool"
	case rtIP, rtMAC, rtHW:
		return "bytes"
	case rtAddrPort:
		return "addrport"
	case rtDate, rtDateP:
		return "date"
	case rtDateTime, rtDTP:
		return "datetime"
	case rtSysDate:
		return "sysdate"
	case rtSysTime:
		return "systime"
	case rtHHmm, rtHHmmP:
		return "hhmm"
	}
	return "other:" + t.String()
}

// projField: abstract form of a (decoded) field value
func projField(f reflect.Value) any {
	switch f.Type() {
	case rtU8, rtU16, rtVersion:
		return int(f.Uint())
	case rtU32, rtSerial, rtPIN:
		return u32(uint32(f.Uint()))
	case rtBool:
		return f.Bool()
	case rtIP:
		ip := f.Interface().(net.IP)
		if v4 := ip.To4(); v4 != nil {
			return ints(v4)
		}
		return ints(ip)
	case rtAddrPort:
		ap := f.Interface().(netip.AddrPort)
		ip := []int{}
		if ap.Addr().IsValid() {
			ip = ints(ap.Addr().AsSlice())
		}
		return M{"ip": ip, "port": int(ap.Port())}
	case rtMAC:
		return ints(f.Interface().(types.MacAddress))
	case rtHW:
		return ints(f.Interface().(net.HardwareAddr))
	case rtDate:
		return projDate(f.Interface().(types.Date))
	case rtDateP:
		if f.IsNil() {
			return M{"t": "nil"}
		}
		return projDate(*f.Interface().(*types.Date))
	case rtDateTime:
		return projDateTime(f.Interface().(types.DateTime))
	case rtDTP:
		if f.IsNil() {
			return M{"t": "nil"}
		}
		return projDateTime(*f.Interface().(*types.DateTime))
	case rtSysDate:
		d := f.Interface().(types.SystemDate)
		if d.IsZero() {
			return M{"t": "zero"}
		}
		y, m, dd := time.Time(d).Date()
		return M{"t": "date", "y": y, "m": int(m), "d": dd}
	case rtSysTime:
		h, mi, s := time.Time(f.Interface().(types.SystemTime)).Clock()
		return M{"h": h, "mi": mi, "s": s}
	case rtHHmm:
		return projHHmm(f.Interface().(types.HHmm))
	case rtHHmmP:
		if f.IsNil() {
			return M{"t": "nil"}
		}
		return projHHmm(*f.Interface().(*types.HHmm))
	}
	panic(fmt.Sprintf("projField: unsupported type %v", f.Type()))
}

// walk visits the tagged value fields of a message struct (through embedded structs)
func walk(v reflect.Value, fn func(name string, f reflect.Value)) {
	t := v.Type()
	for i := 0; i < t.NumField(); i++ {
		sf := t.Field(i)
		if sf.Anonymous && sf.Type.Kind() == reflect.Struct {
			walk(v.Field(i), fn)
			continue
		}
		if sf.Type == rtMsgType || sf.Type == rtSOM {
			continue
		}
		fn(sf.Name, v.Field(i))
	}
}

func projMsg(v reflect.Value) M {
	m := M{}
	walk(v, func(name string, f reflect.Value) { m[name] = projField(f) })
	return m
}
