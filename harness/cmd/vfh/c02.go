package main

import (
	"fmt"
	"math/rand"
	"os"
)

func init() { commands["c02"] = runC02 }

func projCfg(c clientCfg) M {
	devs := []any{}
	for _, d := range c.Devices {
		devs = append(devs, M{"name": d.Name, "serial": u32(d.Serial), "addr": d.Addr, "proto": d.Proto})
	}
	return M{"bind": c.Bind, "broadcast": c.Broadcast, "devices": devs}
}

// replyBearing: every operation but SetAddress (GetDevices is the discovery, C11's subject)
func replyOps() []string {
	ops := []string{}
	for _, op := range allOps {
		if op != "SetAddress" && op != "GetDevices" {
			ops = append(ops, op)
		}
	}
	return ops
}

// runC02: every operation against scripted replies that follow a correct 4+4 byte header.
func runC02(o *opts) (*summary, error) {
	lt, err := loadLayouts(o.extraArg("layouts"))
	if err != nil {
		return nil, err
	}
	w, err := newShardWriter(o.out, "api", o.shards)
	if err != nil {
		return nil, err
	}
	w.only = parseOnly(o.extraArg("only"))
	rng := rand.New(rand.NewSource(o.seed))
	g := &G{r: rng, inDomain: true}
	thorough := o.tier == "thorough"

	cfgIx := 0
	u, d := stubClient(stubCfgs[cfgIx])
	cfgP := projCfg(stubCfgs[cfgIx])
	next := func() {
		cfgIx = (cfgIx + 1) % len(stubCfgs)
		u, d = stubClient(stubCfgs[cfgIx])
		cfgP = projCfg(stubCfgs[cfgIx])
	}

	// one call answered by `mk(request)`
	run := func(op string, serial uint32, class string, mk func(l layout, req []byte) []byte) {
		cs := g.call(op, serial)
		l := lt.Rsp[op]
		d.script = func(method string, req []byte) [][]byte { return [][]byte{mk(l, req)} }
		rec := doCall(u, d, cs)
		rec["cfg"] = cfgP
		if tz := os.Getenv("TZ"); tz != "" && tz != "UTC" {
			rec["tz"] = tz
		}
		if x := o.extraArg("poison"); x != "" {
			rec["poison"] = x
		}
		w.put(rec, class, fmt.Sprintf("%s%v", argKey(cs), rec["delivered"]))
	}
	serialOf := func() uint32 {
		switch rng.Intn(3) {
		case 0:
			return 405419896
		case 1:
			return 303986753
		}
		return g.serial()
	}
	som := func(op string) byte {
		if op == "GetStatus" && rng.Intn(3) == 0 {
			return 0x19
		}
		return 0x17
	}

	// poison pass (one fresh process per k): the FIRST reply this process ever decodes for each reply type is refused
	// (its k-th field outside its domain, or a stray with another function code), the following ones are well formed -
	// whatever the codec remembers about a type from its first decode must not depend on how that decode ended
	if x := o.extraArg("poison"); x != "" {
		k := 0
		fmt.Sscanf(x, "%d", &k)
		for _, op := range replyOps() {
			next()
			fs := []field{}
			for _, f := range lt.Rsp[op].Fields {
				if f.Name != "SerialNumber" {
					fs = append(fs, f)
				}
			}
			run(op, serialOf(), "poison-first", func(l layout, req []byte) []byte {
				if len(fs) == 0 || k%(len(fs)+1) == len(fs) {
					m := l.message(rng, som(op), req[4:8], "valid", nil)
					m[1] ^= 0x03 // a stray: another function code
					return m
				}
				bad := fs[k%(len(fs)+1)]
				return l.message(rng, som(op), req[4:8], "valid", func(x field) string {
					if x.Name == bad.Name {
						return "out"
					}
					return ""
				})
			})
			for i := 0; i < 10; i++ {
				run(op, serialOf(), "poison-then-valid", func(l layout, req []byte) []byte {
					m := l.message(rng, som(op), req[4:8], "valid", nil)
					switch op {
					case "GetCardByID":
						copy(m[8:12], req[8:12])
					case "GetTimeProfile":
						m[8] = req[8]
					case "GetEvent", "GetCardByIndex":
						if i%2 == 0 {
							copy(m[8:12], req[8:12])
						}
					}
					return m
				})
			}
		}
		return w.close(), nil
	}

	// zone pass (the process zone has offset changes): well-formed replies whose calendar fields sit on the zone's
	// transition days - only civil times that exist in the zone - through the operations that carry dates or times
	if o.extraArg("zonepass") == "1" {
		n := 120
		if thorough {
			n = 1500
		}
		for _, op := range []string{"GetStatus", "GetTime", "SetTime", "GetEvent", "GetCardByIndex", "GetCardByID", "GetTimeProfile", "GetDevice"} {
			next()
			for i := 0; i < n; i++ {
				run(op, serialOf(), "zone", func(l layout, req []byte) []byte {
					m := zoneMessage(rng, l, som(op), req[4:8])
					switch op {
					case "GetCardByID":
						copy(m[8:12], req[8:12])
					case "GetTimeProfile":
						m[8] = req[8]
					case "GetEvent", "GetCardByIndex":
						copy(m[8:12], req[8:12])
					}
					return m
				})
			}
		}
		return w.close(), nil
	}

	for _, op := range replyOps() {
		next()
		// (1) well-formed replies: every field valid, random values
		n := 60
		if thorough {
			n = 3000
		}
		for i := 0; i < n; i++ {
			run(op, serialOf(), "valid", func(l layout, req []byte) []byte { return l.message(rng, som(op), req[4:8], "valid", nil) })
		}
		// replies that echo the request's own argument (card number / profile id / index): the value path
		for i := 0; i < n/2; i++ {
			run(op, serialOf(), "valid-echo", func(l layout, req []byte) []byte {
				m := l.message(rng, som(op), req[4:8], "valid", nil)
				switch op {
				case "GetCardByID":
					copy(m[8:12], req[8:12])
				case "GetTimeProfile":
					m[8] = req[8]
				case "GetEvent", "GetCardByIndex":
					if rng.Intn(4) != 0 {
						copy(m[8:12], req[8:12])
					}
				}
				return m
			})
		}
		// well-formed replies with noise in the bytes that belong to no field ("all payloads following a correct header":
		// the interpretation must not depend on them) - every slack byte in turn, then several at once
		slack := lt.Rsp[op].slackOffsets()
		for i := 0; i < len(slack)+n/4; i++ {
			i := i
			run(op, serialOf(), "valid-slack", func(l layout, req []byte) []byte {
				m := l.message(rng, som(op), req[4:8], "valid", nil)
				switch op {
				case "GetCardByID":
					copy(m[8:12], req[8:12])
				case "GetTimeProfile":
					m[8] = req[8]
				}
				if i < len(slack) {
					m[slack[i]] = byte(1 + rng.Intn(255))
				} else {
					for _, o := range slack {
						if rng.Intn(2) == 0 {
							m[o] = byte(rng.Intn(256))
						}
					}
				}
				return m
			})
		}
		// sentinels
		for i := 0; i < 12; i++ {
			i := i
			run(op, serialOf(), "sentinel", func(l layout, req []byte) []byte {
				m := l.message(rng, som(op), req[4:8], "valid", nil)
				switch op {
				case "GetCardByID", "GetCardByIndex":
					copy(m[8:12], [][]byte{{0, 0, 0, 0}, {0xff, 0xff, 0xff, 0xff}, {0xff, 0xff, 0xff, 0}, {1, 0, 0, 0}}[i%4])
				case "GetTimeProfile":
					m[8] = []byte{0, req[8], req[8] + 1, 0}[i%4]
				case "GetEvent":
					if i%3 == 0 {
						m[12] = 0xff
					}
					if i%2 == 0 {
						copy(m[8:12], []byte{0, 0, 0, 0})
					}
				case "GetStatus":
					if i%2 == 0 {
						copy(m[8:12], []byte{0, 0, 0, 0})
					}
					if i%3 == 0 {
						copy(m[51:54], []byte{0, 0, 0})
					}
					if i%4 == 0 {
						copy(m[20:27], []byte{0, 0, 0, 0, 0, 0, 0})
					}
				default:
					// all-zero payload
					for j := 8; j < 64; j++ {
						m[j] = 0
					}
				}
				return m
			})
		}
		// (2) one field outside its domain, the others valid
		for _, f := range lt.Rsp[op].Fields {
			f := f
			if f.Name == "SerialNumber" {
				continue
			}
			k := 6
			if thorough {
				k = 150
			}
			for i := 0; i < k; i++ {
				for _, cls := range []string{"out", "zero", "random"} {
					cls := cls
					run(op, serialOf(), "field-"+cls, func(l layout, req []byte) []byte {
						m := l.message(rng, som(op), req[4:8], "valid", func(x field) string {
							if x.Name == f.Name {
								return cls
							}
							return ""
						})
						if op == "GetCardByID" && f.Name != "CardNumber" {
							copy(m[8:12], req[8:12])
						}
						if op == "GetTimeProfile" && f.Name != "ProfileID" {
							m[8] = req[8]
						}
						return m
					})
				}
			}
		}
		// (2b) each field set to each special pattern (the library's own encoding of the zero time, a clock never set, ...)
		for _, f := range lt.Rsp[op].Fields {
			f := f
			if f.Name == "SerialNumber" {
				continue
			}
			for _, pat := range specialPatterns(width(f.Kind)) {
				pat := pat
				run(op, serialOf(), "field-special", func(l layout, req []byte) []byte {
					m := l.message(rng, som(op), req[4:8], "valid", nil)
					if op == "GetCardByID" && f.Name != "CardNumber" {
						copy(m[8:12], req[8:12])
					}
					if op == "GetTimeProfile" && f.Name != "ProfileID" {
						m[8] = req[8]
					}
					copy(m[f.Off:], pat)
					return m
				})
			}
		}
		// (2c) ... and each special pattern with ONE byte of it replaced by a non-decimal or out-of-range value (a "no value"
		// date in front of a time of day that is no time of day, ...): the shortcut taken for the pattern must not skip
		// the validation of the rest of the field
		for _, f := range lt.Rsp[op].Fields {
			f := f
			switch f.Kind {
			case "date", "datetime", "sysdate", "systime", "hhmm", "hhmmp":
			default:
				continue
			}
			for _, pat := range specialPatterns(width(f.Kind)) {
				for i := 0; i < width(f.Kind); i++ {
					for _, bad := range []byte{0x3a, 0xa0, 0xff, 0x99} {
						pat, i, bad := pat, i, bad
						run(op, serialOf(), "field-special-corrupt", func(l layout, req []byte) []byte {
							m := l.message(rng, som(op), req[4:8], "valid", nil)
							if op == "GetCardByID" {
								copy(m[8:12], req[8:12])
							}
							if op == "GetTimeProfile" {
								m[8] = req[8]
							}
							copy(m[f.Off:], pat)
							m[f.Off+i] = bad
							return m
						})
					}
				}
			}
		}
		// (3) every byte of every field over all 256 values, the rest valid
		step := 1
		for _, off := range lt.Rsp[op].fieldOffsets() {
			off := off
			for v := 0; v < 256; v += step {
				v := v
				run(op, serialOf(), "byte-sweep", func(l layout, req []byte) []byte {
					m := l.message(rng, som(op), req[4:8], "valid", nil)
					if op == "GetCardByID" && (off < 8 || off > 11) {
						copy(m[8:12], req[8:12])
					}
					if op == "GetTimeProfile" && off != 8 {
						m[8] = req[8]
					}
					m[off] = byte(v)
					return m
				})
			}
		}
		// (3b) refused and well-formed replies interleaved at random (whatever an aborted decode leaves behind must not
		// show in the next reply's interpretation)
		for i := 0; i < n; i++ {
			cls := []string{"valid", "out", "valid", "random", "valid", "zero"}[rng.Intn(6)]
			run(op, serialOf(), "interleaved-"+cls, func(l layout, req []byte) []byte {
				bad := -1
				if cls != "valid" && len(l.Fields) > 1 {
					bad = 1 + rng.Intn(len(l.Fields)-1)
				}
				m := l.message(rng, som(op), req[4:8], "valid", func(x field) string {
					if bad >= 0 && x.Name == l.Fields[bad].Name && x.Name != "SerialNumber" {
						return cls
					}
					return ""
				})
				if op == "GetCardByID" {
					copy(m[8:12], req[8:12])
				}
				if op == "GetTimeProfile" {
					m[8] = req[8]
				}
				return m
			})
		}
		// (4) random payloads
		for i := 0; i < n/2; i++ {
			run(op, serialOf(), "random", func(l layout, req []byte) []byte {
				m := make([]byte, 64)
				rng.Read(m)
				m[0], m[1] = 0x17, req[1]
				copy(m[4:8], req[4:8])
				return m
			})
		}
	}

	// (5) date patterns: all months 0..13 x days 0..32 for leap / non-leap / century years, in the date slots
	for _, y := range []int{2023, 2024, 1900, 2000, 1, 9999} {
		for m := 0; m <= 13; m++ {
			for dd := 0; dd <= 32; dd++ {
				y, m, dd := y, m, dd
				op := []string{"GetCardByIndex", "GetTimeProfile", "GetDevice"}[(m+dd)%3]
				run(op, serialOf(), "date-pattern", func(l layout, req []byte) []byte {
					msg := l.message(rng, 0x17, req[4:8], "valid", nil)
					for _, f := range l.Fields {
						if f.Kind == "date" {
							copy(msg[f.Off:], []byte{bcd2(y / 100), bcd2(y % 100), bcd2(m), bcd2(dd)})
						}
					}
					if op == "GetTimeProfile" {
						msg[8] = req[8]
					}
					return msg
				})
			}
		}
	}
	// HH:mm: all byte pairs in a slot (quick: the BCD-plausible quarter; thorough: all 2^16)
	for a := 0; a < 256; a++ {
		for b := 0; b < 256; b++ {
			if !thorough && !(a <= 0x30 && b <= 0x70) && rng.Intn(40) != 0 {
				continue
			}
			a, b := a, b
			run("GetTimeProfile", serialOf(), "hhmm-pattern", func(l layout, req []byte) []byte {
				msg := l.message(rng, 0x17, req[4:8], "valid", nil)
				msg[8] = req[8]
				slot := 24 + 2*((a+b)%6)
				msg[slot], msg[slot+1] = byte(a), byte(b)
				return msg
			})
		}
	}

	return w.close(), nil
}
