package main

import (
	"encoding/json"
	"fmt"
	"math/rand"
	"net"
	"net/netip"
	"runtime"
	"sync"
	"time"

	"github.com/uhppoted/uhppote-core/types"
	"github.com/uhppoted/uhppote-core/uhppote"
)

func putCardCall(serial, n uint32, pin uint32, formats []types.CardFormat, g *G) callSpec {
	from, pf := g.date(true)
	to, pt := g.date(true)
	doors, pd := g.doors()
	card := types.Card{CardNumber: n, From: from, To: to, Doors: doors, PIN: types.PIN(pin)}
	pfm := []any{}
	for _, f := range formats {
		pfm = append(pfm, int(f))
	}
	a := M{"serial": u32(serial), "card": M{"n": u32(n), "from": pf, "to": pt, "doors": pd, "pin": u32(pin)}, "formats": pfm}
	return callSpec{op: "PutCard", args: a, call: func(u uhppote.IUHPPOTE) (any, error) { return u.PutCard(serial, card, formats...) }}
}

func setListenerCall(serial uint32, ap netip.AddrPort, iv uint8) callSpec {
	a := M{"serial": u32(serial), "addr": projAddrPort(ap), "interval": int(iv)}
	return callSpec{op: "SetListener", args: a, call: func(u uhppote.IUHPPOTE) (any, error) { return u.SetListener(serial, ap, iv) }}
}

func setAddressCall(serial uint32, ip, mask, gw net.IP) callSpec {
	a := M{"serial": u32(serial), "addr": ints(ip), "mask": ints(mask), "gw": ints(gw)}
	return callSpec{op: "SetAddress", args: a, call: func(u uhppote.IUHPPOTE) (any, error) { return u.SetAddress(serial, ip, mask, gw) }}
}

func passcodesCall(serial uint32, door uint8, codes []uint32) callSpec {
	pc := []any{}
	for _, c := range codes {
		pc = append(pc, u32(c))
	}
	a := M{"serial": u32(serial), "door": int(door), "codes": pc}
	return callSpec{op: "SetDoorPasscodes", args: a, call: func(u uhppote.IUHPPOTE) (any, error) { return u.SetDoorPasscodes(serial, door, codes...) }}
}

func runC07(o *opts) (*summary, error) {
	w, err := newShardWriter(o.out, "api", o.shards)
	if err != nil {
		return nil, err
	}
	w.only = parseOnly(o.extraArg("only"))
	rng := rand.New(rand.NewSource(o.seed))
	g := &G{r: rng, inDomain: false}
	thorough := o.tier == "thorough"
	// (a client that knows some of the controllers: what is configured for a controller - its door names, say - is no
	// reason to accept or refuse an argument)
	u, d := stubClient(stubCfgs[1+int(o.seed)%(len(stubCfgs)-1)])
	emit := func(cs callSpec, class string) { w.put(doCall(u, d, cs), class, argKey(cs)) }

	// (1) controller id 0 on every operation (and, for contrast, the same generator with a valid id)
	reps := 4
	if thorough {
		reps = 60
	}
	for _, op := range allOps {
		for i := 0; i < reps; i++ {
			emit(g.call(op, 0), "id0")
			emit(g.call(op, g.serial()), "any-args")
		}
	}

	// (2) PutCard: boundary card numbers x format lists, PINs
	cards := []uint32{0, 1, 0x00ffffff, 0x00fffffe, 0x01000000, 0xffffffff, 0xfffffffe, 0x01ffffff, 0x02ffffff, 0x7fffffff, 0x80ffffff, 0xfeffffff, 0xffffff00, 0xffff00ff, 0x0100ffff, 0xff000000, 99999999, 100000000, 100000001, 2550000001, 1000000000, 4294967295, 25565535, 25565536, 25600000, 6154412}
	for f := uint32(0); f <= 256; f++ {
		for _, c := range []uint32{0, 1, 65535, 65536, 99999} {
			cards = append(cards, f*100000+c)
		}
	}
	for f := uint32(999); f <= 1000; f++ {
		for _, c := range []uint32{0, 65535, 65536, 99999} {
			cards = append(cards, f*100000+c)
		}
	}
	fmtsets := [][]types.CardFormat{nil, {types.WiegandAny}, {types.Wiegand26}, {7}, {types.Wiegand26, types.WiegandAny}, {7, types.Wiegand26}, {types.Wiegand26, types.Wiegand26}, {7, 9}}
	for _, n := range cards {
		for _, fs := range fmtsets {
			emit(putCardCall(g.serial(), n, g.pin(), fs, g), "putcard-number")
		}
	}
	for _, pin := range []uint32{0, 1, 999999, 1000000, 1000001, 1 << 24, 1<<24 - 1, 0xffffffff, 0x7fffffff} {
		for _, fs := range fmtsets[:3] {
			emit(putCardCall(g.serial(), 6154412, pin, fs, g), "putcard-pin")
		}
	}
	nr := 2000
	if thorough {
		nr = 60000
	}
	for i := 0; i < nr; i++ {
		n := g.u32()
		if rng.Intn(2) == 0 {
			n = uint32(rng.Intn(300))*100000 + uint32(rng.Intn(100000))
		}
		pin := g.pin()
		if rng.Intn(5) == 0 {
			pin = g.u32()
		}
		emit(putCardCall(g.serial(), n, pin, fmtsets[rng.Intn(len(fmtsets))], g), "putcard-random")
	}

	// (3) SetListener over netip.AddrPort values
	aps := []netip.AddrPort{{}}
	for _, s := range []string{"0.0.0.0:0", "0.0.0.0:1", "0.0.0.0:60001", "192.168.1.100:60001", "192.168.1.100:0", "255.255.255.255:65535",
		"[::]:0", "[::]:60001", "[::1]:60001", "[::ffff:192.168.1.100]:60001", "[::ffff:0.0.0.0]:0", "[::ffff:0.0.0.0]:1", "[fe80::1%eth0]:60001",
		"[2001:db8::1]:60001", "[2001:db8::1]:0", "[::ffff:192.168.1.100%x]:60001", "127.0.0.1:1", "1.2.3.4:65535"} {
		aps = append(aps, netip.MustParseAddrPort(s))
	}
	aps = append(aps, netip.AddrPortFrom(netip.Addr{}, 60001)) // invalid address, non-zero port
	for i := 0; i < 40; i++ {
		_, pi := g.ip4()
		a4, _ := netip.AddrFromSlice([]byte{byte(pi[len(pi)-4]), byte(pi[len(pi)-3]), byte(pi[len(pi)-2]), byte(pi[len(pi)-1])})
		port := uint16(rng.Intn(65536))
		if rng.Intn(3) == 0 {
			port = 0
		}
		aps = append(aps, netip.AddrPortFrom(a4, port))
		aps = append(aps, netip.AddrPortFrom(netip.AddrFrom16(a4.As16()), port)) // IPv4-mapped IPv6
	}
	for _, ap := range aps {
		emit(setListenerCall(g.serial(), ap, g.u8()), "setlistener")
	}

	// (4) SetAddress with nil / short / 4- / 16-byte / IPv6 values in each slot
	ips := []net.IP{nil, {}, {1, 2, 3}, {192, 168, 1, 100}, net.IPv4(192, 168, 1, 100), net.ParseIP("2001:db8::1"), net.ParseIP("::1"), {1, 2, 3, 4, 5}, net.IPv4(0, 0, 0, 0), {255, 255, 255, 0},
		make(net.IP, 16), {0, 0, 0, 0, 0, 0, 0, 0, 0, 0, 0xff, 0xfe, 1, 2, 3, 4}}
	for _, a := range ips {
		for _, m := range ips {
			for _, gw := range ips {
				if !thorough && rng.Intn(4) != 0 {
					continue
				}
				emit(setAddressCall(g.serial(), a, m, gw), "setaddress")
			}
		}
	}

	// (5) SetDoorPasscodes: doors 0..255 x passcode lists of length 0..6 with values around 999999
	codes := []uint32{0, 1, 999998, 999999, 1000000, 1000001, 0xffffffff, 123456}
	for door := 0; door < 256; door++ {
		for n := 0; n <= 6; n++ {
			if !thorough && door > 8 && rng.Intn(3) != 0 {
				continue
			}
			l := []uint32{}
			for i := 0; i < n; i++ {
				l = append(l, codes[rng.Intn(len(codes))])
			}
			emit(passcodesCall(g.serial(), uint8(door), l), "passcodes")
		}
	}

	// (5b) ... and lists that are consecutive windows of ONE table of the caller's (door 1's codes, then door 2's, ...): the
	// second call's codes are where the first call's list has its spare capacity - they are sent as the caller wrote them
	for rep := 0; rep < 40; rep++ {
		table := make([]uint32, 16)
		for i := range table {
			table[i] = uint32(100001 + rng.Intn(899998))
		}
		at := 0
		pair := []callSpec{}
		for door := 1; door <= 4 && at < len(table); door++ {
			n := rng.Intn(5)
			if at+n > len(table) {
				n = len(table) - at
			}
			pair = append(pair, passcodesCall(g.serial(), uint8(door), table[at:at+n])) // (projected now, before any call is made)
			at += n
		}
		for _, cs := range pair {
			emit(cs, "passcodes-windows")
		}
	}

	// (6) SetTimeProfile: dates {zero, valid} x segment maps with missing keys x ordered pairs of HH:mm
	hh := []int{0, 1, 59, 60, 61, 8*60 + 30, 12 * 60, 12*60 + 1, 23 * 60, 23*60 + 59, 1440, 17 * 60}
	for _, fz := range []bool{false, true} {
		for _, tz := range []bool{false, true} {
			for missing := 0; missing <= 3; missing++ {
				for _, s := range hh {
					for _, e := range hh {
						if !thorough && rng.Intn(3) != 0 {
							continue
						}
						cs := timeProfileCall(g, fz, tz, missing, s, e)
						emit(cs, "timeprofile")
						if missing != 0 || rng.Intn(4) == 0 {
							// the SAME profile value (same maps) again: what was refused stays refused, what was sent is sent again
							emit(cs, "timeprofile-again")
						}
					}
				}
			}
		}
	}

	// (6b) "a call is rejected only for these reasons": dates and times of day beyond what the wire format can carry
	// (year -5, year 20000, HH:mm built from negative numbers or beyond 24:00) are no reason - the call passes every
	// documented check and is sent (what the unrepresentable field is sent as is not specified)
	{
		far := types.Date(time.Date(20000, 1, 1, 0, 0, 0, 0, time.UTC))
		neg := types.Date(time.Date(-5, 3, 4, 0, 0, 0, 0, time.UTC))
		ok := types.ToDate(2024, 1, 1)
		odd := []types.HHmm{types.NewHHmm(-1, 30), types.NewHHmm(100, 100), types.NewHHmm(8, 30)}
		noon := types.NewHHmm(12, 0)
		must := func(op string, f func(u uhppote.IUHPPOTE) (any, error)) {
			emit(callSpec{op: op, args: M{"serial": u32(1), "extreme": true, "mustsend": true}, call: f}, "only-these-reasons")
		}
		for _, from := range []types.Date{far, neg, ok} {
			for _, to := range []types.Date{far, neg, ok} {
				from, to := from, to
				must("PutCard", func(u uhppote.IUHPPOTE) (any, error) {
					return u.PutCard(1, types.Card{CardNumber: 8000001, From: from, To: to, Doors: map[uint8]uint8{1: 1}, PIN: 0})
				})
				for _, h := range odd {
					h := h
					must("AddTask", func(u uhppote.IUHPPOTE) (any, error) {
						return u.AddTask(1, types.Task{Task: types.DoorControlled, Door: 1, From: from, To: to, Start: h, Weekdays: types.Weekdays{time.Monday: true}})
					})
					// (a segment whose end is not before its start under the library's own Before)
					st, en := h, noon
					if en.Before(st) {
						st, en = en, st
					}
					must("SetTimeProfile", func(u uhppote.IUHPPOTE) (any, error) {
						return u.SetTimeProfile(1, types.TimeProfile{ID: 2, From: from, To: to, Weekdays: types.Weekdays{time.Monday: true},
							Segments: types.Segments{1: {Start: st, End: en}, 2: {Start: noon, End: noon}, 3: {}}})
					})
				}
			}
		}
		for _, t := range []time.Time{time.Date(20000, 1, 1, 0, 0, 0, 0, time.UTC), time.Date(-5, 1, 1, 0, 0, 0, 0, time.UTC)} {
			t := t
			must("SetTime", func(u uhppote.IUHPPOTE) (any, error) { return u.SetTime(1, t) })
		}
	}

	// (7) the complete card-number space against Wiegand-26 (thorough): accept set as maximal intervals
	if thorough {
		iv := w26Intervals()
		w.put(M{"op": "W26Intervals", "intervals": iv, "n": len(iv)}, "w26-exhaustive", "w26")
	}

	return w.close(), nil
}

// runC16Seg: C16's segment rule - SetTimeProfile (valid dates, all three segments present) over all ordered pairs of an
// HH:mm set that holds the day's boundaries, equal pairs and neighbours one minute apart
func runC16Seg(o *opts) (*summary, error) {
	w, err := newShardWriter(o.out, "api", o.shards)
	if err != nil {
		return nil, err
	}
	rng := rand.New(rand.NewSource(o.seed))
	g := &G{r: rng, inDomain: true}
	u, d := stubClient(stubCfgs[1])
	hh := []int{0, 1, 2, 59, 60, 61, 119, 120, 8 * 60, 8*60 + 29, 8*60 + 30, 8*60 + 31, 9 * 60, 11*60 + 59, 12 * 60, 12*60 + 1, 17 * 60, 22*60 + 59, 23 * 60, 23*60 + 1, 23*60 + 58, 23*60 + 59, 1440}
	if o.tier == "thorough" {
		for i := 0; i < 40; i++ {
			hh = append(hh, rng.Intn(1441))
		}
	}
	for _, s := range hh {
		for _, e := range hh {
			cs := timeProfileCall(g, false, false, 0, s, e)
			w.put(doCall(u, d, cs), "segment-rule", argKey(cs))
		}
	}
	// profiles that come out of json.Unmarshal (read from a file, several of them before any is used): decode A (the pair
	// under test), decode B (the same pair reversed - the opposite verdict), then SetTimeProfile(A), SetTimeProfile(B): each is
	// accepted or refused for what ITS document says
	plainSegments = true
	defer func() { plainSegments = false }()
	for i, s := range hh {
		for j, e := range hh {
			if o.tier != "thorough" && (i+j)%3 != 0 {
				continue
			}
			csA := timeProfileCall(g, false, false, 0, s, e)
			pA, snA := lastProfile, lastSerial
			csB := timeProfileCall(g, false, false, 0, e, s)
			pB, snB := lastProfile, lastSerial
			docA, errA := json.Marshal(pA)
			docB, errB := json.Marshal(pB)
			var a, b types.TimeProfile
			if errA != nil || errB != nil || json.Unmarshal(docA, &a) != nil || json.Unmarshal(docB, &b) != nil {
				continue // (that documents round-trip is C14's subject)
			}
			csA.call = func(u uhppote.IUHPPOTE) (any, error) { return u.SetTimeProfile(snA, a) }
			csB.call = func(u uhppote.IUHPPOTE) (any, error) { return u.SetTimeProfile(snB, b) }
			w.put(doCall(u, d, csA), "segment-rule-decoded", "dec|"+argKey(csA))
			w.put(doCall(u, d, csB), "segment-rule-decoded", "dec|"+argKey(csB))
		}
	}
	return w.close(), nil
}

// (the profile / controller of the call timeProfileCall built last; plainSegments: segments 1..3 only)
var lastProfile types.TimeProfile
var lastSerial uint32
var plainSegments bool

func timeProfileCall(g *G, fromZero, toZero bool, missing, s, e int) callSpec {
	serial := g.serial()
	from, pf := g.date(false)
	to, pt := g.date(false)
	zero := func() types.Date {
		// the zero 'no date' in its different guises (same instant, another Location)
		switch g.r.Intn(3) {
		case 0:
			return types.Date(time.Time{}.UTC())
		case 1:
			return types.Date(time.Time{}.In(locs[g.r.Intn(len(locs))]))
		}
		return types.Date{}
	}
	if fromZero {
		from, pf = zero(), M{"t": "zero"}
	}
	if toZero {
		to, pt = zero(), M{"t": "zero"}
	}
	segs := types.Segments{}
	ps := []any{}
	for k := 1; k <= 3; k++ {
		if k == missing {
			continue
		}
		a, b := s, e
		if k != 1+(s+e)%3 { // one segment carries the pair under test, the others are well-ordered
			a, b = 0, 0
			if g.r.Intn(2) == 0 {
				a, b = 60*g.r.Intn(12), 60*(12+g.r.Intn(12))
			}
		}
		st, pst := hhmmOf(a)
		en, pen := hhmmOf(b)
		segs[uint8(k)] = types.Segment{Start: st, End: en}
		ps = append(ps, []any{k, segPair(pst, pen)})
	}
	// entries under keys that are no segment numbers: a map with three (or more) entries that still lacks segment 1, 2 or 3
	if !plainSegments && g.r.Intn(2) == 0 {
		for _, k := range []uint8{0, 4, 5, 255} {
			if g.r.Intn(2) == 0 {
				continue
			}
			st, pst := hhmmOf(60 * g.r.Intn(12))
			en, pen := hhmmOf(60 * (12 + g.r.Intn(12)))
			if g.r.Intn(3) == 0 { // (what sits under a key that is no segment number has no say, whichever way round it is)
				st, pst, en, pen = en, pen, st, pst
			}
			segs[k] = types.Segment{Start: st, End: en}
			ps = append(ps, []any{int(k), segPair(pst, pen)})
		}
	}
	wd, pw := g.weekdays()
	id, linked := g.u8(), g.u8b(1)
	profile := types.TimeProfile{ID: id, LinkedProfileID: linked, From: from, To: to, Weekdays: wd, Segments: segs}
	a := M{"serial": u32(serial), "profile": M{"id": int(id), "linked": int(linked), "from": pf, "to": pt, "weekdays": pw, "segments": ps}}
	lastProfile, lastSerial = profile, serial
	return callSpec{op: "SetTimeProfile", args: a, call: func(u uhppote.IUHPPOTE) (any, error) { return u.SetTimeProfile(serial, profile) }}
}

// w26Intervals calls PutCard with format Wiegand-26 for ALL 2^32 card numbers (one stub client per
// worker) and returns the accepted set as maximal intervals of u32 pairs.
func w26Intervals() []any {
	workers := runtime.NumCPU()
	type span struct{ lo, hi uint32 }
	results := make([][]span, workers)
	var wg sync.WaitGroup
	chunk := uint64(1<<32) / uint64(workers)
	for k := 0; k < workers; k++ {
		wg.Add(1)
		go func(k int) {
			defer wg.Done()
			u, d := stubClient(clientCfg{})
			d.script = nil
			card := types.Card{From: types.ToDate(2024, 1, 1), To: types.ToDate(2024, 12, 31), Doors: map[uint8]uint8{1: 1}}
			lo := uint64(k) * chunk
			hi := lo + chunk
			if k == workers-1 {
				hi = 1 << 32
			}
			var cur *span
			for n := lo; n < hi; n++ {
				card.CardNumber = uint32(n)
				d.calls = d.calls[:0]
				u.PutCard(12345, card, types.Wiegand26)
				if len(d.calls) > 0 {
					if cur != nil && cur.hi+1 == uint32(n) {
						cur.hi = uint32(n)
					} else {
						results[k] = append(results[k], span{uint32(n), uint32(n)})
						cur = &results[k][len(results[k])-1]
					}
				}
			}
		}(k)
	}
	wg.Wait()
	all := []span{}
	for _, r := range results {
		for _, s := range r {
			if len(all) > 0 && all[len(all)-1].hi+1 == s.lo {
				all[len(all)-1].hi = s.hi
			} else {
				all = append(all, s)
			}
		}
	}
	out := []any{}
	for _, s := range all {
		out = append(out, []any{u32(s.lo), u32(s.hi)})
	}
	_ = fmt.Sprint
	return out
}
