package main

import (
	"bufio"
	"encoding/binary"
	"encoding/json"
	"fmt"
	"math/rand"
	"net"
	"net/netip"
	"os"
	"path/filepath"
	"sync"
	"sync/atomic"
	"time"

	"github.com/uhppoted/uhppote-core/types"
	"github.com/uhppoted/uhppote-core/uhppote"
)

func init() { commands["c10"] = runC10 }

// evListener records the callbacks of one Listen() run
type evListener struct {
	log       *evlog
	mu        sync.Mutex
	delivered []*deliveredStatus
	callbacks int32
	slow      time.Duration // OnEvent takes this long (a slow application)
	errRet    int           // what OnError answers: 0 true, 1 false, 2 alternating (it must make no difference)
	nerr      int32
}

type deliveredStatus struct {
	s   *types.Status
	at  M
	tag uint32
}

func (l *evListener) OnConnected() { l.log.add(M{"ev": "connected"}) }

func (l *evListener) OnEvent(s *types.Status) {
	tag := s.SequenceId
	l.log.add(M{"ev": "event", "s": fmt.Sprintf("s%d", tag/100000), "n": int(tag % 100000)})
	var p M
	if pn, msg := guard(func() { p = projStatus(s) }); pn {
		p = M{"t": "panic", "msg": msg}
	}
	l.mu.Lock()
	l.delivered = append(l.delivered, &deliveredStatus{s: s, at: p, tag: tag})
	l.mu.Unlock()
	atomic.AddInt32(&l.callbacks, 1)
	if l.slow > 0 {
		time.Sleep(l.slow)
	}
}

func (l *evListener) OnError(err error) bool {
	l.log.add(M{"ev": "error"})
	atomic.AddInt32(&l.callbacks, 1)
	n := atomic.AddInt32(&l.nerr, 1)
	return l.errRet == 0 || (l.errRet == 2 && n%2 == 0)
}

var lastEv [12]byte
var lastEvMu sync.Mutex

// eventDatagram: class valid | valid19 | badlen | serial0 | badcode | badproto | malformed
func eventDatagram(rng *rand.Rand, lt *layoutTables, cls string, tag uint32) []byte {
	m := lt.Event.message(rng, 0x17, []byte{byte(1 + rng.Intn(255)), byte(rng.Intn(256)), byte(rng.Intn(256)), byte(rng.Intn(256))}, "valid", nil)
	binary.LittleEndian.PutUint32(m[40:44], tag)
	// a quarter of the well-formed events come from the SAME controller as the previous one and repeat its event index
	// (nothing new has happened at the controller, or the index was rewound): each datagram is an event of its own
	if cls == "valid" || cls == "valid19" {
		lastEvMu.Lock()
		if lastEv[8] != 0 && rng.Intn(4) == 0 {
			copy(m[4:12], lastEv[4:12])
		} else {
			if m[8] == 0 {
				m[8] = 1
			}
			copy(lastEv[:], m[:12])
		}
		lastEvMu.Unlock()
	}
	switch cls {
	case "valid":
	case "valid19":
		m[0] = 0x19
	case "badlen":
		// every wrong length in turn (process-wide counter), so that each of them - the empty datagram too - occurs in every run
		n := []int{0, 1, 63, 65, 128, 1024, 2048, 3000, 2, 32, 66, 127}[int(atomic.AddInt32(&badlenTurn, 1))%12]
		if n <= 64 {
			m = m[:n]
		} else {
			m = append(m, make([]byte, n-64)...)
		}
	case "serial0":
		copy(m[4:8], []byte{0, 0, 0, 0})
	case "badcode":
		m[1] = []byte{0x21, 0x94, 0x00, 0xb0}[rng.Intn(4)]
	case "badproto":
		m[0] = []byte{0x18, 0x00, 0xff, 0x16}[rng.Intn(4)]
	case "impossible":
		// decimal digits that are no calendar date / time of day, in the system date, the system time or the event
		// timestamp: per C02's rule the event may be delivered with that field as its zero 'no value', or refused with
		// an error - never delivered with another date
		switch rng.Intn(4) {
		case 0:
			copy(m[51:54], [][]byte{{0x23, 0x02, 0x30}, {0x23, 0x04, 0x31}, {0x23, 0x02, 0x29}, {0x24, 0x13, 0x01}, {0x24, 0x06, 0x00}}[rng.Intn(5)])
		case 1:
			copy(m[37:40], [][]byte{{0x24, 0x00, 0x00}, {0x12, 0x60, 0x00}, {0x23, 0x59, 0x60}, {0x25, 0x61, 0x61}}[rng.Intn(4)])
		case 2:
			copy(m[20:24], [][]byte{{0x20, 0x23, 0x02, 0x30}, {0x20, 0x23, 0x04, 0x31}, {0x21, 0x00, 0x02, 0x29}, {0x20, 0x24, 0x00, 0x10}}[rng.Intn(4)])
		default:
			copy(m[24:27], [][]byte{{0x24, 0x00, 0x00}, {0x12, 0x60, 0x00}, {0x23, 0x59, 0x60}}[rng.Intn(3)])
		}
	case "malformed":
		if rng.Intn(3) == 0 {
			m[0] = 0x19 // a v6.62 event with a field outside its domain is refused like any other
		}
		if rng.Intn(2) == 0 {
			m[[]int{13, 28, 29, 30, 31, 32, 33, 34, 35}[rng.Intn(9)]] = byte(2 + rng.Intn(254))
		} else {
			off := []int{20, 21, 22, 23, 24, 25, 26, 37, 38, 39, 51, 52, 53}[rng.Intn(13)]
			m[off] = m[off]&0x0f | byte(0xa+rng.Intn(6))<<4
		}
	}
	return m
}

var evClasses = []string{"valid", "valid", "valid", "valid19", "badlen", "serial0", "badcode", "badproto", "malformed", "impossible"}

var badlenTurn int32

func isValidClass(c string) bool { return c == "valid" || c == "valid19" }

// one scenario: `cycles` start/stop cycles on one listen address, 1..3 senders per cycle
func listenerScenario(id string, seed int64, lt *layoutTables, cycles int, recs chan<- M) []M {
	rng := rand.New(rand.NewSource(seed))
	var rmu sync.Mutex
	probe := listenUDP()
	addr := udpAddrPort(probe)
	probe.Close()
	// (the client's request timeout has nothing to do with listening: zero, negative, an hour)
	reqTimeout := []time.Duration{time.Second, 0, -time.Second, time.Hour, 50 * time.Millisecond}[int(uint64(seed)%5)]
	u := uhppote.NewUHPPOTE(types.BindAddr{AddrPort: netip.AddrPortFrom(netip.AddrFrom4([4]byte{127, 0, 0, 1}), 0)},
		types.BroadcastAddr{}, types.ListenAddr{AddrPort: addr}, reqTimeout, nil, false)

	out := []M{}
	for cy := 0; cy < cycles; cy++ {
		log := &evlog{}
		l := &evListener{log: log, errRet: (int(seed) + cy) % 3}
		// every third scenario: a slow application (OnEvent takes 2 ms) that shuts the listener down ABRUPTLY, while
		// events are still queued behind the one being handled
		abrupt := seed%3 == 0
		if abrupt {
			l.slow = 2 * time.Millisecond
		}
		q := make(chan os.Signal, 1)
		done := make(chan error, 1)
		go func() { done <- u.Listen(l, q) }()
		// wait for OnConnected
		t0 := time.Now()
		for time.Since(t0) < 2*time.Second {
			log.mu.Lock()
			n := len(log.ev)
			log.mu.Unlock()
			if n > 0 {
				break
			}
			time.Sleep(time.Millisecond)
		}
		nsend := 1 + rng.Intn(3)
		total := int32(0)
		sentBytes := map[uint32][]byte{}
		var smu sync.Mutex
		var wg sync.WaitGroup
		for s := 1; s <= nsend; s++ {
			n := 1 + rng.Intn([]int{12, 6, 4}[nsend-1])
			classes := make([]string, n)
			for i := range classes {
				classes[i] = evClasses[rng.Intn(len(evClasses))]
			}
			sseed := rng.Int63()
			wg.Add(1)
			go func(s int, classes []string, sseed int64) {
				defer wg.Done()
				r := rand.New(rand.NewSource(sseed))
				c, err := net.DialUDP("udp4", nil, net.UDPAddrFromAddrPort(addr))
				if err != nil {
					return
				}
				defer c.Close()
				for i, cls := range classes {
					// window flow control: at most 6 datagrams without a call-back, so the kernel queue cannot drop
					// (bounded: a listener that has stopped calling back must not hang the harness - the trace then lacks
					// the call-backs and is rejected)
					for t0 := time.Now(); atomic.LoadInt32(&total)-atomic.LoadInt32(&l.callbacks) >= 6 && time.Since(t0) < 2*time.Second; {
						time.Sleep(200 * time.Microsecond)
					}
					tag := uint32(s)*100000 + uint32(i+1)
					rmu.Lock()
					b := eventDatagram(r, lt, cls, tag)
					rmu.Unlock()
					abs := "bad"
					if isValidClass(cls) || cls == "impossible" {
						abs = "valid"
						if cls == "impossible" {
							abs = "either" // an event (with the field as 'no value') or an error: the specification allows both
						}
						smu.Lock()
						sentBytes[tag] = b
						smu.Unlock()
					}
					atomic.AddInt32(&total, 1)
					log.add(M{"ev": "dg", "s": fmt.Sprintf("s%d", s), "cls": abs, "class": cls})
					c.Write(b)
				}
			}(s, classes, sseed)
		}
		wg.Wait()
		// every datagram has produced its call-back (or 2 s passed)
		t1 := time.Now()
		for !abrupt && atomic.LoadInt32(&l.callbacks) < atomic.LoadInt32(&total) && time.Since(t1) < 5*time.Second {
			time.Sleep(time.Millisecond)
		}
		if !abrupt && atomic.LoadInt32(&l.callbacks) < atomic.LoadInt32(&total) {
			// datagrams that were written to the loopback socket of a listener nobody has told to stop, seconds ago, and
			// no call-back: they are not "in flight" (the specification has no step for this event - the trace ends here)
			log.add(M{"ev": "stalled", "callbacks": int(atomic.LoadInt32(&l.callbacks)), "datagrams": int(atomic.LoadInt32(&total))})
		}
		log.add(M{"ev": "quit"})
		q <- os.Interrupt
		select {
		case err := <-done:
			if err == nil {
				log.add(M{"ev": "returned"})
			} else {
				log.add(M{"ev": "returned-error"})
			}
			// the listen address can be bound again immediately
			if c, err := net.ListenUDP("udp4", net.UDPAddrFromAddrPort(addr)); err == nil {
				log.add(M{"ev": "rebound"})
				c.Close()
			} else {
				log.add(M{"ev": "rebind-failed"})
			}
		case <-time.After(3 * time.Second):
			log.add(M{"ev": "hung"})
		}
		time.Sleep(3*time.Millisecond + 4*l.slow) // a last OnEvent may still be running (allowed)
		evs := []any{}
		for _, e := range log.sorted() {
			delete(e, "seq")
			evs = append(evs, e)
		}
		out = append(out, M{"id": fmt.Sprintf("%s-c%d", id, cy), "ev": evs})
		// decode fidelity + stability: re-read every delivered status now
		l.mu.Lock()
		for i, d := range l.delivered {
			smu.Lock()
			b := sentBytes[d.tag]
			smu.Unlock()
			var later M
			if pn, msg := guard(func() { later = projStatus(d.s) }); pn {
				later = M{"t": "panic", "msg": msg}
			}
			if i == 0 && d.s != nil {
				// the application is done with the first status and scribbles over its maps: the statuses delivered after it
				// (re-read below) are none of its business
				guard(func() {
					for k := range d.s.DoorState {
						d.s.DoorState[k] = !d.s.DoorState[k]
					}
					for k := range d.s.DoorButton {
						d.s.DoorButton[k] = !d.s.DoorButton[k]
					}
					d.s.DoorState[9], d.s.DoorButton[9] = true, true
				})
			}
			recs <- M{"op": "Event", "b": ints(b), "status": d.at, "later": later, "rig": "L"}
		}
		l.mu.Unlock()
	}
	return out
}

// stubEvents: the handler fed (scripted transport) from ONE reused, scribbled-over buffer; one record per delivered status
func stubEvents(w *shardWriter, evs [][]byte, class string) {
	ul, dl := stubClient(clientCfg{Listen: "127.0.0.1:60001"})
	dl.events = evs
	l := &evListener{log: &evlog{}, errRet: len(evs) % 3}
	q := make(chan os.Signal, 1)
	done := make(chan error, 1)
	go func() { done <- ul.Listen(l, q) }()
	t1 := time.Now()
	for int(atomic.LoadInt32(&l.callbacks)) < len(evs) && time.Since(t1) < 5*time.Second {
		time.Sleep(time.Millisecond)
	}
	q <- os.Interrupt
	select {
	case <-done:
	case <-time.After(3 * time.Second):
	}
	time.Sleep(5 * time.Millisecond)
	byTag := map[uint32][]byte{}
	for _, b := range evs {
		if len(b) == 64 {
			byTag[binary.LittleEndian.Uint32(b[40:44])] = b
		}
	}
	l.mu.Lock()
	for _, d := range l.delivered {
		var later M
		if pn, msg := guard(func() { later = projStatus(d.s) }); pn {
			later = M{"t": "panic", "msg": msg}
		}
		w.put(M{"op": "Event", "b": ints(byTag[d.tag]), "status": d.at, "later": later, "rig": "S"}, class, "")
	}
	l.mu.Unlock()
}

func runC10(o *opts) (*summary, error) {
	lt, err := loadLayouts(o.extraArg("layouts"))
	if err != nil {
		return nil, err
	}
	w, err := newShardWriter(o.out, "api", o.shards)
	if err != nil {
		return nil, err
	}
	rng := rand.New(rand.NewSource(o.seed))
	thorough := o.tier == "thorough"
	n := 40
	if thorough {
		n = 600
	}
	// zone pass (process zone with offset changes): valid events whose calendar fields sit on the zone's offset-change
	// days - civil times that exist there - through the handler; the listener recombines date and time in its own code
	if o.extraArg("zonepass") == "1" {
		evs := [][]byte{}
		k := 300
		if thorough {
			k = 4000
		}
		for i := 0; i < k; i++ {
			m := zoneMessage(rng, lt.Event, 0x17, []byte{byte(1 + rng.Intn(255)), byte(rng.Intn(256)), byte(rng.Intn(256)), byte(rng.Intn(256))})
			binary.LittleEndian.PutUint32(m[40:44], uint32(700000+i))
			evs = append(evs, m)
		}
		stubEvents(w, evs, "event-zone")
		s := w.close()
		s.Distinct = s.Records
		return s, nil
	}

	// ---- Rig L: the real listener -------------------------------------------------------------
	recs := make(chan M, 100000)
	scen := make([][]M, n)
	sem := make(chan struct{}, 12)
	var wg sync.WaitGroup
	for i := 0; i < n; i++ {
		wg.Add(1)
		sem <- struct{}{}
		go func(i int, seed int64) {
			defer wg.Done()
			defer func() { <-sem }()
			scen[i] = listenerScenario(fmt.Sprintf("L%d", i), seed, lt, 1+i%3, recs)
		}(i, rng.Int63())
	}
	wg.Wait()
	close(recs)
	for r := range recs {
		w.put(r, "event-real", "")
	}
	name := filepath.Join(o.out, "listener.ndjson")
	fh, err := os.Create(name)
	if err != nil {
		return nil, err
	}
	bw := bufio.NewWriter(fh)
	nscen := 0
	var sample any
	for _, ss := range scen {
		for _, s := range ss {
			b, _ := json.Marshal(s)
			bw.Write(b)
			bw.WriteByte('\n')
			nscen++
			if sample == nil {
				json.Unmarshal(b, &sample)
			}
		}
	}
	bw.Flush()
	fh.Close()

	// ---- Rig S: the handler fed from ONE reused, scribbled-over buffer; every one-byte field over all values
	evs := [][]byte{}
	for i := 0; i < 256; i++ {
		m := eventDatagram(rng, lt, "valid", uint32(500000+i))
		for _, off := range []int{12, 14, 15, 27, 36, 48, 49, 50} {
			m[off] = byte(i*(off|1) + off)
		}
		m[13+0] = byte(i % 2)
		evs = append(evs, m)
	}
	for i := 0; i < 600; i++ {
		evs = append(evs, eventDatagram(rng, lt, evClasses[rng.Intn(len(evClasses))], uint32(600000+i)))
	}
	stubEvents(w, evs, "event-stub")

	s := w.close()
	s.Extra = map[string]any{"listener_trace": name, "scenarios": nscen, "sample": sample}
	s.Distinct = s.Records
	return s, nil
}
