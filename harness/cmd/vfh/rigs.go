package main

import (
	"errors"
	"fmt"
	"net"
	"net/netip"
	"sync"
	"time"

	"github.com/uhppoted/uhppote-core/types"
	"github.com/uhppoted/uhppote-core/uhppote"
)

// ---- Rig S: scripted in-memory driver ------------------------------------------------------

type drvCall struct {
	method string
	ip     []byte
	port   int
	req    []byte
}

// delivered datagram and, on the broadcast path, the filter's verdict
type delivery struct {
	b    []byte
	keep bool
}

// stubDriver replaces the real transport: it records what the library hands to the network and
// plays scripted datagrams back through the same call-back protocol the real driver uses.
type stubDriver struct {
	mu        sync.Mutex
	calls     []drvCall
	delivered []delivery
	// script: datagrams to deliver to the next call (in order); nil entry = nothing more (timeout)
	script func(method string, req []byte) [][]byte
	// reuse: hand out slices of one reusable buffer (and scribble it afterwards) - insulation checks
	reuse   bool
	scratch []byte
	events  [][]byte // datagrams fed to Listen
}

var errTimeout = errors.New("i/o timeout (scripted)")

func (d *stubDriver) reset() {
	d.mu.Lock()
	d.calls = nil
	d.delivered = nil
	d.mu.Unlock()
}

func (d *stubDriver) record(method string, ip net.IP, port int, req []byte) [][]byte {
	d.mu.Lock()
	defer d.mu.Unlock()
	c := drvCall{method: method, port: port, req: append([]byte{}, req...)}
	if ip4 := ip.To4(); ip4 != nil {
		c.ip = append([]byte{}, ip4...)
	} else {
		c.ip = append([]byte{}, ip...)
	}
	d.calls = append(d.calls, c)
	if d.script == nil {
		return nil
	}
	return d.script(method, c.req)
}

func (d *stubDriver) buf(b []byte) []byte {
	if !d.reuse {
		return append([]byte{}, b...)
	}
	if d.scratch == nil {
		d.scratch = make([]byte, 2048)
	}
	for i := range d.scratch {
		d.scratch[i] = 0xa5
	}
	n := copy(d.scratch, b)
	return d.scratch[:n]
}

func (d *stubDriver) Broadcast(addr *net.UDPAddr, req []byte) ([][]byte, error) {
	dg := d.record("Broadcast", addr.IP, addr.Port, req)
	out := [][]byte{}
	for _, b := range dg {
		out = append(out, append([]byte{}, b...))
		d.delivered = append(d.delivered, delivery{b: b, keep: true})
	}
	return out, nil
}

func (d *stubDriver) BroadcastTo(addr *net.UDPAddr, req []byte, filter func([]byte) bool) ([]byte, error) {
	dg := d.record("BroadcastTo", addr.IP, addr.Port, req)
	if len(req) > 1 && req[1] == 0x96 {
		return nil, nil
	}
	for _, b := range dg {
		v := d.buf(b)
		keep := filter(v)
		d.delivered = append(d.delivered, delivery{b: b, keep: keep})
		if keep {
			return v, nil
		}
	}
	return nil, errTimeout
}

func (d *stubDriver) directed(method string, ip net.IP, port int, req []byte) ([]byte, error) {
	dg := d.record(method, ip, port, req)
	if len(req) > 1 && req[1] == 0x96 {
		return nil, nil
	}
	if len(dg) == 0 {
		return nil, errTimeout
	}
	d.delivered = append(d.delivered, delivery{b: dg[0], keep: true})
	return d.buf(dg[0]), nil
}

func (d *stubDriver) SendUDP(addr *net.UDPAddr, req []byte) ([]byte, error) {
	return d.directed("SendUDP", addr.IP, addr.Port, req)
}

func (d *stubDriver) SendTCP(addr *net.TCPAddr, req []byte) ([]byte, error) {
	return d.directed("SendTCP", addr.IP, addr.Port, req)
}

// Listen feeds the handler from ONE reused buffer that is overwritten after each call.
func (d *stubDriver) Listen(signal chan any, done chan any, handler func([]byte)) error {
	go func() {
		m := make([]byte, 2048)
		for _, e := range d.events {
			n := copy(m, e)
			handler(m[:n])
			for i := range m {
				m[i] = 0x5a
			}
		}
		<-signal
		close(done)
	}()
	return nil
}

// clientCfg is the abstract client configuration (also logged).
type clientCfg struct {
	Bind      string   `json:"bind"`      // "" = default 0.0.0.0:0
	Broadcast string   `json:"broadcast"` // "" = unset
	Listen    string   `json:"listen"`
	Devices   []devCfg `json:"devices"`
	TimeoutMs int      `json:"timeout_ms"`
	ViaNew    bool     `json:"-"` // build the devices with uhppote.NewDevice instead of struct literals
}

type devCfg struct {
	Name     string `json:"name"`
	Serial   uint32 `json:"-"`
	SerialP  []int  `json:"serial"`
	Addr     string `json:"addr"`  // "" = no address; "a.b.c.d:port"
	AddrKind string `json:"kind"`  // none | zeroip | port0 | valid
	Proto    string `json:"proto"` // udp | tcp | any | ""
	NDoors   int    `json:"-"`     // number of door names configured: 0 = the usual four, -1 = nil, else that many (it must not influence any request)
	TZ       string `json:"-"`     // the Device.TimeZone field: "" = time.Local, "nil" = nil, else a zone name (it must not influence any result)
}

func (c clientCfg) build(wrap func(uhppote.Driver) uhppote.Driver) (uhppote.IUHPPOTE, []uhppote.Device) {
	devices := c.deviceList()
	return c.buildFrom(devices, wrap), devices
}

// buildFrom: the client built from a device list the caller holds (and may look at again afterwards)
func (c clientCfg) buildFrom(devices []uhppote.Device, wrap func(uhppote.Driver) uhppote.Driver) uhppote.IUHPPOTE {
	bind := types.BindAddr{}
	if c.Bind != "" {
		bind = types.BindAddr{AddrPort: netip.MustParseAddrPort(c.Bind)}
	}
	bc := types.BroadcastAddr{}
	if c.Broadcast != "" {
		bc = types.BroadcastAddr{AddrPort: netip.MustParseAddrPort(c.Broadcast)}
	}
	ls := types.ListenAddr{}
	if c.Listen != "" {
		ls = types.ListenAddr{AddrPort: netip.MustParseAddrPort(c.Listen)}
	}
	to := time.Duration(c.TimeoutMs) * time.Millisecond
	if to == 0 {
		to = 500 * time.Millisecond
	}
	return uhppote.NewUHPPOTEWithDriver(bind, bc, ls, to, devices, false, wrap)
}

func (c clientCfg) deviceList() []uhppote.Device {
	devices := []uhppote.Device{}
	for _, d := range c.Devices {
		a := types.ControllerAddr{}
		if d.Addr != "" {
			a = types.ControllerAddr{AddrPort: netip.MustParseAddrPort(d.Addr)}
		}
		tz := time.Local
		switch d.TZ {
		case "":
		case "nil":
			tz = nil
		default:
			if z, err := time.LoadLocation(d.TZ); err == nil {
				tz = z
			}
		}
		doors := []string{"a", "b", "c", "d"}
		switch {
		case d.NDoors < 0:
			doors = nil
		case d.NDoors > 0:
			doors = []string{}
			for k := 0; k < d.NDoors; k++ {
				doors = append(doors, fmt.Sprintf("door %d", k+1))
			}
		}
		if c.ViaNew {
			devices = append(devices, uhppote.NewDevice(d.Name, d.Serial, a, d.Proto, doors, tz))
			continue
		}
		devices = append(devices, uhppote.Device{Name: d.Name, DeviceID: d.Serial, Address: a, Doors: doors, TimeZone: tz, Protocol: d.Proto})
	}
	return devices
}

func stubClient(c clientCfg) (uhppote.IUHPPOTE, *stubDriver) {
	d := &stubDriver{}
	u, _ := c.build(func(uhppote.Driver) uhppote.Driver { return d })
	return u, d
}
