package main

import (
	"fmt"
	"math/rand"
	"os"
	"reflect"

	codec "github.com/uhppoted/uhppote-core/encoding/UTO311-L0x"
	"github.com/uhppoted/uhppote-core/messages"
)

func init() { commands["c05"] = runC05 }

// roundTrip: marshal a generated in-domain message value, unmarshal it, unmarshal it again after
// flipping bytes that belong to no field (slack positions exported by TLC)
func roundTrip(r *rand.Rand, zero any, dir string, slack []int, tz string) M {
	t := reflect.TypeOf(zero)
	msg := reflect.New(t).Elem()
	vals := M{}
	walk(msg, func(name string, f reflect.Value) { vals[name] = genField(r, f, true) })

	shape := M{}
	walk(msg, func(name string, f reflect.Value) { shape[name] = shapeClass(f.Type()) })
	rec := M{"fn": "rt", "type": t.Name(), "dir": dir, "vals": vals, "tz": tz, "shape": shape}
	var bytes []byte
	p, pm := guard(func() {
		b, err := codec.Marshal(msg.Interface())
		if err != nil {
			rec["enc"] = M{"t": "err"}
			return
		}
		bytes = b
		rec["enc"] = M{"t": "ok", "b": ints(b)}
	})
	if p {
		rec["enc"] = M{"t": "panic", "msg": pm}
	}
	dec := func(b []byte) M {
		out := reflect.New(t)
		var res M
		if p, pm := guard(func() {
			if err := codec.Unmarshal(b, out.Interface()); err != nil {
				res = M{"t": "err"}
			} else {
				res = M{"t": "ok", "v": projMsg(out.Elem())}
			}
		}); p {
			res = M{"t": "panic", "msg": pm}
		}
		return res
	}
	rec["aliased"] = false
	if bytes != nil {
		rec["dec"] = dec(bytes)
		// the decoded value shares no memory with the buffer it was decoded from: overwrite the buffer, look again
		guard(func() {
			in := append([]byte{}, bytes...)
			out := reflect.New(t)
			if err := codec.Unmarshal(in, out.Interface()); err != nil {
				return
			}
			before := fmt.Sprint(projMsg(out.Elem()))
			for i := range in {
				in[i] = 0xee
			}
			rec["aliased"] = fmt.Sprint(projMsg(out.Elem())) != before
		})
		flipped := append([]byte{}, bytes...)
		fl := []int{}
		for _, pos := range slack { // 1-based positions
			if r.Intn(2) == 0 {
				flipped[pos-1] ^= byte(1 + r.Intn(255))
				fl = append(fl, pos)
			}
		}
		rec["flipped"] = fl
		rec["dec2"] = dec(flipped)
		// UnmarshalAs path
		var res M
		if p, pm := guard(func() {
			v, err := codec.UnmarshalAs(bytes, zero)
			if err != nil {
				res = M{"t": "err"}
			} else {
				res = M{"t": "ok", "v": projMsg(reflect.ValueOf(v))}
			}
		}); p {
			res = M{"t": "panic", "msg": pm}
		}
		rec["dec3"] = res
		// ... and into a struct that already holds ANOTHER decoded message of the type (a receive loop that reuses its
		// message struct): what is decoded is a function of the bytes alone
		rec["dec4"] = M{"t": "none"}
		if p, pm := guard(func() {
			other := reflect.New(t).Elem()
			walk(other, func(name string, f reflect.Value) { genField(r, f, false) })
			ob, err := codec.Marshal(other.Interface())
			if err != nil {
				return
			}
			out := reflect.New(t)
			if err := codec.Unmarshal(ob, out.Interface()); err != nil {
				return
			}
			if err := codec.Unmarshal(bytes, out.Interface()); err != nil {
				rec["dec4"] = M{"t": "err"}
				return
			}
			rec["dec4"] = M{"t": "ok", "v": projMsg(out.Elem())}
		}); p {
			rec["dec4"] = M{"t": "panic", "msg": pm}
		}
	} else {
		rec["dec"], rec["dec2"], rec["dec3"], rec["dec4"], rec["flipped"] = M{"t": "none"}, M{"t": "none"}, M{"t": "none"}, M{"t": "none"}, []int{}
	}
	return rec
}

func dispatch(dir string, code, n int, som byte) M {
	b := make([]byte, n)
	if n > 0 {
		b[0] = som
	}
	if n > 1 {
		b[1] = byte(code)
	}
	out := M{"t": "err"}
	if p, pm := guard(func() {
		var v any
		var err error
		if dir == "req" {
			v, err = messages.UnmarshalRequest(b)
		} else {
			v, err = messages.UnmarshalResponse(b)
		}
		if err == nil && v != nil {
			out = M{"t": "ok", "type": reflect.TypeOf(v).Elem().Name()}
		}
	}); p {
		out = M{"t": "panic", "msg": pm}
	}
	return M{"fn": "dispatch", "dir": dir, "code": code, "len": n, "som": int(som), "out": out}
}

// dispatchHold: two different messages of one type through the dispatcher, the first result projected before and after
// the second call (a dispatcher that hands out a shared instance per function code overwrites the first)
func dispatchHold(r *rand.Rand, zero any, dir string) M {
	t := reflect.TypeOf(zero)
	mk := func() []byte {
		msg := reflect.New(t).Elem()
		walk(msg, func(name string, f reflect.Value) { genField(r, f, true) })
		b, err := codec.Marshal(msg.Interface())
		if err != nil {
			return nil
		}
		return b
	}
	un := func(b []byte) (any, error) {
		if dir == "req" {
			return messages.UnmarshalRequest(b)
		}
		return messages.UnmarshalResponse(b)
	}
	rec := M{"fn": "hold", "type": t.Name(), "dir": dir, "first": M{"t": "none"}, "first_after": M{"t": "none"}}
	if p, msg := guard(func() {
		a, b := mk(), mk()
		if a == nil || b == nil {
			return
		}
		v1, err := un(a)
		if err != nil || v1 == nil {
			rec["first"] = M{"t": "err"}
			rec["first_after"] = M{"t": "err"}
			return
		}
		rec["first"] = M{"t": "ok", "v": projMsg(reflect.ValueOf(v1).Elem())}
		un(b)
		rec["first_after"] = M{"t": "ok", "v": projMsg(reflect.ValueOf(v1).Elem())}
	}); p {
		rec["first"] = M{"t": "panic", "msg": msg}
	}
	return rec
}

func runC05(o *opts) (*summary, error) {
	w, err := newShardWriter(o.out, "codec", o.shards)
	if err != nil {
		return nil, err
	}
	w.only = parseOnly(o.extraArg("only"))
	rng := rand.New(rand.NewSource(o.seed))
	tz := os.Getenv("TZ")
	thorough := o.tier == "thorough"

	slack, err := loadSlack(o.extraArg("slack"))
	if err != nil {
		return nil, err
	}

	n := 40
	if thorough {
		n = 400
	}
	if x := o.extraArg("n"); x != "" {
		fmt.Sscanf(x, "%d", &n)
	}
	for _, set := range []struct {
		dir   string
		types []any
	}{{"req", requestTypes}, {"rsp", responseTypes}, {"event", eventTypes}} {
		for _, z := range set.types {
			name := reflect.TypeOf(z).Name()
			for i := 0; i < n; i++ {
				w.put(roundTrip(rng, z, set.dir, slack[name], tz), "rt-"+set.dir, fmt.Sprintf("%s/%d/%s", name, i, tz))
			}
		}
	}

	// dispatch: all 256 function codes x lengths 0..128 x protocol ids (only once: not zone dependent)
	if o.extraArg("dispatch") == "1" {
		// what a dispatcher returned for one message must not change when it is given the next message of the same type
		for _, set := range []struct {
			dir   string
			types []any
		}{{"req", requestTypes}, {"rsp", responseTypes}} {
			for _, z := range set.types {
				for k := 0; k < 3; k++ {
					w.put(dispatchHold(rng, z, set.dir), "dispatch-hold", fmt.Sprintf("hold/%s/%d", reflect.TypeOf(z).Name(), k))
				}
			}
		}
		// framing through every codec entry point: a message of the wrong length or with a foreign protocol id is refused by
		// Unmarshal, UnmarshalAs, UnmarshalArray and UnmarshalArrayElement alike (zero payload, the type's own function code)
		for _, set := range [][]any{requestTypes, responseTypes, eventTypes} {
			for ti, z := range set {
				if ti%3 != 0 {
					continue
				}
				t := reflect.TypeOf(z)
				code := functionCodeOf(t)
				if code < 0 {
					continue
				}
				for _, ln := range []int{0, 1, 2, 8, 63, 64, 65, 128} {
					for _, som := range []byte{0x17, 0x19, 0x00, 0x18, 0xff} {
						b := make([]byte, ln)
						if ln > 0 {
							b[0] = som
						}
						if ln > 1 {
							b[1] = byte(code)
						}
						for _, entry := range []string{"Unmarshal", "UnmarshalAs", "UnmarshalArray", "UnmarshalArrayElement"} {
							out := M{"t": "err"}
							if p, pm := guard(func() {
								var err error
								switch entry {
								case "Unmarshal":
									err = codec.Unmarshal(b, reflect.New(t).Interface())
								case "UnmarshalAs":
									_, err = codec.UnmarshalAs(b, z)
								case "UnmarshalArray":
									err = codec.UnmarshalArray([][]byte{b}, reflect.New(reflect.SliceOf(t)).Interface())
								case "UnmarshalArrayElement":
									_, err = codec.UnmarshalArrayElement(b, reflect.New(reflect.SliceOf(t)).Interface())
								}
								if err == nil {
									out = M{"t": "ok"}
								}
							}); p {
								out = M{"t": "panic", "msg": pm}
							}
							w.put(M{"fn": "framing", "entry": entry, "type": t.Name(), "code": code, "len": ln, "som": int(som), "out": out}, "framing", fmt.Sprintf("fr/%s/%s/%d/%d", entry, t.Name(), ln, som))
						}
					}
				}
			}
		}
		for _, dir := range []string{"req", "rsp"} {
			for code := 0; code < 256; code++ {
				for _, som := range []byte{0x17, 0x19, 0x00, 0xff} {
					for _, ln := range []int{0, 1, 2, 63, 64, 65, 128} {
						w.put(dispatch(dir, code, ln, som), "dispatch", fmt.Sprintf("%s/%d/%d/%d", dir, code, ln, som))
					}
				}
				if thorough || code%8 == 0 {
					for ln := 0; ln <= 128; ln++ {
						w.put(dispatch(dir, code, ln, 0x17), "dispatch-len", fmt.Sprintf("%s/%d/%d", dir, code, ln))
					}
				}
			}
		}
	}
	return w.close(), nil
}
