package main

import (
	"fmt"
	"math/rand"
	"sync"

	"github.com/uhppoted/uhppote-core/encoding/bcd"
)

func init() { commands["c12"] = runC12 }

func bcdEnc(in []byte) M {
	var out, rt M
	p, msg := guard(func() {
		r, err := bcd.Encode(string(in))
		if err != nil || r == nil {
			out = M{"t": "err"}
			return
		}
		out = M{"t": "ok", "v": ints(*r)}
		// (the slice is the caller's now: appending to it - a date followed by a time, say - is the caller's business and
		// nobody else's; whatever that writes into spare capacity must not show in any later result)
		_ = append(append([]byte{}, (*r)[:0]...), 0) // (keeps vet quiet about the next line's discarded result)
		_ = append(*r, 0x99, 0x99, 0x99)
		// ... and so is writing into it: the SAME text encoded again afterwards (a second use of Encode with an argument it has
		// seen before) is judged like the first - the record carries the later result whenever the two differ
		first := append([]byte{}, *r...)
		for i := range *r {
			(*r)[i] ^= 0xff
		}
		if r2, err2 := bcd.Encode(string(in)); err2 != nil || r2 == nil {
			out = M{"t": "err"}
			return
		} else if string(*r2) != string(first) {
			out = M{"t": "ok", "v": ints(*r2)}
		}
		*r = append((*r)[:0], first...)
		s, err := bcd.Decode(*r)
		if err != nil {
			rt = M{"t": "err"}
		} else {
			rt = M{"t": "ok", "v": ints([]byte(s))}
		}
	})
	if p {
		out = M{"t": "panic", "msg": msg}
	}
	if rt == nil {
		rt = M{"t": "none"}
	}
	return M{"fn": "enc", "in": ints(in), "out": out, "rt": rt}
}

func bcdDec(in []byte) M {
	var out, rt M
	p, msg := guard(func() {
		s, err := bcd.Decode(in)
		if err != nil {
			out = M{"t": "err"}
			return
		}
		out = M{"t": "ok", "v": ints([]byte(s))}
		r, err := bcd.Encode(s)
		if err != nil || r == nil {
			rt = M{"t": "err"}
		} else {
			rt = M{"t": "ok", "v": ints(*r)}
		}
	})
	if p {
		out = M{"t": "panic", "msg": msg}
	}
	if rt == nil {
		rt = M{"t": "none"}
	}
	return M{"fn": "dec", "in": ints(in), "out": out, "rt": rt}
}

func runC12(o *opts) (*summary, error) {
	w, err := newShardWriter(o.out, "c12", o.shards)
	if err != nil {
		return nil, err
	}

	if o.replay != "" {
		recs, err := readNdjson(o.replay)
		if err != nil {
			return nil, err
		}
		for _, r := range recs {
			switch r["fn"] {
			case "enc":
				w.put(bcdEnc(toBytes(r["in"])), "enc", "")
			case "dec":
				w.put(bcdDec(toBytes(r["in"])), "dec", "")
			case "dec3":
				p := toBytes(r["p"])
				w.put(bcdDec3(p[0], p[1]), "dec3", "")
			}
		}
		return w.close(), nil
	}

	rng := rand.New(rand.NewSource(o.seed))
	thorough := o.tier == "thorough"

	// strings over a 12-symbol alphabet: digits, 'a', and a two-byte rune (é = c3 a9)
	alphabet := [][]byte{}
	for c := byte('0'); c <= '9'; c++ {
		alphabet = append(alphabet, []byte{c})
	}
	alphabet = append(alphabet, []byte{'a'}, []byte("é"))
	maxStr := 4
	if thorough {
		maxStr = 5
	}
	// a COLD process decodes before it has ever encoded (a reader of controller replies): whatever the package sets up on
	// first use, Decode's answer must not depend on Encode having run (the encodes that follow are the other order)
	for _, in := range [][]byte{{0x1a}, {0xa1}, {0xff}, {0x0a}, {0x12, 0x3f}, {0x12, 0xb4}, {0x99, 0x9a}, {0xc0, 0x00}, {0x20, 0x26, 0x0d, 0x29},
		// (the refused ones first: a refused decode encodes nothing)
		{0x12}, {0x00}, {0x99}, {0x20, 0x26, 0x09, 0x29}, {}} {
		w.put(bcdDec(in), "dec-cold", fmt.Sprintf("dc%v", in))
	}
	var gen func(prefix []byte, n int)
	gen = func(prefix []byte, n int) {
		w.put(bcdEnc(prefix), "enc", "e"+string(prefix))
		if n == 0 {
			return
		}
		for _, a := range alphabet {
			gen(append(append([]byte{}, prefix...), a...), n-1)
		}
	}
	gen([]byte{}, maxStr)

	// every single byte value as a one-character string, and embedded in digits
	for c := 0; c < 256; c++ {
		w.put(bcdEnc([]byte{byte(c)}), "enc", fmt.Sprintf("e1:%d", c))
		w.put(bcdEnc([]byte{'1', byte(c), '2'}), "enc", fmt.Sprintf("e3:%d", c))
	}

	// non-ASCII runes that Unicode classes as decimal digits or numbers (Arabic-Indic, Devanagari, fullwidth, mathematical
	// bold, superscript, fraction) and runes whose last UTF-8 byte is an ASCII-digit look-alike: all are "other characters"
	for _, r := range []rune{0x0660, 0x0663, 0x0669, 0x06f5, 0x0966, 0x096f, 0xff10, 0xff11, 0xff19, 0x1d7ce, 0x1d7d7, 0x00b2, 0x00bd, 0x2460, 0x0130, 0x0131, 0x0139, 0x3007, 0x4e00,
		// (the first and last code points of each UTF-8 length)
		0x0080, 0x0081, 0x00ff, 0x07ff, 0x0800, 0xffff, 0x10000, 0x10ffff, 0x007f} {
		u := []byte(string(r))
		w.put(bcdEnc(u), "enc-unicode", fmt.Sprintf("eu:%x", r))
		w.put(bcdEnc(append(append([]byte("12"), u...), '3')), "enc-unicode", fmt.Sprintf("eu3:%x", r))
		w.put(bcdEnc(append(append([]byte{}, u...), u...)), "enc-unicode", fmt.Sprintf("eu2:%x", r))
	}

	// all byte strings of length <= 2
	w.put(bcdDec([]byte{}), "dec", "d")
	w.put(bcdDec(nil), "dec", "dnil") // the empty sequence in its other guise
	var nilBytes []byte
	w.put(bcdDec(append(nilBytes, []byte{}...)), "dec", "dnil2")
	for a := 0; a < 256; a++ {
		w.put(bcdDec([]byte{byte(a)}), "dec", fmt.Sprintf("d%d", a))
		for b := 0; b < 256; b++ {
			w.put(bcdDec([]byte{byte(a), byte(b)}), "dec", fmt.Sprintf("d%d,%d", a, b))
		}
	}

	// length 3 over the nibble alphabet {0,5,9,A,F}
	nib := []byte{0, 5, 9, 10, 15}
	nb := []byte{}
	for _, h := range nib {
		for _, l := range nib {
			nb = append(nb, h<<4|l)
		}
	}
	for _, a := range nb {
		for _, b := range nb {
			for _, c := range nb {
				w.put(bcdDec([]byte{a, b, c}), "dec", fmt.Sprintf("d%d,%d,%d", a, b, c))
			}
		}
	}

	// position independence: long random inputs up to 64 bytes / 128 characters
	nLong := 2000
	if thorough {
		nLong = 40000
	}
	for i := 0; i < nLong; i++ {
		n := 1 + rng.Intn(64)
		b := make([]byte, n)
		mode := rng.Intn(3)
		for j := range b {
			switch mode {
			case 0: // valid BCD
				b[j] = byte(rng.Intn(10))<<4 | byte(rng.Intn(10))
			case 1: // valid BCD with one bad nibble somewhere
				b[j] = byte(rng.Intn(10))<<4 | byte(rng.Intn(10))
			default:
				b[j] = byte(rng.Intn(256))
			}
		}
		if mode == 1 {
			j := rng.Intn(n)
			if rng.Intn(2) == 0 {
				b[j] = b[j]&0x0f | byte(10+rng.Intn(6))<<4
			} else {
				b[j] = b[j]&0xf0 | byte(10+rng.Intn(6))
			}
		}
		w.put(bcdDec(b), "dec-long", fmt.Sprintf("dl%x", b))

		m := 1 + rng.Intn(128)
		s := make([]byte, m)
		for j := range s {
			s[j] = byte('0' + rng.Intn(10))
		}
		if rng.Intn(3) == 0 {
			s[rng.Intn(m)] = byte(rng.Intn(256))
		}
		w.put(bcdEnc(s), "enc-long", "el"+string(s))
	}

	// the same functions called from several goroutines at once (the listener decodes while requests encode): each call's
	// result is a function of its own argument - whatever the package keeps between calls is not shared state
	{
		const workers = 8
		per := 400
		if thorough {
			per = 5000
		}
		inputs := make([][][]byte, workers)
		for g := range inputs {
			for i := 0; i < per; i++ {
				n := 1 + rng.Intn(9)
				b := make([]byte, n)
				for j := range b {
					b[j] = byte(rng.Intn(10))<<4 | byte(rng.Intn(10))
				}
				if rng.Intn(5) == 0 {
					b[rng.Intn(n)] |= 0xa0
				}
				inputs[g] = append(inputs[g], b)
			}
		}
		results := make([][]M, workers)
		var wg sync.WaitGroup
		gate := make(chan struct{})
		for g := 0; g < workers; g++ {
			wg.Add(1)
			go func(g int) {
				defer wg.Done()
				<-gate
				for i, b := range inputs[g] {
					if (i+g)%2 == 0 {
						results[g] = append(results[g], bcdDec(b))
					} else {
						d := make([]byte, 0, 2*len(b))
						for _, x := range b {
							d = append(d, '0'+x>>4%10, '0'+x&0x0f%10)
						}
						results[g] = append(results[g], bcdEnc(d))
					}
				}
			}(g)
		}
		close(gate)
		wg.Wait()
		for g := range results {
			for i, r := range results[g] {
				w.put(r, "concurrent", fmt.Sprintf("c%d/%d", g, i))
			}
		}
	}

	// ... and the earliest inputs once more, thousands of distinct values later (whatever the package remembers of earlier
	// calls - a memo with a size limit, say - the answer is a function of the argument)
	for a := 0; a < 256; a += 3 {
		w.put(bcdDec([]byte{byte(a)}), "again", fmt.Sprintf("again-d%d", a))
		w.put(bcdDec([]byte{0, byte(a)}), "again", fmt.Sprintf("again-d0,%d", a))
		w.put(bcdDec([]byte{byte(a), 0x12, 0x34}), "again", fmt.Sprintf("again-d3,%d", a))
	}
	for c := '0'; c <= '9'; c++ {
		w.put(bcdEnc([]byte{byte(c)}), "again", fmt.Sprintf("again-e%c", c))
		w.put(bcdEnc([]byte{'0', '0', byte(c), '7'}), "again", fmt.Sprintf("again-e4%c", c))
	}

	// exhaustive 3-byte decode in summarised form
	if thorough {
		for a := 0; a < 256; a++ {
			for b := 0; b < 256; b++ {
				w.put(bcdDec3(byte(a), byte(b)), "dec3", fmt.Sprintf("d3:%d,%d", a, b))
			}
		}
	}

	return w.close(), nil
}

// bcdDec3 decodes all 256 three-byte strings with the given two leading bytes.
func bcdDec3(a, b byte) M {
	okset := []int{}
	echo := true
	for c := 0; c < 256; c++ {
		in := []byte{a, b, byte(c)}
		p, _ := guard(func() {
			s, err := bcd.Decode(in)
			if err == nil {
				okset = append(okset, c)
				if s != fmt.Sprintf("%02x%02x%02x", a, b, c) {
					echo = false
				}
			}
		})
		if p {
			echo = false
		}
	}
	return M{"fn": "dec3", "p": []int{int(a), int(b)}, "okset": okset, "echo": echo}
}
