package main

import (
	"fmt"
	"github.com/uhppoted/uhppote-core/types"
	"math/rand"
	"reflect"

	codec "github.com/uhppoted/uhppote-core/encoding/UTO311-L0x"
)

func init() { commands["c18"] = runC18 }

type kindDef struct {
	kind string // specification kind
	typ  reflect.Type
	w    int
}

var layoutKinds = []kindDef{
	{"u8", rtU8, 1}, {"u16", rtU16, 2}, {"u32", rtU32, 4}, {"bool", rtBool, 1}, {"ipv4", rtIP, 4}, {"addrport", rtAddrPort, 6},
	{"mac", rtHW, 6}, {"mac", rtMAC, 6}, {"serial", rtSerial, 4}, {"date", rtDate, 4}, {"datetime", rtDateTime, 7}, {"sysdate", rtSysDate, 3},
	{"systime", rtSysTime, 3}, {"hhmm", rtHHmm, 2}, {"pin", rtPIN, 3}, {"version", rtVersion, 2},
	// the nil-tolerant date and time types also by pointer
	{"date", rtDateP, 4}, {"datetime", rtDTP, 7}, {"hhmmp", rtHHmmP, 2},
}

type fieldSpec struct {
	name     string
	k        kindDef
	off      int
	embedded bool
	second   bool   // embedded in a second anonymous struct at the same depth
	goName   string // Go field name ("" = name): inner fields may share a name with an outer field or with a field of the other embedded struct
	fixed    string // value tag text ("" = none); only for u8 fields
	fixedVal int
}

// buildType builds the Go struct type of a layout with reflect.StructOf (tags as a user would write them)
func buildType(code int, codeTag string, fields []fieldSpec) reflect.Type {
	top := []reflect.StructField{{Name: "MsgType", Type: rtMsgType, Tag: reflect.StructTag(fmt.Sprintf(`uhppote:"value:%s"`, codeTag))}}
	emb := []reflect.StructField{}
	emb2 := []reflect.StructField{}
	for _, f := range fields {
		tag := fmt.Sprintf(`uhppote:"offset:%d"`, f.off)
		if f.fixed != "" {
			// (the two clauses of a tag are independent of each other: either order, any separator)
			switch (f.off + len(fields)) % 4 {
			case 0:
				tag = fmt.Sprintf(`uhppote:"offset:%d, value:%s"`, f.off, f.fixed)
			case 1:
				tag = fmt.Sprintf(`uhppote:"value:%s, offset:%d"`, f.fixed, f.off)
			case 2:
				tag = fmt.Sprintf(`uhppote:"offset:%d; value:%s"`, f.off, f.fixed)
			case 3:
				tag = fmt.Sprintf(`uhppote:"offset:%d value:%s"`, f.off, f.fixed)
			}
		}
		sf := reflect.StructField{Name: f.name, Type: f.k.typ, Tag: reflect.StructTag(tag)}
		if f.goName != "" {
			sf.Name = f.goName
		}
		if f.embedded && f.second {
			emb2 = append(emb2, sf)
		} else if f.embedded {
			emb = append(emb, sf)
		} else {
			top = append(top, sf)
		}
	}
	if len(emb) > 0 {
		// the embedded struct sits first, in the middle or last among the top-level fields (by function code):
		// what is declared AFTER an embedded struct must be encoded and decoded like everything else
		in := reflect.StructField{Name: "Inner", Type: reflect.StructOf(emb), Anonymous: true}
		pos := 1 + code%3*(len(top)-1)/2 // 1 (right after MsgType) | middle | len(top) (last)
		if code%3 == 2 {
			pos = len(top)
		}
		top = append(top[:pos], append([]reflect.StructField{in}, top[pos:]...)...)
	}
	if len(emb2) > 0 {
		top = append(top, reflect.StructField{Name: "Other", Type: reflect.StructOf(emb2), Anonymous: true})
	}
	return reflect.StructOf(top)
}

func walkAll(v reflect.Value, fn func(name string, f reflect.Value)) { walkIn(v, "", fn) }

// walkIn: fields are named by the anonymous struct they sit in + their Go name ("Inner.A"; top-level: "A")
func walkIn(v reflect.Value, in string, fn func(name string, f reflect.Value)) {
	t := v.Type()
	for i := 0; i < t.NumField(); i++ {
		sf := t.Field(i)
		if sf.Anonymous && sf.Type.Kind() == reflect.Struct {
			walkIn(v.Field(i), sf.Name+".", fn)
			continue
		}
		if sf.Type == rtMsgType || sf.Type == rtSOM {
			continue
		}
		fn(in+sf.Name, v.Field(i))
	}
}

// keyOf: the specification's name of a field, from where it sits in the Go struct
func keyOf(fields []fieldSpec) func(string) string {
	m := map[string]string{}
	for _, f := range fields {
		g := f.name
		if f.goName != "" {
			g = f.goName
		}
		switch {
		case f.embedded && f.second:
			g = "Other." + g
		case f.embedded:
			g = "Inner." + g
		}
		m[g] = f.name
	}
	return func(path string) string { return m[path] }
}

// nil pointers stand for the kind's zero "no value"
func projLayoutField(f reflect.Value) any {
	if f.Kind() == reflect.Ptr && f.IsNil() {
		switch f.Type() {
		case rtHHmmP:
			return M{"h": 0, "mi": 0}
		default:
			return M{"t": "zero"}
		}
	}
	if f.Type() == rtIP && f.Len() == 0 {
		return []int{}
	}
	return projField(f)
}

func layoutRecord(rng *rand.Rand, code int, codeTag string, fields []fieldSpec, class string) M {
	lf := []any{}
	for _, f := range fields {
		lf = append(lf, M{"name": f.name, "kind": f.k.kind, "off": f.off})
	}
	rec := M{"fn": "layout", "layout": M{"code": code, "fields": lf}, "class": class, "codetag": codeTag}
	var t reflect.Type
	if presetType != nil {
		t = presetType
	} else if p, msg := guard(func() { t = buildType(code, codeTag, fields) }); p {
		rec["skip"] = "StructOf: " + msg
		return rec
	}
	// the zero value of the layout (unset addresses, nil slices and pointers, zero dates) must encode without a panic
	rec["enczero"] = M{"t": "err"}
	if p, msg := guard(func() {
		if _, err := codec.Marshal(reflect.New(t).Elem().Interface()); err == nil {
			rec["enczero"] = M{"t": "ok"}
		}
	}); p {
		rec["enczero"] = M{"t": "panic", "msg": msg}
	}
	msgv := reflect.New(t).Elem()
	vals := M{}
	fixed := map[string]fieldSpec{}
	for _, f := range fields {
		if f.fixed != "" {
			fixed[f.name] = f
		}
	}
	key := keyOf(fields)
	walkAll(msgv, func(path string, f reflect.Value) {
		name := key(path)
		if fx, ok := fixed[name]; ok {
			vals[name] = fx.fixedVal // emitted from the tag whatever the field holds
			f.SetUint(uint64(rng.Intn(256)))
			return
		}
		if f.Kind() == reflect.Ptr && rng.Intn(3) == 0 {
			vals[name] = projLayoutField(f) // nil pointer
			return
		}
		vals[name] = genField(rng, f, true)
	})
	rec["vals"] = vals

	var bytes []byte
	rec["enc"] = M{"t": "err"}
	if p, msg := guard(func() {
		b, err := codec.Marshal(msgv.Interface())
		if err == nil {
			bytes = b
			rec["enc"] = M{"t": "ok", "b": ints(b)}
		}
	}); p {
		rec["enc"] = M{"t": "panic", "msg": msg}
	}
	// the same value handed over by pointer encodes to the same bytes
	rec["encptr"] = M{"t": "err"}
	if p, msg := guard(func() {
		if b, err := codec.Marshal(msgv.Addr().Interface()); err == nil {
			rec["encptr"] = M{"t": "ok", "b": ints(b)}
		}
	}); p {
		rec["encptr"] = M{"t": "panic", "msg": msg}
	}
	rec["dec"], rec["aliased"], rec["decwrong"] = M{"t": "none"}, false, M{"t": "none"}
	if bytes == nil {
		// still try decoding a specification-independent all-zero message with the right header: no panic
		z := make([]byte, 64)
		z[0], z[1] = 0x17, byte(code)
		if p, msg := guard(func() { codec.Unmarshal(z, reflect.New(t).Interface()) }); p {
			rec["dec"] = M{"t": "panic", "msg": msg}
		}
		return rec
	}
	if p, msg := guard(func() {
		in := append([]byte{}, bytes...)
		out := reflect.New(t)
		if err := codec.Unmarshal(in, out.Interface()); err != nil {
			rec["dec"] = M{"t": "err"}
			return
		}
		pv := M{}
		walkAll(out.Elem(), func(path string, f reflect.Value) { pv[key(path)] = projLayoutField(f) })
		rec["dec"] = M{"t": "ok", "v": pv}
		// decoded values share no memory with the input buffer
		for i := range in {
			in[i] = 0xee
		}
		pv2 := M{}
		walkAll(out.Elem(), func(path string, f reflect.Value) { pv2[key(path)] = projLayoutField(f) })
		rec["aliased"] = fmt.Sprint(pv) != fmt.Sprint(pv2)
	}); p {
		rec["dec"] = M{"t": "panic", "msg": msg}
	}
	// ... and decoded into a struct that already holds OTHER values of the same layout: what is decoded is a function of
	// the bytes alone (a field that is only written when its bytes are non-zero keeps the old value)
	rec["decreuse"] = M{"t": "none"}
	if p, msg := guard(func() {
		other := reflect.New(t).Elem()
		walkAll(other, func(path string, f reflect.Value) {
			if _, ok := fixed[key(path)]; ok {
				return
			}
			genField(rng, f, false)
			if f.Kind() == reflect.Bool {
				f.SetBool(true)
			}
		})
		ob, err := codec.Marshal(other.Interface())
		if err != nil {
			return
		}
		out := reflect.New(t)
		if err := codec.Unmarshal(ob, out.Interface()); err != nil {
			return
		}
		if err := codec.Unmarshal(bytes, out.Interface()); err != nil {
			rec["decreuse"] = M{"t": "err"}
			return
		}
		pv := M{}
		walkAll(out.Elem(), func(path string, f reflect.Value) { pv[key(path)] = projLayoutField(f) })
		rec["decreuse"] = M{"t": "ok", "v": pv}
	}); p {
		rec["decreuse"] = M{"t": "panic", "msg": msg}
	}
	// function-code and fixed-value tags are enforced on decode
	if p, msg := guard(func() {
		wrong := append([]byte{}, bytes...)
		if len(fixed) > 0 && rng.Intn(2) == 0 {
			for _, fx := range fixed {
				wrong[fx.off] ^= 0x01
				break
			}
		} else {
			wrong[1] ^= byte(1 + rng.Intn(255))
		}
		if err := codec.Unmarshal(wrong, reflect.New(t).Interface()); err != nil {
			rec["decwrong"] = M{"t": "err"}
		} else {
			rec["decwrong"] = M{"t": "ok"}
		}
	}); p {
		rec["decwrong"] = M{"t": "panic", "msg": msg}
	}
	return rec
}

// presetType: a layout that is a NAMED Go type written out below (nil: the layout is built with reflect.StructOf)
var presetType reflect.Type

// two layouts that are different Go types with the SAME name (function-local types called L): whatever the codec remembers
// about a layout, it must remember it for the type, not for its name
func localLayoutA() (reflect.Type, []fieldSpec) {
	type L struct {
		MsgType types.MsgType `uhppote:"value:0x71"`
		A       uint32        `uhppote:"offset:8"`
		B       uint8         `uhppote:"offset:20"`
		C       uint16        `uhppote:"offset:40"`
	}
	return reflect.TypeOf(L{}), []fieldSpec{{name: "A", k: kindNamed("u32"), off: 8}, {name: "B", k: kindNamed("u8"), off: 20}, {name: "C", k: kindNamed("u16"), off: 40}}
}

func localLayoutB() (reflect.Type, []fieldSpec) {
	type L struct {
		MsgType types.MsgType `uhppote:"value:0x71"`
		A       uint32        `uhppote:"offset:12"`
		B       uint8         `uhppote:"offset:33"`
		C       uint16        `uhppote:"offset:62"`
		D       bool          `uhppote:"offset:50"`
	}
	return reflect.TypeOf(L{}), []fieldSpec{{name: "A", k: kindNamed("u32"), off: 12}, {name: "B", k: kindNamed("u8"), off: 33}, {name: "C", k: kindNamed("u16"), off: 62}, {name: "D", k: kindNamed("bool"), off: 50}}
}

func kindNamed(kind string) kindDef {
	for _, k := range layoutKinds {
		if k.kind == kind {
			return k
		}
	}
	panic("no layout kind " + kind)
}

func runC18(o *opts) (*summary, error) {
	w, err := newShardWriter(o.out, "layout", o.shards)
	if err != nil {
		return nil, err
	}
	rng := rand.New(rand.NewSource(o.seed))
	thorough := o.tier == "thorough"
	codeTag := func(code int) string {
		switch rng.Intn(3) {
		case 0:
			return fmt.Sprintf("%d", code)
		case 1:
			return fmt.Sprintf("0x%02x", code)
		}
		return fmt.Sprintf("0X%02X", code)
	}

	// (1) every single-field layout: kind x every offset 2..63 at which it fits x top-level / embedded
	for _, k := range layoutKinds {
		for off := 2; off+k.w <= 64; off++ {
			for _, emb := range []bool{false, true} {
				if !thorough && emb && off%3 != 0 && off+k.w != 64 {
					continue
				}
				code := 1 + rng.Intn(255)
				w.put(layoutRecord(rng, code, codeTag(code), []fieldSpec{{name: "A", k: k, off: off, embedded: emb}}, "single"),
					"single-"+k.kind, fmt.Sprintf("s/%s/%v/%d/%v", k.kind, k.typ, off, emb))
			}
		}
	}
	// (1b) two named layouts of the same name, alternately (A, B, A, B ...)
	for i := 0; i < 6; i++ {
		t, fs := localLayoutA()
		if i%2 == 1 {
			t, fs = localLayoutB()
		}
		presetType = t
		w.put(layoutRecord(rng, 0x71, "0x71", fs, "named"), "named", fmt.Sprintf("n/%d", i))
		presetType = nil
	}
	// (2) fixed-value byte tags, decimal / hex / upper case, at every offset
	for off := 2; off < 64; off++ {
		for _, style := range []string{"%d", "0x%02x", "0X%02X", "0x%x"} {
			v := rng.Intn(256)
			if off%4 == 0 {
				v = []int{10, 16, 0x55, 99, 255, 9, 0, 100}[rng.Intn(8)]
			}
			code := 1 + rng.Intn(255)
			fs := []fieldSpec{{name: "A", k: layoutKinds[0], off: off, fixed: fmt.Sprintf(style, v), fixedVal: v}}
			w.put(layoutRecord(rng, code, codeTag(code), fs, "fixed"), "fixed", fmt.Sprintf("f/%d/%s/%d", off, style, v))
		}
	}
	// (3) multi-field layouts: 1..12 non-overlapping fields, packed to the last byte part of the time
	n := 1000
	if thorough {
		n = 20000
	}
	for i := 0; i < n; i++ {
		nf := 1 + rng.Intn(12)
		used := make([]bool, 64)
		fields := []fieldSpec{}
		for j := 0; j < nf; j++ {
			k := layoutKinds[rng.Intn(len(layoutKinds))]
			for try := 0; try < 20; try++ {
				off := 2 + rng.Intn(63-k.w)
				if try == 0 && j == 0 && rng.Intn(2) == 0 {
					off = 64 - k.w // ends on the last byte
				}
				ok := true
				for b := off; b < off+k.w; b++ {
					if used[b] {
						ok = false
					}
				}
				if !ok {
					continue
				}
				for b := off; b < off+k.w; b++ {
					used[b] = true
				}
				fs := fieldSpec{name: fmt.Sprintf("F%d", j), k: k, off: off, embedded: rng.Intn(4) == 0}
				fs.second = fs.embedded && rng.Intn(3) == 0
				// Go names: an inner field may carry the name of an outer field or of a field in the other embedded struct
				// (a legal layout: the offsets are what the codec goes by); names stay unique within one struct
				if i%3 == 0 && len(fields) > 0 && rng.Intn(2) == 0 {
					o := fields[rng.Intn(len(fields))]
					g := o.name
					if o.goName != "" {
						g = o.goName
					}
					clash := false
					for _, x := range fields {
						xg := x.name
						if x.goName != "" {
							xg = x.goName
						}
						if x.embedded == fs.embedded && x.second == fs.second && (xg == g || x.name == g) {
							clash = true
						}
					}
					if !clash && (o.embedded != fs.embedded || o.second != fs.second) {
						fs.goName = g
					}
				}
				fields = append(fields, fs)
				break
			}
		}
		code := 1 + rng.Intn(255)
		w.put(layoutRecord(rng, code, codeTag(code), fields, "multi"), "multi", fmt.Sprintf("m/%d", i))
	}
	return w.close(), nil
}
