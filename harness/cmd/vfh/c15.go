package main

import (
	"fmt"
	"math/rand"
	"net/netip"

	"github.com/uhppoted/uhppote-core/types"
)

func init() { commands["c15"] = runC15 }

var addrRoles = []string{"bind", "broadcast", "listen", "controller"}

func parseRole(role, s string) (netip.AddrPort, error) {
	switch role {
	case "bind":
		a, err := types.ParseBindAddr(s)
		return a.AddrPort, err
	case "broadcast":
		a, err := types.ParseBroadcastAddr(s)
		return a.AddrPort, err
	case "listen":
		a, err := types.ParseListenAddr(s)
		return a.AddrPort, err
	}
	a, err := types.ParseControllerAddr(s)
	return a.AddrPort, err
}

func formatRole(role string, ap netip.AddrPort) string {
	switch role {
	case "bind":
		return types.BindAddr{AddrPort: ap}.String()
	case "broadcast":
		return types.BroadcastAddr{AddrPort: ap}.String()
	case "listen":
		return types.ListenAddr{AddrPort: ap}.String()
	}
	return types.ControllerAddr{AddrPort: ap}.String()
}

// setRole: the flag.Value style entry point (Set on a zero value) of the same parser
// mustRole: the MustParse... entry points refuse by panicking - which is their way of returning an error
func mustRole(role, s string) (ap netip.AddrPort, err error) {
	defer func() {
		if r := recover(); r != nil {
			err = fmt.Errorf("%v", r)
		}
	}()
	switch role {
	case "bind":
		return types.MustParseBindAddr(s).AddrPort, nil
	case "broadcast":
		return types.MustParseBroadcastAddr(s).AddrPort, nil
	case "listen":
		return types.MustParseListenAddr(s).AddrPort, nil
	}
	return types.MustParseControllerAddr(s).AddrPort, nil
}

func setRole(role, s string) (netip.AddrPort, error) {
	switch role {
	case "bind":
		var a types.BindAddr
		err := a.Set(s)
		return a.AddrPort, err
	case "broadcast":
		var a types.BroadcastAddr
		err := a.Set(s)
		return a.AddrPort, err
	case "listen":
		var a types.ListenAddr
		err := a.Set(s)
		return a.AddrPort, err
	}
	var a types.ControllerAddr
	err := a.Set(s)
	return a.AddrPort, err
}

// setLoaded: Set on an object that already HOLDS an address (a flag with a default value, a second -flag on the command
// line): what it holds afterwards is the new text's address and port - the previous value differs from it in the port only,
// in the address only, or in both
func setLoaded(k int) func(role, s string) (netip.AddrPort, error) {
	return func(role, s string) (netip.AddrPort, error) {
		pre := "192.168.1.1:12345"
		if ap, err := parseRole(role, s); err == nil && ap.Addr().Is4() {
			switch k % 3 {
			case 0:
				pre = fmt.Sprintf("%v:%d", ap.Addr(), map[bool]int{true: 54321, false: 60001}[ap.Port() != 54321])
			case 1:
				pre = fmt.Sprintf("10.9.8.7:%d", map[bool]int{true: int(ap.Port()), false: 60000}[ap.Port() != 0])
			}
		}
		switch role {
		case "bind":
			var a types.BindAddr
			if a.Set(pre) != nil {
				a = types.BindAddr{}
			}
			err := a.Set(s)
			return a.AddrPort, err
		case "broadcast":
			var a types.BroadcastAddr
			if a.Set(pre) != nil {
				a = types.BroadcastAddr{}
			}
			err := a.Set(s)
			return a.AddrPort, err
		case "listen":
			var a types.ListenAddr
			if a.Set(pre) != nil {
				a = types.ListenAddr{}
			}
			err := a.Set(s)
			return a.AddrPort, err
		}
		var a types.ControllerAddr
		if a.Set(pre) != nil {
			a = types.ControllerAddr{}
		}
		err := a.Set(s)
		return a.AddrPort, err
	}
}

func fromRole(role string, addr netip.Addr, port uint16) string {
	switch role {
	case "bind":
		return types.BindAddrFrom(addr, port).String()
	case "broadcast":
		return types.BroadcastAddrFrom(addr, port).String()
	case "listen":
		return types.ListenAddrFrom(addr, port).String()
	}
	return types.ControllerAddrFrom(addr, port).String()
}

func parseOut(role, s string) M {
	return parseOutVia(role, s, parseRole)
}

func parseOutVia(role, s string, parse func(string, string) (netip.AddrPort, error)) M {
	var out M
	if p, msg := guard(func() {
		ap, err := parse(role, s)
		if err != nil {
			out = M{"t": "err"}
		} else if !ap.Addr().Is4() {
			out = M{"t": "ok", "ip": ints(ap.Addr().AsSlice()), "port": int(ap.Port()), "not4": true}
		} else {
			out = M{"t": "ok", "ip": ints(ap.Addr().AsSlice()), "port": int(ap.Port())}
		}
	}); p {
		out = M{"t": "panic", "msg": msg}
	}
	return out
}

func cps(s string) []int {
	r := []int{}
	for _, c := range s {
		r = append(r, int(c))
	}
	return r
}

func runC15(o *opts) (*summary, error) {
	w, err := newShardWriter(o.out, "pure", o.shards)
	if err != nil {
		return nil, err
	}
	rng := rand.New(rand.NewSource(o.seed))
	thorough := o.tier == "thorough"
	nset := 0
	emit := func(role, s, class string) {
		first := parseOut(role, s)
		// (the same text once more: what a parser answers is a function of the text, not of having seen it before)
		w.put(M{"fn": "parse", "role": role, "s": cps(s), "text": s, "out": first, "again": parseOut(role, s)}, class, role+"|"+s)
		// the same text through Set() on a zero value (every fourth text): judged like Parse
		// (and every text around a port rule, and half of those the parser refuses: Set has to refuse them too)
		if nset++; nset%4 == 0 || class == "odd" || class == "ports-odd" || class == "ports" || (first["t"] == "err" && nset%2 == 0) {
			w.put(M{"fn": "parse", "role": role, "s": cps(s), "text": s, "out": parseOutVia(role, s, setRole), "entry": "Set"}, class+"-set", role+"|set|"+s)
			w.put(M{"fn": "parse", "role": role, "s": cps(s), "text": s, "out": parseOutVia(role, s, mustRole), "entry": "MustParse"}, class+"-must", role+"|must|"+s)
			if first["t"] == "ok" {
				w.put(M{"fn": "parse", "role": role, "s": cps(s), "text": s, "out": parseOutVia(role, s, setLoaded(nset/4)), "entry": "Set-loaded"}, class+"-set-loaded", role+"|setl|"+s)
			}
		}
	}

	// cold pass (one fresh process per role): the FIRST address this process ever parses goes through that role's parser,
	// then a handful of texts through every role and entry point - whatever the parsers set up on first use (shared patterns,
	// tables) must not depend on which of them ran first
	if cold := o.extraArg("cold"); cold != "" {
		emit(cold, "192.168.1.100:60001", "cold-first")
		for _, role := range addrRoles {
			for _, s := range []string{"192.168.1.100", "192.168.1.100:60000", "192.168.1.100:12345", "0.0.0.0", "0.0.0.0:0", "255.255.255.255", "10.0.0.1:1", "192.168.1.100:0", "192.168.1", "192.168.1.100:65536", "", "[::1]:60000"} {
				emit(role, s, "ports")
			}
		}
		return w.close(), nil
	}

	// (1) all strings over {1,0,2,5,.,:} up to length 7 (9 thorough): those with fewer than three dots are
	// summarised per (role, length) - none may be accepted; the others are judged one by one
	alphabet := []byte("1025.:")
	maxLen := 7
	if thorough {
		maxLen = 9
	}
	for _, role := range addrRoles {
		accepted := make([]int, maxLen+1)
		total := make([]int, maxLen+1)
		var gen func(prefix []byte, dots int)
		gen = func(prefix []byte, dots int) {
			if dots >= 3 {
				// everything the parser ACCEPTS is always judged; of the rejected ones a sample in the
				// quick tier (thorough: all up to length 8, a sample of length 9)
				_, perr := parseRole(role, string(prefix))
				if perr == nil || (thorough && (len(prefix) <= 8 || rng.Intn(6) == 0)) || (!thorough && rng.Intn(4) == 0) {
					emit(role, string(prefix), "enum")
				}
			} else {
				total[len(prefix)]++
				if _, err := parseRole(role, string(prefix)); err == nil {
					accepted[len(prefix)]++
				}
			}
			if len(prefix) == maxLen {
				return
			}
			for _, c := range alphabet {
				d := dots
				if c == '.' {
					d++
				}
				gen(append(append([]byte{}, prefix...), c), d)
			}
		}
		gen(nil, 0)
		for n := 0; n <= maxLen; n++ {
			w.put(M{"fn": "nodots", "role": role, "len": n, "total": total[n], "accepted": accepted[n]}, "nodots", fmt.Sprintf("%s/nodots/%d", role, n))
		}
	}

	// (2) all 2^16 ports on a fixed address for each role (quick: boundaries + every 97th)
	for _, role := range addrRoles {
		for p := 0; p < 65536; p++ {
			if !thorough && !(p < 3 || p > 65533 || (p >= 59998 && p <= 60002) || p%97 == 0) {
				continue
			}
			emit(role, fmt.Sprintf("192.168.1.100:%d", p), "ports")
		}
		for _, p := range []string{"65536", "65537", "70000", "99999", "100000", "4294967296", "00080", "080", "", "-1", "+80", "6e4", " 80", "80 ",
			"00010", "010", "08", "09999", "08080", "04660", "0060000", "060000", "00", "000", "0x1f90", "0X50", "0b101", "0o17", "6_0001", "8080.", "80:", "٨٠", "８０", "1e3", "0x"} {
			emit(role, "192.168.1.100:"+p, "ports-odd")
		}
	}

	// (3) mutations of valid addresses: insert / delete / replace one character
	nm := 2500
	if thorough {
		nm = 20000
	}
	chars := []byte("0123456789.: x[]%+-,/a")
	for i := 0; i < nm; i++ {
		base := fmt.Sprintf("%d.%d.%d.%d", rng.Intn(256), rng.Intn(256), rng.Intn(256), rng.Intn(256))
		if rng.Intn(3) != 0 {
			base += fmt.Sprintf(":%d", []int{0, 1, 59999, 60000, 60001, 65535, rng.Intn(65536)}[rng.Intn(7)])
		}
		b := []byte(base)
		switch rng.Intn(4) {
		case 0:
			p := rng.Intn(len(b) + 1)
			b = append(b[:p], append([]byte{chars[rng.Intn(len(chars))]}, b[p:]...)...)
		case 1:
			p := rng.Intn(len(b))
			b = append(b[:p], b[p+1:]...)
		case 2:
			b[rng.Intn(len(b))] = chars[rng.Intn(len(chars))]
		}
		emit(addrRoles[rng.Intn(4)], string(b), "mutation")
	}
	for _, s := range []string{"", " ", "::1", "[::1]:60000", "[::ffff:1.2.3.4]:60000", "1.2.3.4.5", "1.2.3", "256.1.1.1", "1.2.3.256:80", "01.2.3.4", "1.2.3.4:", ":80", "localhost:80", "1.2.3.4:80:90", "a1.2.3.4", "1.2.3.4z",
		// texts without a dotted quad whose groups of digits are separated by something else than dots (IPv6 literals with four
		// short decimal groups, quads written with other separators)
		"1:2:3:4::", "::1:2:3:4", "1:2:3:4:5:6:7:8", "[192:168:1:100::1]:60001", "1:2:3:4::%5", "192:168:1:100::", "10:0:0:1::", "[1:2:3:4::]:60001",
		"1-2-3-4", "1,2,3,4", "1 2 3 4", "1/2/3/4", "1x2x3x4:80", "192_168_1_100", "192:168:1:100", "fe80::1", "2001:db8::1", "[fe80::1%lo]:60001"} {
		for _, role := range addrRoles {
			emit(role, s, "odd")
		}
	}

	// (4) format / parse round trip of accepted addresses
	nf := 2500
	if thorough {
		nf = 10000
	}
	// boundary addresses (all-zero, all-ones, each octet at 0 / 255 alone, loopback) x boundary ports x roles first
	bips := [][4]byte{{0, 0, 0, 0}, {255, 255, 255, 255}, {127, 0, 0, 1}, {0, 0, 0, 1}, {1, 0, 0, 0}, {0, 255, 0, 255}, {255, 0, 255, 0}, {10, 0, 0, 0}, {192, 168, 1, 255}, {224, 0, 0, 1}, {169, 254, 0, 0}}
	bports := []int{0, 1, 59999, 60000, 60001, 65534, 65535, 6000, 600}
	nb := len(bips) * len(bports) * len(addrRoles)
	for i := 0; i < nb+nf; i++ {
		role := addrRoles[rng.Intn(4)]
		ip := [4]byte{byte(rng.Intn(256)), byte(rng.Intn(256)), byte(rng.Intn(256)), byte(rng.Intn(256))}
		port := []int{0, 1, 59999, 60000, 60001, 65535, rng.Intn(65536), 6000}[rng.Intn(8)]
		if i < nb {
			role, ip, port = addrRoles[i%len(addrRoles)], bips[(i/len(addrRoles))%len(bips)], bports[i/(len(addrRoles)*len(bips))]
		}
		s := fmt.Sprintf("%d.%d.%d.%d:%d", ip[0], ip[1], ip[2], ip[3], port)
		if i < nb {
			// boundary address x boundary port x role: the parse itself is judged too (accept exactly / reject by the port rule)
			emit(role, s, "boundary")
			if port == 60000 || port == 0 {
				emit(role, fmt.Sprintf("%d.%d.%d.%d", ip[0], ip[1], ip[2], ip[3]), "boundary")
			}
		}
		ap, err := parseRole(role, s)
		if err != nil {
			continue // violates the role's port rule: (2)'s business
		}
		var text string
		var re M
		if p, msg := guard(func() {
			text = formatRole(role, ap)
			if i%2 == 1 {
				text = fromRole(role, ap.Addr(), ap.Port()) // the XAddrFrom constructors format alike
			}
			re = parseOut(role, text)
		}); p {
			re = M{"t": "panic", "msg": msg}
		}
		w.put(M{"fn": "format", "role": role, "ip": ints(ip[:]), "port": port, "text": cps(text), "reparsed": re}, "format", role+"|f|"+s)
	}
	return w.close(), nil
}
