package main

import (
	"fmt"
	"math/rand"
	"net/netip"
)

func init() { commands["c06"] = runC06 }

func projAddr(s string) M {
	if s == "" {
		return M{"valid": false, "ip": []int{}, "port": 0}
	}
	ap := netip.MustParseAddrPort(s)
	return M{"valid": true, "ip": ints(ap.Addr().AsSlice()), "port": int(ap.Port())}
}

func projCfgRouted(c clientCfg) M {
	devs := []any{}
	for _, d := range c.Devices {
		devs = append(devs, M{"name": d.Name, "serial": u32(d.Serial), "addr": projAddr(d.Addr), "proto": d.Proto})
	}
	return M{"routed": true, "bind": projAddr(c.Bind), "broadcast": projAddr(c.Broadcast), "devices": devs}
}

// runC06: every operation under every client configuration of the product
// {not configured, no address, 0.0.0.0, port 0, valid} x {udp, tcp, any, ""} x {bind port 0, fixed} x {broadcast set, unset}
func runC06(o *opts) (*summary, error) {
	w, err := newShardWriter(o.out, "api", o.shards)
	if err != nil {
		return nil, err
	}
	w.only = parseOnly(o.extraArg("only"))
	rng := rand.New(rand.NewSource(o.seed))
	g := &G{r: rng, inDomain: true}
	// (optional) the reply layouts: half of the calls are ANSWERED with a well-formed reply - an operation that goes on to
	// make a second exchange of its own accord when it likes (or dislikes) the answer is not "one request per call"
	var lt *layoutTables
	if x := o.extraArg("layouts"); x != "" {
		lt, _ = loadLayouts(x)
	}
	const serial = 405419896
	addrKinds := map[string]string{"none": "", "zeroip": "0.0.0.0:60000", "port0": "192.168.1.100:0", "valid": "192.168.1.100:60000", "altport": "10.1.2.3:54321"}
	nconf := 0
	for _, kind := range []string{"unconfigured", "none", "zeroip", "port0", "valid", "altport"} {
		for _, proto := range []string{"udp", "tcp", "any", "", "TCP"} {
			for _, bind := range []string{"", "192.168.1.10:0", "192.168.1.10:50001"} {
				for _, bc := range []string{"", "192.168.1.255:60000", "192.168.1.255:60005"} {
					cfg := clientCfg{Bind: bind, Broadcast: bc, ViaNew: nconf%2 == 1}
					// other controllers are always configured: routing must pick the right one
					cfg.Devices = append(cfg.Devices, devCfg{Name: "other", Serial: 303986753, Addr: "192.168.1.200:60000", Proto: "tcp"})
					if kind != "unconfigured" {
						cfg.Devices = append(cfg.Devices, devCfg{Name: "target", Serial: serial, Addr: addrKinds[kind], Proto: proto})
					}
					cfg.Devices = append(cfg.Devices, devCfg{Name: "third", Serial: 201020304, Addr: "192.168.1.201:60001", Proto: "udp"})
					u, d := stubClient(cfg)
					p := projCfgRouted(cfg)
					nconf++
					for _, op := range allOps {
						if o.tier != "thorough" && rng.Intn(3) != 0 && kind != "valid" {
							continue
						}
						cs := g.call(op, serial)
						d.script = nil
						if l, ok := ltRsp(lt, op); ok && rng.Intn(2) == 0 {
							d.script = func(method string, req []byte) [][]byte {
								m := l.message(rng, 0x17, req[4:8], "valid", nil)
								switch op {
								case "GetCardByID":
									copy(m[8:12], req[8:12])
								case "GetTimeProfile":
									m[8] = req[8]
								}
								return [][]byte{m}
							}
						}
						rec := doCall(u, d, cs)
						rec["cfg"] = p
						w.put(rec, "route-"+kind, fmt.Sprintf("%s/%s/%s/%s/%s", op, kind, proto, bind, bc))
					}
				}
			}
		}
	}
	s := w.close()
	s.Extra = map[string]any{"configurations": nconf}
	return s, nil
}

func ltRsp(lt *layoutTables, op string) (layout, bool) {
	if lt == nil || op == "GetDevices" || op == "SetAddress" {
		return layout{}, false
	}
	l, ok := lt.Rsp[op]
	return l, ok
}
