package main

import (
	"encoding/json"
	"fmt"
	"math/rand"
	"os"
	"strings"
	"time"

	"github.com/uhppoted/uhppote-core/types"
)

func init() { commands["c13"] = runC13 }

// documents a variable has been used for before (written by the library itself)
var usedProfileDoc, _ = json.Marshal(types.TimeProfile{ID: 29, LinkedProfileID: 71, From: types.ToDate(2021, 4, 1), To: types.ToDate(2021, 12, 29),
	Weekdays: types.Weekdays{time.Monday: true, time.Thursday: true}, Segments: types.Segments{1: types.Segment{Start: types.NewHHmm(8, 30), End: types.NewHHmm(9, 45)}}})
var nextTaskDoc, _ = json.Marshal(types.Task{Task: types.TaskType(5), Door: 3, From: types.ToDate(2023, 1, 31), Start: types.NewHHmm(17, 5)})
var usedTaskDoc, _ = json.Marshal(types.Task{Task: types.TaskType(3), Door: 2, From: types.ToDate(2021, 4, 1), To: types.ToDate(2021, 12, 29),
	Weekdays: types.Weekdays{time.Monday: true}, Start: types.NewHHmm(8, 30), Cards: 7})

// gapDays finds, for the process-local zone, the calendar days whose local midnight is removed by a
// zone transition between 1900 and 2100 (and the days that are skipped entirely).
func gapDays() (midnightGone [][3]int, skipped [][3]int) {
	t := time.Date(1900, 1, 1, 12, 0, 0, 0, time.Local)
	limit := time.Date(2100, 1, 1, 0, 0, 0, 0, time.UTC)
	for i := 0; i < 2000; i++ {
		_, end := t.ZoneBounds()
		if end.IsZero() || end.After(limit) {
			break
		}
		before := end.Add(-time.Second)
		after := end
		by, bm, bd := before.Date()
		ay, am, ad := after.Date()
		if by != ay || bm != am || bd != ad {
			h, mi, s := after.Clock()
			if h != 0 || mi != 0 || s != 0 {
				midnightGone = append(midnightGone, [3]int{ay, int(am), ad})
			}
			// days strictly between the two have no instant at all
			d := time.Date(by, bm, bd+1, 12, 0, 0, 0, time.UTC)
			for d.Before(time.Date(ay, am, ad, 0, 0, 0, 0, time.UTC)) {
				y, m, dd := d.Date()
				skipped = append(skipped, [3]int{y, int(m), dd})
				d = d.AddDate(0, 0, 1)
			}
		}
		t = end.Add(time.Hour)
	}
	return
}

// does the civil day exist in the local zone? (independent route: build noon of that day, read it back)
func dayExists(y, m, d int) bool {
	for _, h := range []int{12, 1, 23} {
		t := time.Date(y, time.Month(m), d, h, 0, 0, 0, time.Local)
		if yy, mm, dd := t.Date(); yy == y && int(mm) == m && dd == d && t.Hour() == h {
			return true
		}
	}
	return false
}

func timeExists(y, m, d, h, mi, s int) bool {
	t := time.Date(y, time.Month(m), d, h, mi, s, 0, time.Local)
	yy, mm, dd := t.Date()
	hh, mmi, ss := t.Clock()
	return yy == y && int(mm) == m && dd == d && hh == h && mmi == mi && ss == s
}

type onceListener struct{ got chan *types.Status }

func (l *onceListener) OnConnected() {}
func (l *onceListener) OnEvent(s *types.Status) {
	c := *s
	select {
	case l.got <- &c:
	default:
	}
}
func (l *onceListener) OnError(err error) bool { return true }

// listenOnce feeds one datagram to the event listener (scripted transport) and returns the status it delivers
func listenOnce(msg []byte) *types.Status {
	u, d := stubClient(clientCfg{Listen: "127.0.0.1:60001"})
	d.events = [][]byte{msg}
	l := &onceListener{got: make(chan *types.Status, 1)}
	q := make(chan os.Signal, 1)
	done := make(chan struct{})
	go func() { u.Listen(l, q); close(done) }()
	var st *types.Status
	select {
	case st = <-l.got:
	case <-time.After(2 * time.Second):
	}
	q <- os.Interrupt
	select {
	case <-done:
	case <-time.After(2 * time.Second):
	}
	return st
}

func runC13(o *opts) (*summary, error) {
	w, err := newShardWriter(o.out, "pure", o.shards)
	if err != nil {
		return nil, err
	}
	zone := os.Getenv("TZ")
	rng := rand.New(rand.NewSource(o.seed))
	g := &G{r: rng, inDomain: true}
	thorough := o.tier == "thorough"

	gone, skipped := gapDays()
	days := map[[3]int]string{}
	add := func(d [3]int, class string) {
		if d[0] < 1 || d[0] > 9999 {
			return
		}
		if _, ok := days[d]; !ok {
			days[d] = class
		}
	}
	for _, d := range gone {
		add(d, "midnight-gap")
		t := time.Date(d[0], time.Month(d[1]), d[2], 12, 0, 0, 0, time.UTC)
		for _, k := range []int{-1, 1} {
			y, m, dd := t.AddDate(0, 0, k).Date()
			add([3]int{y, int(m), dd}, "gap-neighbour")
		}
	}
	for _, d := range skipped {
		add(d, "skipped-day")
	}
	// ordinary offset changes (clocks forward / back at 02:00, 03:00, ...): the days on which "midnight plus the
	// clock reading as a duration" differs from the civil time
	if td := transitionDays(); len(td) > 0 {
		k := 24
		if thorough {
			k = len(td)
		}
		for i := 0; i < k && i < len(td); i++ {
			add(td[len(td)-1-i], "transition-day")
			add(td[rng.Intn(len(td))], "transition-day")
		}
	}
	for _, d := range [][3]int{{1, 1, 2}, {1, 12, 31}, {9999, 12, 31}, {9999, 1, 1}, {2000, 2, 29}, {1970, 1, 1}, {2038, 1, 19}, {1900, 3, 1}} {
		add(d, "boundary")
	}
	// a dense window across a year end (and a leap day): every value is handled in ONE process, so whatever the library
	// remembers about one date (a cache keyed by a lossy digest of year, month, day ...) meets its neighbours
	for t := time.Date(2023, 10, 15, 12, 0, 0, 0, time.UTC); t.Before(time.Date(2024, 3, 16, 0, 0, 0, 0, time.UTC)); t = t.AddDate(0, 0, 1) {
		if thorough || t.Day()%3 == 1 || t.Day() > 27 {
			add([3]int{t.Year(), int(t.Month()), t.Day()}, "dense")
		}
	}
	n := 200
	if x := o.extraArg("n"); x != "" {
		fmt.Sscanf(x, "%d", &n)
	}
	for i := 0; i < n; i++ {
		y, m, d := g.ymd()
		add([3]int{y, m, d}, "random")
	}

	// clock readings (civil, in the process zone) around every offset change, by day
	near := map[[3]int][][3]int{}
	for _, e := range transitionsIn(time.Local) {
		for _, off := range []int64{-5 * 3600, -3601, -1800, -1, 0, 1, 1800, 3600, 2*3600 + 900, 5 * 3600, 9 * 3600} {
			t := time.Unix(e+off, 0).In(time.Local)
			y, m, dd := t.Date()
			h, mi, sec := t.Clock()
			k := [3]int{y, int(m), dd}
			if len(near[k]) < 14 {
				near[k] = append(near[k], [3]int{h, mi, sec})
			}
		}
	}
	emit := func(op, kind, class string, civil M, exists bool, f func() (M, []byte)) {
		var rep M
		var wire []byte
		if p, msg := guard(func() { rep, wire = f() }); p {
			rep = M{"t": "panic", "msg": msg}
		}
		rec := M{"fn": "civil", "op": op, "zone": zone, "kind": kind, "civil": civil, "exists": exists, "reported": rep, "class": class}
		if wire != nil {
			rec["wire"] = ints(wire)
		}
		w.put(rec, class, fmt.Sprintf("%s/%s/%v", zone, op, civil))
	}

	for d, class := range days {
		y, m, dd := d[0], d[1], d[2]
		civil := M{"t": "date", "y": y, "m": m, "d": dd}
		ex := dayExists(y, m, dd)
		text := fmt.Sprintf("%04d-%02d-%02d", y, m, dd)
		bcd := []byte{bcd2(y / 100), bcd2(y % 100), bcd2(m), bcd2(dd)}
		emit("ToDate", "date", class, civil, ex, func() (M, []byte) {
			v := types.ToDate(y, time.Month(m), dd)
			b, _ := v.MarshalUT0311L0x()
			return projDate(v), b
		})
		// dates inside JSON documents decoded through ONE variable that has been used before (profiles / tasks / cards read in a
		// loop): the date reported is the one in THIS document (what a document WITHOUT a date leaves in a used variable is
		// outside the property: C13 speaks of dates parsed from text, C14 of fresh zero-valued variables)
		emit("TimeProfileJSONReusedVariable", "date", class, civil, ex, func() (M, []byte) {
			var tp types.TimeProfile
			if err := json.Unmarshal(usedProfileDoc, &tp); err != nil {
				return M{"t": "err", "doc": 1}, nil
			}
			if err := json.Unmarshal([]byte(`{"id":30,"start-date":"2023-01-31","end-date":"`+text+`"}`), &tp); err != nil {
				return M{"t": "err", "doc": 2}, nil
			}
			b, _ := tp.To.MarshalUT0311L0x()
			return projDate(tp.To), b
		})
		emit("TaskJSONReusedVariable", "date", class, civil, ex, func() (M, []byte) {
			var tk types.Task
			if err := json.Unmarshal(usedTaskDoc, &tk); err != nil {
				return M{"t": "err", "doc": 1}, nil
			}
			if err := json.Unmarshal([]byte(strings.Replace(string(nextTaskDoc), "2023-01-31", text, 1)), &tk); err != nil {
				return M{"t": "err", "doc": 2}, nil
			}
			b, _ := tk.From.MarshalUT0311L0x()
			return projDate(tk.From), b
		})
		emit("ParseDate", "date", class, civil, ex, func() (M, []byte) {
			v, err := types.ParseDate(text)
			if err != nil {
				return M{"t": "err"}, nil
			}
			b, _ := v.MarshalUT0311L0x()
			return projDate(v), b
		})
		emit("WireDecode", "date", class, civil, ex, func() (M, []byte) {
			var v types.Date
			r, err := v.UnmarshalUT0311L0x(bcd)
			if err != nil {
				return M{"t": "err"}, nil
			}
			x := *(r.(*types.Date))
			b, _ := x.MarshalUT0311L0x()
			return projDate(x), b
		})
		emit("JSON", "date", class, civil, ex, func() (M, []byte) {
			var v types.Date
			if err := v.UnmarshalJSON([]byte(`"` + text + `"`)); err != nil {
				return M{"t": "err"}, nil
			}
			return projDate(v), nil
		})
		emit("String", "date", class, civil, ex, func() (M, []byte) {
			v := types.ToDate(y, time.Month(m), dd)
			var yy, mm, d2 int
			if _, err := fmt.Sscanf(v.String(), "%d-%d-%d", &yy, &mm, &d2); err != nil {
				return M{"t": "err"}, nil
			}
			// (the text form is YYYY-MM-DD, four digits of year also before the year 1000: it is what ParseDate reads)
			if v.String() != fmt.Sprintf("%04d-%02d-%02d", yy, mm, d2) {
				return M{"t": "err", "text": v.String()}, nil
			}
			return M{"t": "date", "y": yy, "m": mm, "d": d2}, nil
		})
		if y >= 2000 && y <= 2068 {
			emit("SystemDate", "date", class, civil, ex, func() (M, []byte) {
				var v types.SystemDate
				r, err := v.UnmarshalUT0311L0x([]byte{bcd2(y % 100), bcd2(m), bcd2(dd)})
				if err != nil {
					return M{"t": "err"}, nil
				}
				x := *(r.(*types.SystemDate))
				yy, mm, d2 := time.Time(x).Date()
				return M{"t": "date", "y": yy, "m": int(mm), "d": d2}, nil
			})
		}
		// date-times on that day
		// (midnight, noon, the last second, two random readings - and, on a day with an offset change, readings
		// around the change itself: a decode that is only wrong within a few hours of a transition is wrong there)
		rs := [][3]int{{0, 0, 0}, {rng.Intn(24), rng.Intn(60), rng.Intn(60)}, {rng.Intn(24), rng.Intn(60), rng.Intn(60)}, {23, 59, 59}, {12, 0, 0}}
		rs = append(rs, near[d]...)
		for _, r := range rs {
			h, mi, s := r[0], r[1], r[2]
			cdt := M{"t": "dt", "y": y, "m": m, "d": dd, "h": h, "mi": mi, "s": s}
			tex := timeExists(y, m, dd, h, mi, s)
			emit("DateTimeDecode", "datetime", class, cdt, tex, func() (M, []byte) {
				var v types.DateTime
				r, err := v.UnmarshalUT0311L0x([]byte{bcd2(y / 100), bcd2(y % 100), bcd2(m), bcd2(dd), bcd2(h), bcd2(mi), bcd2(s)})
				if err != nil {
					return M{"t": "err"}, nil
				}
				x := *(r.(*types.DateTime))
				b, _ := x.MarshalUT0311L0x()
				return projDateTime(x), b
			})
			// two decodes through ONE variable, the first result kept: it still reads as what it was decoded from
			emit("DateTimeDecodeKept", "datetime", class, cdt, tex, func() (M, []byte) {
				var v types.DateTime
				r, err := v.UnmarshalUT0311L0x([]byte{bcd2(y / 100), bcd2(y % 100), bcd2(m), bcd2(dd), bcd2(h), bcd2(mi), bcd2(s)})
				if err != nil {
					return M{"t": "err"}, nil
				}
				first := r.(*types.DateTime)
				if _, err := v.UnmarshalUT0311L0x([]byte{0x20, 0x01, 0x02, 0x03, 0x12, 0x05, 0x06}); err != nil {
					return M{"t": "err"}, nil
				}
				return projDateTime(*first), nil
			})
			// a date-time the caller holds in ANOTHER Location than the process zone (fixed offsets: every civil time exists
			// there): it is sent as its own civil fields - the process zone has no say
			if y >= 2 && y <= 9998 {
				emit("DateTimeEncodeForeign", "datetime", class, cdt, true, func() (M, []byte) {
					off := []int{19800, -12600, 45900, -3600, 3600, 0}[rng.Intn(6)]
					v := types.DateTime(time.Date(y, time.Month(m), dd, h, mi, s, 0, time.FixedZone("fixed", off)))
					b, err := v.MarshalUT0311L0x()
					if err != nil {
						return M{"t": "err"}, nil
					}
					return projDateTime(v), b
				})
			}
			if y >= 2000 && y <= 2068 {
				emit("StatusRecombine", "datetime", class, cdt, tex, func() (M, []byte) {
					u, d := stubClient(clientCfg{})
					d.script = func(method string, req []byte) [][]byte {
						msg := make([]byte, 64)
						msg[0], msg[1] = 0x17, 0x20
						copy(msg[4:8], req[4:8])
						copy(msg[51:54], []byte{bcd2(y % 100), bcd2(m), bcd2(dd)})
						copy(msg[37:40], []byte{bcd2(h), bcd2(mi), bcd2(s)})
						return [][]byte{msg}
					}
					st, err := u.GetStatus(12345)
					if err != nil || st == nil {
						return M{"t": "err"}, nil
					}
					return projDateTime(st.SystemDateTime), nil
				})
				// get-time from a controller that is CONFIGURED with a time zone of its own (Device.TimeZone): the reported
				// date-time is still the civil value on the wire
				emit("GetTimeZonedController", "datetime", class, cdt, tex, func() (M, []byte) {
					tzs := []string{"Asia/Kolkata", "America/New_York", "Pacific/Chatham", "nil", "UTC"}
					u, d := stubClient(clientCfg{Devices: []devCfg{{Name: "z", Serial: 12345, Addr: "192.168.1.100:60000", Proto: "udp", TZ: tzs[rng.Intn(len(tzs))]}}})
					d.script = func(method string, req []byte) [][]byte {
						msg := make([]byte, 64)
						msg[0], msg[1] = 0x17, 0x32
						copy(msg[4:8], req[4:8])
						copy(msg[8:15], []byte{bcd2(y / 100), bcd2(y % 100), bcd2(m), bcd2(dd), bcd2(h), bcd2(mi), bcd2(s)})
						return [][]byte{msg}
					}
					t, err := u.GetTime(12345)
					if err != nil || t == nil {
						return M{"t": "err"}, nil
					}
					return projDateTime(t.DateTime), nil
				})
				// the same bytes arriving as an event: the listener recombines date and time in its own code
				emit("ListenRecombine", "datetime", class, cdt, tex, func() (M, []byte) {
					msg := make([]byte, 64)
					msg[0], msg[1] = 0x17, 0x20
					copy(msg[4:8], []byte{0x39, 0x30, 0, 0})
					copy(msg[51:54], []byte{bcd2(y % 100), bcd2(m), bcd2(dd)})
					copy(msg[37:40], []byte{bcd2(h), bcd2(mi), bcd2(s)})
					st := listenOnce(msg)
					if st == nil {
						return M{"t": "err"}, nil
					}
					return projDateTime(st.SystemDateTime), nil
				})
			}
		}
	}
	s := w.close()
	s.Extra = map[string]any{"zone": zone, "midnight_gap_days": len(gone), "skipped_days": len(skipped)}
	return s, nil
}
