// vfh is the Go side of the uhppote-core verification framework: it drives the real library
// (built from /repo's working tree with -tags verif) and records what it did as ndjson traces,
// which TLC then validates against the TLA+ specification under /verif/spec. It contains no
// protocol knowledge beyond what is needed to *produce inputs*: every verdict is the
// specification's.
package main

import (
	"encoding/json"
	"flag"
	"fmt"
	"os"
	"sort"
	"strings"
)

type runFn func(o *opts) (*summary, error)

var commands = map[string]runFn{}

type opts struct {
	tier   string
	seed   int64
	out    string
	shards int
	replay string
	extra  string
}

// extraArg reads "key=value" pairs from the -x flag ("k1=v1;k2=v2")
func (o *opts) extraArg(key string) string {
	for _, kv := range strings.Split(o.extra, ";") {
		if strings.HasPrefix(kv, key+"=") {
			return kv[len(key)+1:]
		}
	}
	return ""
}

type summary struct {
	Files    []string       `json:"files"`
	Records  int            `json:"records"`
	Distinct int            `json:"distinct"`
	Samples  []any          `json:"samples"`
	Counts   map[string]int `json:"counts,omitempty"`
	Notes    []string       `json:"notes,omitempty"`
	Extra    map[string]any `json:"extra,omitempty"`
}

func main() {
	if len(os.Args) < 2 {
		names := []string{}
		for k := range commands {
			names = append(names, k)
		}
		sort.Strings(names)
		fmt.Fprintf(os.Stderr, "usage: vfh <command> [flags]; commands: %v\n", names)
		os.Exit(2)
	}

	cmd := os.Args[1]
	f, ok := commands[cmd]
	if !ok {
		fmt.Fprintf(os.Stderr, "unknown command %q\n", cmd)
		os.Exit(2)
	}

	fs := flag.NewFlagSet(cmd, flag.ExitOnError)
	o := opts{}
	fs.StringVar(&o.tier, "tier", "quick", "quick | thorough")
	fs.Int64Var(&o.seed, "seed", 1, "seed for every random choice")
	fs.StringVar(&o.out, "out", ".", "output directory")
	fs.IntVar(&o.shards, "shards", 8, "number of trace shards")
	fs.StringVar(&o.replay, "replay", "", "re-execute the inputs of the records in this ndjson file")
	fs.StringVar(&o.extra, "x", "", "command specific")
	fs.Parse(os.Args[2:])

	s, err := f(&o)
	if err != nil {
		fmt.Fprintf(os.Stderr, "vfh %s: %v\n", cmd, err)
		os.Exit(2)
	}

	b, _ := json.Marshal(s)
	fmt.Println(string(b))
}
