package main

import (
	"encoding/json"
	"math/rand"
	"time"

	"github.com/uhppoted/uhppote-core/types"
	"github.com/uhppoted/uhppote-core/uhppote"
)

func init() {
	commands["c01"] = func(o *opts) (*summary, error) { return runApiCalls(o, true) }
	commands["c07"] = func(o *opts) (*summary, error) { return runC07(o) }
	commands["c16seg"] = runC16Seg
}

var stubCfgs = []clientCfg{
	{}, // nothing configured: everything is broadcast to the default address
	{Broadcast: "192.168.1.255:60000", Devices: []devCfg{{Name: "alpha", Serial: 405419896, Addr: "192.168.1.100:60000", Proto: "udp", TZ: "nil", NDoors: 2}}},
	{Bind: "192.168.1.10:0", Devices: []devCfg{{Name: "beta", Serial: 303986753, Addr: "192.168.1.101:60001", Proto: "tcp", TZ: "Asia/Kolkata", NDoors: 8}}},
	// the other protocol strings a controller may be configured with (all of them mean UDP)
	{Bind: "192.168.1.10:50001", Broadcast: "192.168.1.255:60005", Devices: []devCfg{{Name: "alpha", Serial: 405419896, Addr: "192.168.1.100:60000", Proto: "any", NDoors: -1},
		{Name: "beta", Serial: 303986753, Addr: "192.168.1.101:60001", Proto: "", TZ: "America/New_York", NDoors: 1}, {Name: "gamma", Serial: 201020304, Addr: "192.168.1.102:60000", Proto: "TCP", NDoors: 5}}},
}

// the operations whose reply carries a VALUE at offset 8 (in all the others that byte is the "succeeded" flag)
var valueAt8 = map[string]bool{"GetDevices": true, "GetDevice": true, "GetListener": true, "GetTime": true, "SetTime": true, "GetStatus": true, "GetCards": true, "GetCardByIndex": true, "GetCardByID": true,
	"GetTimeProfile": true, "GetEvent": true, "GetEventIndex": true, "GetDoorControlState": true, "SetDoorControlState": true}

func argKey(cs callSpec) string {
	b, _ := json.Marshal(cs.args)
	return cs.op + string(b)
}

// runApiCalls: C01 - sequences of accepted calls on one client instance, every request recorded
// at the transport boundary. The stub transport answers with a (scripted) timeout: the property
// is about what is *sent*.
func runApiCalls(o *opts, inDomain bool) (*summary, error) {
	w, err := newShardWriter(o.out, "api", o.shards)
	if err != nil {
		return nil, err
	}
	rng := rand.New(rand.NewSource(o.seed))
	g := &G{r: rng, inDomain: inDomain}
	thorough := o.tier == "thorough"

	w.only = parseOnly(o.extraArg("only"))

	pick := func(serial uint32) uint32 {
		// half of the calls go to the configured controllers of the client
		switch rng.Intn(4) {
		case 0:
			return 405419896
		case 1:
			return 303986753
		}
		return serial
	}

	emit := func(rec M, cs callSpec, class string) {
		w.put(rec, class, argKey(cs))
	}

	// (1) all ordered pairs of operations on one client (history independence), several rounds
	rounds := len(stubCfgs)
	if thorough {
		rounds = 12
	}
	for r := 0; r < rounds; r++ {
		u, d := stubClient(stubCfgs[r%len(stubCfgs)])
		for _, a := range allOps {
			for _, b := range allOps {
				ca := g.call(a, pick(g.serial()))
				emit(doCall(u, d, ca), ca, "pair")
				cb := g.call(b, pick(g.serial()))
				emit(doCall(u, d, cb), cb, "pair")
			}
		}
	}

	// (2) every one-byte argument through all 256 values
	u, d := stubClient(stubCfgs[0])
	for _, op := range allOps {
		for i := 0; i < 256; i++ {
			gs := &G{r: rng, i: i, sweep: true, inDomain: inDomain}
			cs := gs.call(op, g.serial())
			emit(doCall(u, d, cs), cs, "sweep8")
		}
	}

	// (3) all 1441 HH:mm values in every HH:mm slot
	step := 7
	if thorough {
		step = 1
	}
	for n := 0; n <= 1440; n += step {
		for _, op := range []string{"AddTask", "SetTimeProfile"} {
			cs := hhmmCall(g, op, n)
			emit(doCall(u, d, cs), cs, "hhmm")
		}
	}
	{
		cs := hhmmCall(g, "AddTask", 1440)
		emit(doCall(u, d, cs), cs, "hhmm")
		cs = hhmmCall(g, "SetTimeProfile", 1440)
		emit(doCall(u, d, cs), cs, "hhmm")
	}

	// (4) random in-domain tuples per operation
	n := 150
	if thorough {
		n = 6000
	}
	for _, op := range allOps {
		u, d := stubClient(stubCfgs[rng.Intn(len(stubCfgs))])
		for i := 0; i < n; i++ {
			cs := g.call(op, pick(g.serial()))
			emit(doCall(u, d, cs), cs, "random")
		}
	}

	// (5) bit walks of every 32-bit argument (serial of every operation, card / index / passcodes)
	for _, op := range allOps {
		if op == "GetDevices" {
			continue
		}
		for b := 0; b < 32; b++ {
			cs := g.call(op, uint32(1)<<uint(b))
			emit(doCall(u, d, cs), cs, "bitwalk")
			cs = g.call(op, ^(uint32(1) << uint(b)))
			emit(doCall(u, d, cs), cs, "bitwalk")
		}
	}

	// (6) dense date histories on one client: every day of a window that spans a leap-year end, forwards and
	// backwards, then dates that differ only in the century / only in one component - whatever a call sends
	// for a date must not depend on the dates earlier calls carried (a memo keyed by a lossy function of the
	// date shows only for colliding neighbours)
	{
		u, d := stubClient(stubCfgs[1])
		days := [][3]int{}
		lo, hi := time.Date(2023, 12, 20, 0, 0, 0, 0, time.UTC), time.Date(2025, 1, 12, 0, 0, 0, 0, time.UTC)
		if thorough {
			lo, hi = time.Date(1999, 12, 1, 0, 0, 0, 0, time.UTC), time.Date(2005, 2, 1, 0, 0, 0, 0, time.UTC)
		}
		for t := lo; !t.After(hi); t = t.AddDate(0, 0, 1) {
			days = append(days, [3]int{t.Year(), int(t.Month()), t.Day()})
		}
		seq := append([][3]int{}, days...)
		for i := len(days) - 1; i >= 0; i-- {
			seq = append(seq, days[i])
		}
		for _, y := range []int{1924, 2024, 2124, 24, 9924, 2024, 1924} {
			for _, md := range [][2]int{{2, 29}, {12, 31}, {1, 1}, {10, 10}} {
				seq = append(seq, [3]int{y, md[0], md[1]})
			}
		}
		for _, x := range [][3]int{{2024, 1, 2}, {2024, 2, 1}, {2024, 1, 12}, {2024, 12, 1}, {2024, 11, 2}, {2024, 1, 21}, {2021, 4, 2}, {2024, 1, 2}} {
			seq = append(seq, x)
		}
		ops := []string{"PutCard", "SetTimeProfile", "AddTask"}
		for i := 0; i+1 < len(seq); i++ {
			g.dates = [][3]int{seq[i], seq[i+1]}
			cs := g.call(ops[i%len(ops)], pick(g.serial()))
			g.dates = nil
			emit(doCall(u, d, cs), cs, "date-history")
		}
	}

	// (7) ANSWERED histories (needs the reply layouts): the stub transport of the passes above always times out, so whatever a
	// call remembers about an exchange that SUCCEEDED never comes into play there. Per operation, on one client: the call
	// answered by a well-formed reply (success where the reply says so), the identical call again, another operation, the
	// identical call a third time, the identical call on a second client instance of the same process, and a setter fed with
	// the very value a getter has just reported (event index). Every one of them must put its one request on the wire.
	if x := o.extraArg("layouts"); x != "" {
		lt, err := loadLayouts(x)
		if err != nil {
			return nil, err
		}
		var lastReq []byte
		answer := func(d *stubDriver, op string, patch func(m []byte)) {
			d.script = nil
			if l, ok := ltRsp(lt, op); ok {
				d.script = func(method string, req []byte) [][]byte {
					lastReq = req
					m := l.message(rng, 0x17, req[4:8], "valid", nil)
					switch op {
					case "GetCardByID", "GetCardByIndex", "GetEvent":
						copy(m[8:12], req[8:12])
					case "GetTimeProfile":
						m[8] = req[8]
					}
					if patch != nil {
						patch(m)
					}
					return [][]byte{m}
				}
			}
		}
		same := func(seed int64, op string, serial uint32) callSpec {
			gs := &G{r: rand.New(rand.NewSource(seed)), inDomain: inDomain}
			return gs.call(op, serial)
		}
		reps := 2
		if thorough {
			reps = 12
		}
		for r := 0; r < reps; r++ {
			cfg := stubCfgs[(r+1)%len(stubCfgs)]
			u, d := stubClient(cfg)
			u2, d2 := stubClient(cfg)
			for _, op := range allOps {
				seed := rng.Int63()
				serial := pick(g.serial())
				ok := func(m []byte) { m[8] = 1 } // (the boolean replies: "succeeded"; elsewhere byte 8 is a value like any other)
				if valueAt8[op] {
					ok = nil
				}
				for k, step := range []struct {
					u  uhppote.IUHPPOTE
					d  *stubDriver
					op string
				}{{u, d, op}, {u, d, op}, {u, d, allOps[rng.Intn(len(allOps))]}, {u, d, op}, {u2, d2, op}, {u, d, op}} {
					cs := same(seed, step.op, serial)
					if step.op != op {
						cs = g.call(step.op, serial)
					}
					if k == 5 {
						step.d.script = nil // ... and once more without an answer
					} else {
						answer(step.d, step.op, ok)
					}
					emit(doCall(step.u, step.d, cs), cs, "answered-history")
					step.d.script = nil
				}
			}
			// replies that echo a PREFIX of the request's own payload (the door but not the state, the card but not its dates, ...)
			// - "the controller did not quite do what was asked" is an answer like any other: one request per call
			for _, op := range allOps {
				if _, ok := ltRsp(lt, op); !ok {
					continue
				}
				for k := 1; k <= 6; k++ {
					cs := g.call(op, pick(g.serial()))
					answer(d, op, func(m []byte) { copy(m[8:8+k], lastReq[8:8+k]) })
					emit(doCall(u, d, cs), cs, "answered-history")
					d.script = nil
				}
			}
			// getter -> setter with the reported value; setter -> getter -> setter
			for _, serial := range []uint32{405419896, 303986753, g.serial()} {
				n := g.u32()
				cs := g.call("GetEventIndex", serial)
				answer(d, "GetEventIndex", func(m []byte) { m[8], m[9], m[10], m[11] = byte(n), byte(n>>8), byte(n>>16), byte(n>>24) })
				rec := doCall(u, d, cs)
				emit(rec, cs, "answered-history")
				g.pin32 = &n
				for _, x := range []struct {
					u uhppote.IUHPPOTE
					d *stubDriver
				}{{u, d}, {u2, d2}, {u, d}} {
					cs = g.call("SetEventIndex", serial)
					answer(x.d, "SetEventIndex", func(m []byte) { m[8] = 1 })
					emit(doCall(x.u, x.d, cs), cs, "answered-history")
				}
				g.pin32 = nil
				d.script, d2.script = nil, nil
			}
		}
	}

	return w.close(), nil
}

// hhmmCall builds an AddTask / SetTimeProfile call whose HH:mm slots carry the n-th minute of the day
func hhmmCall(g *G, op string, n int) callSpec {
	cs := g.call(op, g.serial())
	serial := uint32(cs.args["serial"].([]int)[0])<<16 | uint32(cs.args["serial"].([]int)[1])
	switch op {
	case "AddTask":
		start, ps := hhmmOf(n)
		from, pf := g.date(true)
		to, pt := g.date(true)
		task := types.Task{Task: types.TaskType(n % 13), Door: uint8(n % 5), From: from, To: to, Weekdays: nil, Start: start, Cards: uint8(n)}
		cs.args["task"] = M{"task": n % 13, "door": n % 5, "from": pf, "to": pt, "weekdays": []any{}, "start": ps, "cards": int(uint8(n))}
		cs.call = func(u uhppote.IUHPPOTE) (any, error) { return u.AddTask(serial, task) }
	case "SetTimeProfile":
		from, pf := g.date(false)
		to, pt := g.date(false)
		segs := types.Segments{}
		ps := []any{}
		for k := 1; k <= 3; k++ {
			lo, hi := n, n+g.r.Intn(1441-n)
			if k == 2 {
				lo, hi = g.r.Intn(n+1), n
			}
			s, psx := hhmmOf(lo)
			e, pex := hhmmOf(hi)
			segs[uint8(k)] = types.Segment{Start: s, End: e}
			ps = append(ps, []any{k, segPair(psx, pex)})
		}
		profile := types.TimeProfile{ID: uint8(2 + n%253), LinkedProfileID: uint8(n % 7), From: from, To: to, Weekdays: nil, Segments: segs}
		cs.args["profile"] = M{"id": int(profile.ID), "linked": int(profile.LinkedProfileID), "from": pf, "to": pt, "weekdays": []any{}, "segments": ps}
		cs.call = func(u uhppote.IUHPPOTE) (any, error) { return u.SetTimeProfile(serial, profile) }
	}
	return cs
}
