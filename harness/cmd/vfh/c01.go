package main

import (
	"encoding/json"
	"math/rand"
	"time"

	"github.com/uhppoted/uhppote-core/types"
	"github.com/uhppoted/uhppote-core/uhppote"
)

func init() {
	commands["c01"] = func(o *opts) (*summary, error) { return runApiCalls(o, true) }
	commands["c07"] = func(o *opts) (*summary, error) { return runC07(o) }
	commands["c16seg"] = runC16Seg
}

var stubCfgs = []clientCfg{
	{}, // nothing configured: everything is broadcast to the default address
	{Broadcast: "192.168.1.255:60000", Devices: []devCfg{{Name: "alpha", Serial: 405419896, Addr: "192.168.1.100:60000", Proto: "udp", TZ: "nil", NDoors: 2}}},
	{Bind: "192.168.1.10:0", Devices: []devCfg{{Name: "beta", Serial: 303986753, Addr: "192.168.1.101:60001", Proto: "tcp", TZ: "Asia/Kolkata", NDoors: 8}}},
	// the other protocol strings a controller may be configured with (all of them mean UDP)
	{Bind: "192.168.1.10:50001", Broadcast: "192.168.1.255:60005", Devices: []devCfg{{Name: "alpha", Serial: 405419896, Addr: "192.168.1.100:60000", Proto: "any", NDoors: -1},
		{Name: "beta", Serial: 303986753, Addr: "192.168.1.101:60001", Proto: "", TZ: "America/New_York", NDoors: 1}, {Name: "gamma", Serial: 201020304, Addr: "192.168.1.102:60000", Proto: "TCP", NDoors: 5}}},
}

func argKey(cs callSpec) string {
	b, _ := json.Marshal(cs.args)
	return cs.op + string(b)
}

// runApiCalls: C01 - sequences of accepted calls on one client instance, every request recorded
// at the transport boundary. The stub transport answers with a (scripted) timeout: the property
// is about what is *sent*.
func runApiCalls(o *opts, inDomain bool) (*summary, error) {
	w, err := newShardWriter(o.out, "api", o.shards)
	if err != nil {
		return nil, err
	}
	rng := rand.New(rand.NewSource(o.seed))
	g := &G{r: rng, inDomain: inDomain}
	thorough := o.tier == "thorough"

	w.only = parseOnly(o.extraArg("only"))

	pick := func(serial uint32) uint32 {
		// half of the calls go to the configured controllers of the client
		switch rng.Intn(4) {
		case 0:
			return 405419896
		case 1:
			return 303986753
		}
		return serial
	}

	emit := func(rec M, cs callSpec, class string) {
		w.put(rec, class, argKey(cs))
	}

	// (1) all ordered pairs of operations on one client (history independence), several rounds
	rounds := len(stubCfgs)
	if thorough {
		rounds = 12
	}
	for r := 0; r < rounds; r++ {
		u, d := stubClient(stubCfgs[r%len(stubCfgs)])
		for _, a := range allOps {
			for _, b := range allOps {
				ca := g.call(a, pick(g.serial()))
				emit(doCall(u, d, ca), ca, "pair")
				cb := g.call(b, pick(g.serial()))
				emit(doCall(u, d, cb), cb, "pair")
			}
		}
	}

	// (2) every one-byte argument through all 256 values
	u, d := stubClient(stubCfgs[0])
	for _, op := range allOps {
		for i := 0; i < 256; i++ {
			gs := &G{r: rng, i: i, sweep: true, inDomain: inDomain}
			cs := gs.call(op, g.serial())
			emit(doCall(u, d, cs), cs, "sweep8")
		}
	}

	// (3) all 1441 HH:mm values in every HH:mm slot
	step := 7
	if thorough {
		step = 1
	}
	for n := 0; n <= 1440; n += step {
		for _, op := range []string{"AddTask", "SetTimeProfile"} {
			cs := hhmmCall(g, op, n)
			emit(doCall(u, d, cs), cs, "hhmm")
		}
	}
	{
		cs := hhmmCall(g, "AddTask", 1440)
		emit(doCall(u, d, cs), cs, "hhmm")
		cs = hhmmCall(g, "SetTimeProfile", 1440)
		emit(doCall(u, d, cs), cs, "hhmm")
	}

	// (4) random in-domain tuples per operation
	n := 150
	if thorough {
		n = 6000
	}
	for _, op := range allOps {
		u, d := stubClient(stubCfgs[rng.Intn(len(stubCfgs))])
		for i := 0; i < n; i++ {
			cs := g.call(op, pick(g.serial()))
			emit(doCall(u, d, cs), cs, "random")
		}
	}

	// (5) bit walks of every 32-bit argument (serial of every operation, card / index / passcodes)
	for _, op := range allOps {
		if op == "GetDevices" {
			continue
		}
		for b := 0; b < 32; b++ {
			cs := g.call(op, uint32(1)<<uint(b))
			emit(doCall(u, d, cs), cs, "bitwalk")
			cs = g.call(op, ^(uint32(1) << uint(b)))
			emit(doCall(u, d, cs), cs, "bitwalk")
		}
	}

	// (6) dense date histories on one client: every day of a window that spans a leap-year end, forwards and
	// backwards, then dates that differ only in the century / only in one component - whatever a call sends
	// for a date must not depend on the dates earlier calls carried (a memo keyed by a lossy function of the
	// date shows only for colliding neighbours)
	{
		u, d := stubClient(stubCfgs[1])
		days := [][3]int{}
		lo, hi := time.Date(2023, 12, 20, 0, 0, 0, 0, time.UTC), time.Date(2025, 1, 12, 0, 0, 0, 0, time.UTC)
		if thorough {
			lo, hi = time.Date(1999, 12, 1, 0, 0, 0, 0, time.UTC), time.Date(2005, 2, 1, 0, 0, 0, 0, time.UTC)
		}
		for t := lo; !t.After(hi); t = t.AddDate(0, 0, 1) {
			days = append(days, [3]int{t.Year(), int(t.Month()), t.Day()})
		}
		seq := append([][3]int{}, days...)
		for i := len(days) - 1; i >= 0; i-- {
			seq = append(seq, days[i])
		}
		for _, y := range []int{1924, 2024, 2124, 24, 9924, 2024, 1924} {
			for _, md := range [][2]int{{2, 29}, {12, 31}, {1, 1}, {10, 10}} {
				seq = append(seq, [3]int{y, md[0], md[1]})
			}
		}
		for _, x := range [][3]int{{2024, 1, 2}, {2024, 2, 1}, {2024, 1, 12}, {2024, 12, 1}, {2024, 11, 2}, {2024, 1, 21}, {2021, 4, 2}, {2024, 1, 2}} {
			seq = append(seq, x)
		}
		ops := []string{"PutCard", "SetTimeProfile", "AddTask"}
		for i := 0; i+1 < len(seq); i++ {
			g.dates = [][3]int{seq[i], seq[i+1]}
			cs := g.call(ops[i%len(ops)], pick(g.serial()))
			g.dates = nil
			emit(doCall(u, d, cs), cs, "date-history")
		}
	}

	return w.close(), nil
}

// hhmmCall builds an AddTask / SetTimeProfile call whose HH:mm slots carry the n-th minute of the day
func hhmmCall(g *G, op string, n int) callSpec {
	cs := g.call(op, g.serial())
	serial := uint32(cs.args["serial"].([]int)[0])<<16 | uint32(cs.args["serial"].([]int)[1])
	switch op {
	case "AddTask":
		start, ps := hhmmOf(n)
		from, pf := g.date(true)
		to, pt := g.date(true)
		task := types.Task{Task: types.TaskType(n % 13), Door: uint8(n % 5), From: from, To: to, Weekdays: nil, Start: start, Cards: uint8(n)}
		cs.args["task"] = M{"task": n % 13, "door": n % 5, "from": pf, "to": pt, "weekdays": []any{}, "start": ps, "cards": int(uint8(n))}
		cs.call = func(u uhppote.IUHPPOTE) (any, error) { return u.AddTask(serial, task) }
	case "SetTimeProfile":
		from, pf := g.date(false)
		to, pt := g.date(false)
		segs := types.Segments{}
		ps := []any{}
		for k := 1; k <= 3; k++ {
			lo, hi := n, n+g.r.Intn(1441-n)
			if k == 2 {
				lo, hi = g.r.Intn(n+1), n
			}
			s, psx := hhmmOf(lo)
			e, pex := hhmmOf(hi)
			segs[uint8(k)] = types.Segment{Start: s, End: e}
			ps = append(ps, []any{k, segPair(psx, pex)})
		}
		profile := types.TimeProfile{ID: uint8(2 + n%253), LinkedProfileID: uint8(n % 7), From: from, To: to, Weekdays: nil, Segments: segs}
		cs.args["profile"] = M{"id": int(profile.ID), "linked": int(profile.LinkedProfileID), "from": pf, "to": pt, "weekdays": []any{}, "segments": ps}
		cs.call = func(u uhppote.IUHPPOTE) (any, error) { return u.SetTimeProfile(serial, profile) }
	}
	return cs
}
