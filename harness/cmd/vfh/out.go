package main

import (
	"bufio"
	"encoding/json"
	"fmt"
	"os"
	"path/filepath"
	"strconv"
	"strings"
)

// M is a JSON object; records are written with every variant value tagged (field "t") because
// TLC refuses to compare values of different kinds.
type M = map[string]any

// shardWriter distributes records round-robin over N ndjson files (one TLC process each).
type shardWriter struct {
	files   []*os.File
	bufs    []*bufio.Writer
	names   []string
	n       int
	samples []any
	seen    map[string]struct{}
	counts  map[string]int
	seq     int          // every record offered to put() gets the next sequence number "k"
	only    map[int]bool // replay: write only these sequence numbers
}

// parseOnly parses "-x only=3,17" (replay of selected records of a deterministic generator run)
func parseOnly(x string) map[int]bool {
	if x == "" {
		return nil
	}
	m := map[int]bool{}
	for _, f := range strings.Split(x, ",") {
		if n, err := strconv.Atoi(f); err == nil {
			m[n] = true
		}
	}
	return m
}

func newShardWriter(dir, prefix string, shards int) (*shardWriter, error) {
	if shards < 1 {
		shards = 1
	}
	w := &shardWriter{seen: map[string]struct{}{}, counts: map[string]int{}}
	for i := 0; i < shards; i++ {
		name := filepath.Join(dir, fmt.Sprintf("%s-%02d.ndjson", prefix, i))
		f, err := os.Create(name)
		if err != nil {
			return nil, err
		}
		w.files = append(w.files, f)
		w.bufs = append(w.bufs, bufio.NewWriterSize(f, 1<<20))
		w.names = append(w.names, name)
	}
	return w, nil
}

// put writes one record; `class` feeds the per-class counters, `key` (if non-empty) the
// distinct-case counter.
func (w *shardWriter) put(rec any, class, key string) {
	w.seq++
	if m, ok := rec.(M); ok {
		m["k"] = w.seq
	}
	if w.only != nil && !w.only[w.seq] {
		return
	}
	b, err := json.Marshal(rec)
	if err != nil {
		panic(err)
	}
	ix := w.n % len(w.bufs)
	w.bufs[ix].Write(b)
	w.bufs[ix].WriteByte('\n')
	w.n++
	if class != "" {
		w.counts[class]++
	}
	if key != "" {
		w.seen[key] = struct{}{}
	}
	if len(w.samples) < 3 || (w.n%997 == 0 && len(w.samples) < 8) {
		var v any
		json.Unmarshal(b, &v)
		w.samples = append(w.samples, v)
	}
}

func (w *shardWriter) close() *summary {
	files := []string{}
	for i := range w.files {
		w.bufs[i].Flush()
		w.files[i].Close()
	}
	// drop empty shards
	for _, n := range w.names {
		if st, err := os.Stat(n); err == nil && st.Size() > 0 {
			files = append(files, n)
		} else {
			os.Remove(n)
		}
	}
	return &summary{Files: files, Records: w.n, Distinct: len(w.seen), Samples: w.samples, Counts: w.counts}
}

func ints(b []byte) []int {
	r := make([]int, len(b))
	for i, v := range b {
		r[i] = int(v)
	}
	return r
}

func u32(n uint32) []int { return []int{int(n >> 16), int(n & 0xffff)} }

// guard runs f and converts a panic into a value.
func guard(f func()) (panicked bool, msg string) {
	defer func() {
		if r := recover(); r != nil {
			panicked = true
			msg = fmt.Sprint(r)
		}
	}()
	f()
	return
}

func readNdjson(path string) ([]M, error) {
	f, err := os.Open(path)
	if err != nil {
		return nil, err
	}
	defer f.Close()
	var out []M
	sc := bufio.NewScanner(f)
	sc.Buffer(make([]byte, 1<<20), 1<<26)
	for sc.Scan() {
		if len(sc.Bytes()) == 0 {
			continue
		}
		var m M
		if err := json.Unmarshal(sc.Bytes(), &m); err != nil {
			return nil, err
		}
		out = append(out, m)
	}
	return out, sc.Err()
}

func toBytes(v any) []byte {
	a, _ := v.([]any)
	b := make([]byte, len(a))
	for i, x := range a {
		b[i] = byte(x.(float64))
	}
	return b
}
