package main

import (
	"encoding/json"
	"fmt"
	"math/rand"
	"net"
	"net/netip"
	"reflect"
	"sort"
	"strings"
	"time"

	"github.com/uhppoted/uhppote-core/types"
	"github.com/uhppoted/uhppote-core/uhppote"
)

// The 32 request-issuing operations of the API.
var allOps = []string{
	"GetDevices", "GetDevice", "SetAddress", "GetListener", "SetListener", "GetTime", "SetTime",
	"GetDoorControlState", "SetDoorControlState", "GetStatus", "GetCards", "GetCardByIndex", "GetCardByID",
	"PutCard", "DeleteCard", "DeleteCards", "GetTimeProfile", "SetTimeProfile", "ClearTimeProfiles",
	"ClearTaskList", "AddTask", "RefreshTaskList", "RecordSpecialEvents", "GetEvent", "GetEventIndex",
	"SetEventIndex", "SetDoorPasscodes", "OpenDoor", "SetPCControl", "SetInterlock", "ActivateKeypads",
	"RestoreDefaultParameters",
}

// callSpec is one API call: the abstract (logged) arguments and a closure that performs it.
type callSpec struct {
	op        string
	args      M
	call      func(u uhppote.IUHPPOTE) (any, error)
	reproject func() M // the arguments projected again from the values the caller holds (nil: immutable)
}

// G generates argument values. `i` is a sweep index (0..255 sweeps every one-byte argument
// through all its values); `inDomain` restricts values to the accepted domain of the property.
type G struct {
	r        *rand.Rand
	i        int
	sweep    bool
	inDomain bool
	dates    [][3]int // when non-empty: the next civil dates to hand out (dense date histories)
	pin32    *uint32  // when set: the value of every free 32-bit argument (a setter fed with what a getter returned)
}

var serialPool = []uint32{1, 0xff, 0x100, 0x10000, 0x01000000, 0xffffffff, 405419896, 0x80000000, 0x7fffffff, 303986753, 201020304, 405419896, 303986753}

func (g *G) serial() uint32 {
	if g.r.Intn(3) == 0 {
		return serialPool[g.r.Intn(len(serialPool))]
	}
	v := g.r.Uint32()
	if v == 0 {
		v = 1
	}
	return v
}

func (g *G) u8() uint8 {
	if g.sweep {
		return uint8(g.i)
	}
	return uint8(g.r.Intn(256))
}

// second, third ... one-byte argument of the same call during a sweep: decorrelated from the first
func (g *G) u8b(k int) uint8 {
	if g.sweep {
		return uint8(g.i*(2*k+3) + 17*k)
	}
	return uint8(g.r.Intn(256))
}

var u32Pool = []uint32{0, 1, 0xff, 0x100, 0xffff, 0x10000, 0xffffff, 0x1000000, 0x7fffffff, 0x80000000, 0xfffffffe, 0xffffffff, 6154412, 10058400, 99999999, 100000000}

func (g *G) u32() uint32 {
	if g.pin32 != nil {
		return *g.pin32
	}
	switch g.r.Intn(4) {
	case 0:
		return u32Pool[g.r.Intn(len(u32Pool))]
	case 1:
		return 1 << uint(g.r.Intn(32)) // bit walk
	case 2:
		return ^(uint32(1) << uint(g.r.Intn(32)))
	}
	return g.r.Uint32()
}

func (g *G) boolean() bool { return g.r.Intn(2) == 0 }

var locs = func() []*time.Location {
	l := []*time.Location{time.UTC, time.Local, time.FixedZone("X", 5*3600+45*60), time.FixedZone("Y", -11*3600)}
	for _, n := range []string{"America/Santiago", "Asia/Kathmandu", "Pacific/Apia", "Europe/London"} {
		if z, err := time.LoadLocation(n); err == nil {
			l = append(l, z)
		}
	}
	return l
}()

// transitionsIn: the instants (unix seconds) at which the zone's offset changes, 1900-2100
func transitionsIn(loc *time.Location) []int64 {
	out := []int64{}
	t := time.Date(1900, 1, 1, 12, 0, 0, 0, loc)
	limit := time.Date(2100, 1, 1, 0, 0, 0, 0, time.UTC)
	for i := 0; i < 2000; i++ {
		_, end := t.ZoneBounds()
		if end.IsZero() || end.After(limit) {
			break
		}
		// (beyond the zone's table of explicit transitions ZoneBounds stops making progress and keeps returning one and
		// the same instant that is no offset change at all: the list ends there)
		if n := len(out); n > 0 && end.Unix() <= out[n-1] {
			break
		}
		if _, o1 := end.Add(-time.Second).Zone(); true {
			if _, o2 := end.Zone(); o1 == o2 {
				break
			}
		}
		out = append(out, end.Unix())
		t = end.Add(time.Hour)
	}
	return out
}

var dayPool = [][3]int{{1, 1, 2}, {9999, 12, 31}, {2023, 10, 31}, {2024, 2, 29}, {2000, 2, 29}, {1900, 2, 28}, {2023, 12, 1}, {1999, 9, 9}, {2038, 1, 19}, {1970, 1, 1}, {100, 11, 30}, {2021, 1, 10}}

func daysIn(y, m int) int {
	return time.Date(y, time.Month(m)+1, 0, 0, 0, 0, 0, time.UTC).Day()
}

func (g *G) ymd() (int, int, int) {
	if len(g.dates) > 0 {
		d := g.dates[0]
		g.dates = g.dates[1:]
		return d[0], d[1], d[2]
	}
	if g.r.Intn(3) == 0 {
		d := dayPool[g.r.Intn(len(dayPool))]
		return d[0], d[1], d[2]
	}
	y := 1 + g.r.Intn(9999)
	if g.r.Intn(2) == 0 {
		y = 1990 + g.r.Intn(60)
	}
	m := 1 + g.r.Intn(12)
	d := 1 + g.r.Intn(daysIn(y, m))
	if y == 1 && m == 1 && d == 1 {
		d = 2
	}
	return y, m, d
}

// date returns a types.Date holding the civil date (y,m,d) - built at a non-midnight clock in a
// foreign location part of the time: the encoding must still be the value's own civil date -
// and its abstract form. zeroOK: the zero 'no date' may be produced.
func (g *G) date(zeroOK bool) (types.Date, M) {
	if zeroOK && len(g.dates) == 0 && g.r.Intn(8) == 0 {
		// the zero 'no date' in its different guises (same instant, another Location)
		switch g.r.Intn(4) {
		case 0:
			return types.Date(time.Time{}.UTC()), M{"t": "zero"}
		case 1:
			return types.Date(time.Time{}.In(locs[g.r.Intn(len(locs))])), M{"t": "zero"}
		}
		return types.Date{}, M{"t": "zero"}
	}
	y, m, d := g.ymd()
	var t time.Time
	switch g.r.Intn(3) {
	case 0:
		t = time.Date(y, time.Month(m), d, 0, 0, 0, 0, time.UTC)
	case 1:
		t = time.Date(y, time.Month(m), d, 12, 30, 0, 0, locs[g.r.Intn(len(locs))])
	default:
		t = time.Date(y, time.Month(m), d, g.r.Intn(24), g.r.Intn(60), g.r.Intn(60), g.r.Intn(1000), locs[g.r.Intn(len(locs))])
	}
	// a skipped local time normalises to a neighbouring instant: re-read what the value *is*
	yy, mm, dd := t.Date()
	return types.Date(t), M{"t": "date", "y": yy, "m": int(mm), "d": dd}
}

func (g *G) datetime() (time.Time, M) {
	y, m, d := g.ymd()
	t := time.Date(y, time.Month(m), d, g.r.Intn(24), g.r.Intn(60), g.r.Intn(60), g.r.Intn(2)*g.r.Intn(1e9), locs[g.r.Intn(len(locs))])
	if g.r.Intn(10) == 0 {
		t = time.Date(y, time.Month(m), d, 23, 59, 59, 999999999, locs[g.r.Intn(len(locs))])
	}
	// the first instant of the range: the zero value of time.Time, as it is and seen from a Location east of Greenwich
	// (west of it the civil year is 0: not in the domain)
	if g.r.Intn(12) == 0 {
		t = time.Time{}
		if z := t.In(locs[g.r.Intn(len(locs))]); z.Year() == 1 && g.r.Intn(2) == 0 {
			t = z
		}
	}
	return t, projTime(t)
}

func projTime(t time.Time) M {
	y, mo, d := t.Date()
	h, mi, s := t.Clock()
	return M{"t": "dt", "y": y, "m": int(mo), "d": d, "h": h, "mi": mi, "s": s}
}

func (g *G) hhmm() (types.HHmm, M) {
	var h, mi int
	switch g.r.Intn(6) {
	case 0:
		h, mi = 24, 0
	case 1:
		h, mi = 0, 0
	case 2:
		h, mi = 23, 59
	default:
		h, mi = g.r.Intn(24), g.r.Intn(60)
	}
	return types.NewHHmm(h, mi), M{"h": h, "mi": mi}
}

func hhmmOf(n int) (types.HHmm, M) { // n in 0..1440
	h, mi := n/60, n%60
	return types.NewHHmm(h, mi), M{"h": h, "mi": mi}
}

func (g *G) pin() uint32 {
	switch g.r.Intn(5) {
	case 0:
		return 0
	case 1:
		return 999999
	case 2:
		return 1
	}
	return uint32(g.r.Intn(1000000))
}

func (g *G) ip4() (net.IP, []int) {
	b := []byte{byte(g.r.Intn(256)), byte(g.r.Intn(256)), byte(g.r.Intn(256)), byte(g.r.Intn(256))}
	switch g.r.Intn(6) {
	case 0:
		b = []byte{0, 0, 0, 0}
	case 1:
		b = []byte{255, 255, 255, 255}
	case 2:
		b = []byte{192, 168, 1, 100}
	}
	if g.r.Intn(2) == 0 {
		ip := net.IPv4(b[0], b[1], b[2], b[3]) // 16-byte form
		return ip, ints(ip)
	}
	return net.IP(b), ints(b)
}

// weekdays: nil, partial or full maps; logged as [[weekday, bool]...]
func (g *G) weekdays() (types.Weekdays, []any) {
	switch g.r.Intn(5) {
	case 0:
		return nil, []any{}
	}
	w := types.Weekdays{}
	p := []any{}
	for d := 0; d < 7; d++ {
		if g.r.Intn(4) != 0 {
			v := g.boolean()
			w[time.Weekday(d)] = v
			p = append(p, []any{d, v})
		}
	}
	return w, p
}

func (g *G) doors() (map[uint8]uint8, []any) {
	if g.r.Intn(6) == 0 {
		return nil, []any{}
	}
	m := map[uint8]uint8{}
	keys := []int{1, 2, 3, 4}
	if g.r.Intn(4) == 0 {
		keys = append(keys, 0, 5, 255)
	}
	p := []any{}
	for k, key := range keys {
		if g.r.Intn(5) != 0 {
			v := g.u8b(k)
			m[uint8(key)] = v
			p = append(p, []any{key, int(v)})
		}
	}
	return m, p
}

func segPair(a, b M) M { return M{"start": a, "end": b} }

// ---- call construction ---------------------------------------------------------------------

func (g *G) call(op string, serial uint32) callSpec {
	a := M{"serial": u32(serial)}
	var f func(u uhppote.IUHPPOTE) (any, error)
	var reproj func() M

	switch op {
	case "GetDevices":
		a = M{"serial": u32(0)}
		f = func(u uhppote.IUHPPOTE) (any, error) { return u.GetDevices() }
	case "GetDevice":
		f = func(u uhppote.IUHPPOTE) (any, error) { return u.GetDevice(serial) }
	case "SetAddress":
		ip, pi := g.ip4()
		mask, pm := g.ip4()
		gw, pg := g.ip4()
		a["addr"], a["mask"], a["gw"] = pi, pm, pg
		f = func(u uhppote.IUHPPOTE) (any, error) { return u.SetAddress(serial, ip, mask, gw) }
		reproj = func() M {
			// the three slices the caller still holds
			return M{"serial": u32(serial), "addr": ints(ip), "mask": ints(mask), "gw": ints(gw)}
		}
	case "GetListener":
		f = func(u uhppote.IUHPPOTE) (any, error) {
			ap, iv, err := u.GetListener(serial)
			return listenerRet{ap, iv}, err
		}
	case "SetListener":
		_, pi := g.ip4()
		ip := []byte{byte(pi[len(pi)-4]), byte(pi[len(pi)-3]), byte(pi[len(pi)-2]), byte(pi[len(pi)-1])}
		port := uint16(1 + g.r.Intn(65535))
		if g.r.Intn(8) == 0 {
			ip, port = []byte{0, 0, 0, 0}, 0
		}
		addr, _ := netip.AddrFromSlice(ip)
		ap := netip.AddrPortFrom(addr, port)
		iv := g.u8()
		a["addr"] = projAddrPort(ap)
		a["interval"] = int(iv)
		f = func(u uhppote.IUHPPOTE) (any, error) { return u.SetListener(serial, ap, iv) }
	case "GetTime":
		f = func(u uhppote.IUHPPOTE) (any, error) { return u.GetTime(serial) }
	case "SetTime":
		t, p := g.datetime()
		a["dt"] = p
		f = func(u uhppote.IUHPPOTE) (any, error) { return u.SetTime(serial, t) }
	case "GetDoorControlState":
		door := g.u8()
		a["door"] = int(door)
		f = func(u uhppote.IUHPPOTE) (any, error) { return u.GetDoorControlState(serial, door) }
	case "SetDoorControlState":
		door, state, delay := g.u8b(1), g.u8(), g.u8b(2)
		a["door"], a["state"], a["delay"] = int(door), int(state), int(delay)
		f = func(u uhppote.IUHPPOTE) (any, error) {
			return u.SetDoorControlState(serial, door, types.ControlState(state), delay)
		}
	case "GetStatus":
		f = func(u uhppote.IUHPPOTE) (any, error) { return u.GetStatus(serial) }
	case "GetCards":
		f = func(u uhppote.IUHPPOTE) (any, error) { return u.GetCards(serial) }
	case "GetCardByIndex":
		ix := g.u32()
		a["index"] = u32(ix)
		f = func(u uhppote.IUHPPOTE) (any, error) { return u.GetCardByIndex(serial, ix) }
	case "GetCardByID":
		c := g.u32()
		a["card"] = u32(c)
		f = func(u uhppote.IUHPPOTE) (any, error) { return u.GetCardByID(serial, c) }
	case "DeleteCard":
		c := g.u32()
		a["card"] = u32(c)
		f = func(u uhppote.IUHPPOTE) (any, error) { return u.DeleteCard(serial, c) }
	case "PutCard":
		n := g.u32()
		if g.inDomain {
			for n == 0 || n == 0xffffffff || n == 0x00ffffff {
				n = g.r.Uint32()
			}
		}
		from, pf := g.date(!g.inDomain || g.r.Intn(2) == 0)
		to, pt := g.date(!g.inDomain || g.r.Intn(2) == 0)
		doors, pd := g.doors()
		pin := g.pin()
		if !g.inDomain && g.r.Intn(6) == 0 {
			pin = []uint32{1000000, 1 << 24, 0xffffffff, 999999 + uint32(g.r.Intn(5000))}[g.r.Intn(4)]
		}
		formats := []types.CardFormat{}
		pfm := []any{}
		if !g.inDomain {
			for k := g.r.Intn(3); k > 0; k-- {
				fm := []types.CardFormat{types.WiegandAny, types.Wiegand26, 7}[g.r.Intn(3)]
				formats = append(formats, fm)
				pfm = append(pfm, int(fm))
			}
		}
		card := types.Card{CardNumber: n, From: from, To: to, Doors: doors, PIN: types.PIN(pin)}
		a["card"] = M{"n": u32(n), "from": pf, "to": pt, "doors": pd, "pin": u32(pin)}
		a["formats"] = pfm
		f = func(u uhppote.IUHPPOTE) (any, error) { return u.PutCard(serial, card, formats...) }
		reproj = func() M {
			pd2 := []any{}
			for _, kv := range pd {
				k := kv.([]any)[0].(int)
				if v, ok := doors[uint8(k)]; ok {
					pd2 = append(pd2, []any{k, int(v)})
				}
			}
			if len(doors) != len(pd) {
				pd2 = append(pd2, []any{-1, len(doors)}) // (same shape as an entry: TLC compares values of one kind only)
			}
			fm2 := []any{}
			for _, x := range formats {
				fm2 = append(fm2, int(x))
			}
			return M{"serial": u32(serial), "card": M{"n": u32(card.CardNumber), "from": projDate(card.From), "to": projDate(card.To), "doors": pd2, "pin": u32(uint32(card.PIN))}, "formats": fm2}
		}
	case "DeleteCards":
		f = func(u uhppote.IUHPPOTE) (any, error) { return u.DeleteCards(serial) }
	case "GetTimeProfile":
		p := g.u8()
		a["profile"] = int(p)
		f = func(u uhppote.IUHPPOTE) (any, error) { return u.GetTimeProfile(serial, p) }
	case "SetTimeProfile":
		from, pf := g.date(!g.inDomain)
		to, pt := g.date(!g.inDomain)
		if g.r.Intn(5) == 0 {
			to, pt = from, pf // a single-day profile
		}
		wd, pw := g.weekdays()
		segs := types.Segments{}
		ps := []any{}
		for k := 1; k <= 3; k++ {
			if !g.inDomain && g.r.Intn(8) == 0 {
				continue // missing segment
			}
			s, psx := g.hhmm()
			e, pex := g.hhmm()
			if g.inDomain || g.r.Intn(4) != 0 {
				// end not before start
				if e.Before(s) {
					s, e, psx, pex = e, s, pex, psx
				}
			}
			segs[uint8(k)] = types.Segment{Start: s, End: e}
			ps = append(ps, []any{k, segPair(psx, pex)})
		}
		// entries under keys that are no segment numbers (0, 4, 5, 255): they mean nothing - in particular they do not
		// stand in for a missing segment 1..3 (more likely when one is missing: the map then has three entries again)
		if g.r.Intn(3) == 0 || len(segs) < 3 && g.r.Intn(2) == 0 {
			for _, k := range []uint8{0, 4, 5, 255} {
				if g.r.Intn(2) == 0 {
					continue
				}
				s, psx := g.hhmm()
				e, pex := g.hhmm()
				if e.Before(s) {
					s, e, psx, pex = e, s, pex, psx
				}
				segs[k] = types.Segment{Start: s, End: e}
				ps = append(ps, []any{int(k), segPair(psx, pex)})
			}
		}
		if g.r.Intn(10) == 0 && !g.inDomain {
			segs = nil
			ps = []any{}
		}
		id, linked := g.u8(), g.u8b(1)
		profile := types.TimeProfile{ID: id, LinkedProfileID: linked, From: from, To: to, Weekdays: wd, Segments: segs}
		a["profile"] = M{"id": int(id), "linked": int(linked), "from": pf, "to": pt, "weekdays": pw, "segments": ps}
		f = func(u uhppote.IUHPPOTE) (any, error) { return u.SetTimeProfile(serial, profile) }
		reproj = func() M {
			// the maps the caller still holds, projected again (keys in ascending order, as generated)
			ps2 := []any{}
			for k := uint8(1); k <= 3; k++ {
				if sg, ok := profile.Segments[k]; ok {
					ps2 = append(ps2, []any{int(k), segPair(projHHmm(sg.Start), projHHmm(sg.End))})
				}
			}
			for _, k := range []uint8{0, 4, 5, 255} {
				if sg, ok := profile.Segments[k]; ok {
					ps2 = append(ps2, []any{int(k), segPair(projHHmm(sg.Start), projHHmm(sg.End))})
				}
			}
			for k := range profile.Segments {
				if k > 5 && k != 255 {
					ps2 = append(ps2, []any{int(k), segPair(projHHmm(profile.Segments[k].Start), projHHmm(profile.Segments[k].End))})
				}
			}
			pw2 := []any{}
			for d := 0; d < 7; d++ {
				if v, ok := profile.Weekdays[time.Weekday(d)]; ok {
					pw2 = append(pw2, []any{d, v})
				}
			}
			return M{"serial": u32(serial), "profile": M{"id": int(profile.ID), "linked": int(profile.LinkedProfileID), "from": pf, "to": pt, "weekdays": pw2, "segments": ps2}}
		}
	case "ClearTimeProfiles":
		f = func(u uhppote.IUHPPOTE) (any, error) { return u.ClearTimeProfiles(serial) }
	case "ClearTaskList":
		f = func(u uhppote.IUHPPOTE) (any, error) { return u.ClearTaskList(serial) }
	case "AddTask":
		from, pf := g.date(true)
		to, pt := g.date(true)
		if g.r.Intn(4) == 0 {
			to, pt = from, pf // a single day (a pair of values that are each unremarkable alone)
		}
		wd, pw := g.weekdays()
		start, ps := g.hhmm()
		tt := int(g.u8())
		if !g.sweep && g.r.Intn(2) == 0 {
			tt = g.r.Intn(13)
		}
		door, cards := g.u8b(1), g.u8b(2)
		task := types.Task{Task: types.TaskType(tt), Door: door, From: from, To: to, Weekdays: wd, Start: start, Cards: cards}
		a["task"] = M{"task": tt, "door": int(door), "from": pf, "to": pt, "weekdays": pw, "start": ps, "cards": int(cards)}
		f = func(u uhppote.IUHPPOTE) (any, error) { return u.AddTask(serial, task) }
		reproj = func() M {
			// the weekday map the caller still holds, projected again
			pw2 := []any{}
			for d := 0; d < 7; d++ {
				if v, ok := task.Weekdays[time.Weekday(d)]; ok {
					pw2 = append(pw2, []any{d, v})
				}
			}
			if len(task.Weekdays) != len(pw2) {
				pw2 = append(pw2, []any{-1, false}) // (same shape as an entry)
			}
			return M{"serial": u32(serial), "task": M{"task": tt, "door": int(door), "from": pf, "to": pt, "weekdays": pw2, "start": ps, "cards": int(cards)}}
		}
	case "RefreshTaskList":
		f = func(u uhppote.IUHPPOTE) (any, error) { return u.RefreshTaskList(serial) }
	case "RecordSpecialEvents":
		e := g.boolean()
		a["enable"] = e
		f = func(u uhppote.IUHPPOTE) (any, error) { return u.RecordSpecialEvents(serial, e) }
	case "GetEvent":
		ix := g.u32()
		a["index"] = u32(ix)
		f = func(u uhppote.IUHPPOTE) (any, error) { return u.GetEvent(serial, ix) }
	case "GetEventIndex":
		f = func(u uhppote.IUHPPOTE) (any, error) { return u.GetEventIndex(serial) }
	case "SetEventIndex":
		ix := g.u32()
		a["index"] = u32(ix)
		f = func(u uhppote.IUHPPOTE) (any, error) { return u.SetEventIndex(serial, ix) }
	case "SetDoorPasscodes":
		door := uint8(1 + g.r.Intn(4))
		if !g.inDomain {
			door = g.u8()
			if !g.sweep && g.r.Intn(2) == 0 {
				door = uint8(1 + g.r.Intn(4))
			}
		}
		codes := []uint32{}
		pc := []any{}
		for k := g.r.Intn(7); k > 0; k-- {
			c := uint32(g.r.Intn(1000000))
			switch g.r.Intn(6) {
			case 0:
				c = 999999
			case 1:
				c = 1000000
			case 2:
				c = g.u32()
			}
			codes = append(codes, c)
			pc = append(pc, u32(c))
		}
		a["door"], a["codes"] = int(door), pc
		// the codes are a window into a larger table of the caller's (spare capacity behind the slice): what lies behind
		// the window is not the library's to write
		table := make([]uint32, len(codes)+6)
		copy(table, codes)
		tail := []any{}
		for i := len(codes); i < len(table); i++ {
			table[i] = 700000 + uint32(i)
			tail = append(tail, u32(table[i]))
		}
		a["tail"] = tail
		win := table[:len(codes)]
		f = func(u uhppote.IUHPPOTE) (any, error) { return u.SetDoorPasscodes(serial, door, win...) }
		reproj = func() M {
			pc2, tail2 := []any{}, []any{}
			for i, c := range table {
				if i < len(codes) {
					pc2 = append(pc2, u32(c))
				} else {
					tail2 = append(tail2, u32(c))
				}
			}
			return M{"serial": u32(serial), "door": int(door), "codes": pc2, "tail": tail2}
		}
	case "OpenDoor":
		door := g.u8()
		a["door"] = int(door)
		f = func(u uhppote.IUHPPOTE) (any, error) { return u.OpenDoor(serial, door) }
	case "SetPCControl":
		e := g.boolean()
		a["enable"] = e
		f = func(u uhppote.IUHPPOTE) (any, error) { return u.SetPCControl(serial, e) }
	case "SetInterlock":
		il := g.u8()
		a["interlock"] = int(il)
		f = func(u uhppote.IUHPPOTE) (any, error) { return u.SetInterlock(serial, types.Interlock(il)) }
	case "ActivateKeypads":
		var readers map[uint8]bool
		pr := []any{}
		if g.r.Intn(6) != 0 {
			readers = map[uint8]bool{}
			keys := []int{1, 2, 3, 4}
			if g.r.Intn(4) == 0 {
				keys = append(keys, 0, 5)
			}
			for _, k := range keys {
				if g.r.Intn(4) != 0 {
					v := g.boolean()
					readers[uint8(k)] = v
					pr = append(pr, []any{k, v})
				}
			}
		}
		a["readers"] = pr
		f = func(u uhppote.IUHPPOTE) (any, error) { return u.ActivateKeypads(serial, readers) }
		reproj = func() M {
			pr2 := []any{}
			for _, kv := range pr {
				k := kv.([]any)[0].(int)
				if v, ok := readers[uint8(k)]; ok {
					pr2 = append(pr2, []any{k, v})
				}
			}
			if len(readers) != len(pr) {
				pr2 = append(pr2, []any{-1, len(readers)%2 == 0}) // (same shape as an entry)
			}
			return M{"serial": u32(serial), "readers": pr2}
		}
	case "RestoreDefaultParameters":
		f = func(u uhppote.IUHPPOTE) (any, error) { return u.RestoreDefaultParameters(serial) }
	default:
		panic("unknown op " + op)
	}

	return callSpec{op: op, args: a, call: f, reproject: reproj}
}

// ---- projections (deliberately dumb: field copies) --------------------------------------------

type listenerRet struct {
	addr     netip.AddrPort
	interval uint8
}

func projAddrPort(ap netip.AddrPort) M {
	ip := []int{}
	if ap.Addr().IsValid() {
		ip = ints(ap.Addr().AsSlice())
	}
	return M{"valid": ap.IsValid(), "ip": ip, "zone": ap.Addr().Zone() != "", "port": int(ap.Port())}
}

func projDate(d types.Date) M {
	if d.IsZero() {
		return M{"t": "zero"}
	}
	y, m, dd := time.Time(d).Date()
	return M{"t": "date", "y": y, "m": int(m), "d": dd}
}

func projDateTime(d types.DateTime) M {
	if d.IsZero() {
		return M{"t": "zero"}
	}
	return projTime(time.Time(d))
}

func projHHmm(h types.HHmm) M {
	var hh, mm int
	fmt.Sscanf(h.String(), "%d:%d", &hh, &mm)
	return M{"h": hh, "mi": mm}
}

func boolPairs(m map[uint8]bool) []any {
	keys := []int{}
	for k := range m {
		keys = append(keys, int(k))
	}
	sort.Ints(keys)
	p := []any{}
	for _, k := range keys {
		p = append(p, []any{k, m[uint8(k)]})
	}
	return p
}

func u8Pairs(m map[uint8]uint8) []any {
	keys := []int{}
	for k := range m {
		keys = append(keys, int(k))
	}
	sort.Ints(keys)
	p := []any{}
	for _, k := range keys {
		p = append(p, []any{k, int(m[uint8(k)])})
	}
	return p
}

func projCard(c *types.Card) M {
	return M{"t": "card", "n": u32(c.CardNumber), "from": projDate(c.From), "to": projDate(c.To), "doors": u8Pairs(c.Doors), "pin": u32(uint32(c.PIN))}
}

func projStatus(s *types.Status) M {
	ev := M{"t": "none"}
	if !s.Event.IsZero() {
		e := s.Event
		ev = M{"t": "ev", "index": u32(e.Index), "type": int(e.Type), "granted": e.Granted, "door": int(e.Door), "direction": int(e.Direction),
			"card": u32(e.CardNumber), "timestamp": projDateTime(e.Timestamp), "reason": int(e.Reason)}
	}
	return M{"t": "status", "serial": u32(uint32(s.SerialNumber)), "doorstate": boolPairs(s.DoorState), "doorbutton": boolPairs(s.DoorButton),
		"syserror": int(s.SystemError), "sysdt": projDateTime(s.SystemDateTime), "seq": u32(s.SequenceId), "special": int(s.SpecialInfo),
		"relays": int(s.RelayState), "inputs": int(s.InputState), "event": ev}
}

func projDevice(d *types.Device) M {
	ap := M{"t": "none"}
	if d.Address.IsValid() {
		ap = M{"t": "ap", "ip": ints(d.Address.Addr().AsSlice()), "port": int(d.Address.Port())}
	}
	return M{"t": "device", "name": d.Name, "serial": u32(uint32(d.SerialNumber)), "ip": ints(d.IpAddress.To4()), "mask": ints(d.SubnetMask.To4()),
		"gw": ints(d.Gateway.To4()), "mac": ints(d.MacAddress), "version": int(d.Version), "date": projDate(d.Date), "addr": ap}
}

func projProfile(p *types.TimeProfile) M {
	wd := []any{}
	for d := 0; d < 7; d++ {
		if v, ok := p.Weekdays[time.Weekday(d)]; ok {
			wd = append(wd, []any{d, v})
		}
	}
	sg := []any{}
	for k := 1; k <= 3; k++ {
		if s, ok := p.Segments[uint8(k)]; ok {
			sg = append(sg, []any{k, segPair(projHHmm(s.Start), projHHmm(s.End))})
		}
	}
	return M{"t": "profile", "id": int(p.ID), "linked": int(p.LinkedProfileID), "from": projDate(p.From), "to": projDate(p.To), "weekdays": wd, "segments": sg}
}

// projRet maps what a call returned to its abstract form; every variant carries a tag.
func projRet(v any, err error) M {
	if err != nil {
		return M{"t": "err"}
	}
	switch r := v.(type) {
	case bool:
		return M{"t": "bool", "v": r}
	case uint32:
		return M{"t": "u32", "v": u32(r)}
	case *types.Result:
		if r == nil {
			return M{"t": "nil"}
		}
		return M{"t": "result", "serial": u32(uint32(r.SerialNumber)), "ok": r.Succeeded}
	case *types.Device:
		if r == nil {
			return M{"t": "nil"}
		}
		return projDevice(r)
	case []types.Device:
		l := []any{}
		for i := range r {
			l = append(l, projDevice(&r[i]))
		}
		return M{"t": "devices", "v": l}
	case listenerRet:
		ip := []int{}
		if r.addr.Addr().IsValid() {
			ip = ints(r.addr.Addr().AsSlice())
		}
		return M{"t": "listener", "ip": ip, "port": int(r.addr.Port()), "interval": int(r.interval)}
	case *types.Time:
		if r == nil {
			return M{"t": "nil"}
		}
		return M{"t": "time", "serial": u32(uint32(r.SerialNumber)), "dt": projDateTime(r.DateTime)}
	case *types.DoorControlState:
		if r == nil {
			return M{"t": "nil"}
		}
		return M{"t": "dcs", "serial": u32(uint32(r.SerialNumber)), "door": int(r.Door), "state": int(r.ControlState), "delay": int(r.Delay)}
	case *types.Status:
		if r == nil {
			return M{"t": "nil"}
		}
		return projStatus(r)
	case *types.Card:
		if r == nil {
			return M{"t": "nil"}
		}
		return projCard(r)
	case *types.TimeProfile:
		if r == nil {
			return M{"t": "nil"}
		}
		return projProfile(r)
	case *types.Event:
		if r == nil {
			return M{"t": "nil"}
		}
		return M{"t": "event", "serial": u32(uint32(r.SerialNumber)), "index": u32(r.Index), "type": int(r.Type), "granted": r.Granted, "door": int(r.Door),
			"direction": int(r.Direction), "card": u32(r.CardNumber), "timestamp": projDateTime(r.Timestamp), "reason": int(r.Reason)}
	case *types.EventIndex:
		if r == nil {
			return M{"t": "nil"}
		}
		return M{"t": "evindex", "serial": u32(uint32(r.SerialNumber)), "index": u32(r.Index)}
	case *types.EventIndexResult:
		if r == nil {
			return M{"t": "nil"}
		}
		return M{"t": "evindexresult", "serial": u32(uint32(r.SerialNumber)), "index": u32(r.Index), "changed": r.Changed}
	}
	return M{"t": "unknown", "go": fmt.Sprintf("%T", v)}
}

// render: String() and JSON encoding of a returned value must not panic (C04).
func render(v any, err error) M {
	if err != nil || v == nil {
		return M{"string": "ok", "json": "ok"}
	}
	out := M{"string": "ok", "json": "ok"}
	// fmt recovers a panicking String method and prints "%!v(PANIC=String method: ...)": look for that,
	// and call the value's own String method directly as well
	if p, _ := guard(func() {
		if s := fmt.Sprintf("%v", v); strings.Contains(s, "(PANIC=") {
			panic(s)
		}
		if st, ok := v.(fmt.Stringer); ok && !isNilValue(v) {
			_ = st.String()
		}
	}); p {
		out["string"] = "panic"
	}
	if p, _ := guard(func() { json.Marshal(v) }); p {
		out["json"] = "panic"
	}
	return out
}

func isNilValue(v any) bool {
	rv := reflect.ValueOf(v)
	switch rv.Kind() {
	case reflect.Ptr, reflect.Map, reflect.Slice, reflect.Interface, reflect.Func, reflect.Chan:
		return rv.IsNil()
	}
	return false
}

// doCall performs one API call on a stub-driver client and returns the flattened record.
func doCall(u uhppote.IUHPPOTE, d *stubDriver, cs callSpec) M {
	d.reset()
	var v any
	var err error
	panicked, msg := guard(func() { v, err = cs.call(u) })

	sent := []any{}
	route := M{"m": "none"}
	for _, c := range d.calls {
		sent = append(sent, ints(c.req))
		route = M{"m": c.method, "ip": ints(c.ip), "port": c.port}
	}
	delivered := []any{}
	for _, dl := range d.delivered {
		delivered = append(delivered, M{"b": ints(dl.b), "keep": dl.keep})
	}

	rec := M{"op": cs.op, "a": cs.args, "sent": sent, "route": route, "ncalls": len(d.calls), "delivered": delivered}
	if panicked {
		rec["ret"] = M{"t": "panic", "msg": msg}
		rec["render"] = M{"string": "ok", "json": "ok"}
	} else {
		var pr M
		if p, m := guard(func() { pr = projRet(v, err) }); p {
			pr = M{"t": "panic", "msg": "projection: " + m}
		}
		rec["ret"] = pr
		rec["render"] = render(v, err)
	}
	return rec
}
