package main

import (
	"fmt"
	"math/rand"
	"net"
	"net/netip"
	"sync"
	"time"

	"github.com/uhppoted/uhppote-core/types"
	"github.com/uhppoted/uhppote-core/uhppote"
)

func init() { commands["c06src"] = runC06Src }

// runC06Src: "from the configured bind address" at the sockets of a loopback farm, for every way a request can leave:
// discovery, broadcast-to, connected UDP, TCP - with a bind address that is NOT what the kernel would pick by itself
// (127.0.0.2 / 127.0.0.3 instead of 127.0.0.1), ephemeral and fixed port.
func runC06Src(o *opts) (*summary, error) {
	lt, err := loadLayouts(o.extraArg("layouts"))
	if err != nil {
		return nil, err
	}
	w, err := newShardWriter(o.out, "api", o.shards)
	if err != nil {
		return nil, err
	}
	stdRand := rand.New(rand.NewSource(o.seed))
	fixed := 0
	if x := o.extraArg("port"); x != "" {
		fmt.Sscanf(x, "%d", &fixed)
	}
	var mu sync.Mutex
	var lastSrc *net.UDPAddr
	nreq := 0
	note := func(ip net.IP, port int) {
		mu.Lock()
		lastSrc = &net.UDPAddr{IP: ip, Port: port}
		nreq++
		mu.Unlock()
	}
	answer := func(req []byte) []byte {
		for op, l := range lt.Rsp {
			if op != "" && len(req) > 1 && l.Code == int(req[1]) {
				mu.Lock()
				m := l.message(stdRand, 0x17, req[4:8], "valid", nil)
				mu.Unlock()
				if req[1] == 0x94 && req[4] == 0 && req[5] == 0 && req[6] == 0 && req[7] == 0 {
					copy(m[4:8], []byte{1, 2, 3, 4})
				}
				return m
			}
		}
		return nil
	}
	serveU := func(c *net.UDPConn) {
		buf := make([]byte, 2048)
		for {
			n, src, err := c.ReadFromUDP(buf)
			if err != nil {
				return
			}
			note(src.IP, src.Port)
			if m := answer(append([]byte{}, buf[:n]...)); m != nil {
				c.WriteToUDP(m, src)
			}
		}
	}
	u1 := listenUDP()
	defer u1.Close()
	bc := listenUDP()
	defer bc.Close()
	go serveU(u1)
	go serveU(bc)
	tl, err := net.ListenTCP("tcp4", &net.TCPAddr{IP: net.IPv4(127, 0, 0, 1), Port: 0})
	if err != nil {
		return nil, err
	}
	defer tl.Close()
	go func() {
		for {
			conn, err := tl.AcceptTCP()
			if err != nil {
				return
			}
			go func() {
				defer conn.Close()
				src := conn.RemoteAddr().(*net.TCPAddr)
				buf := make([]byte, 2048)
				conn.SetReadDeadline(time.Now().Add(time.Second))
				if n, err := conn.Read(buf); err == nil {
					note(src.IP, src.Port)
					if m := answer(append([]byte{}, buf[:n]...)); m != nil {
						conn.Write(m)
					}
				}
			}()
		}
	}()
	const s1, s2, s3 = 405419896, 303986753, 201020304
	tcpAP := netip.AddrPortFrom(netip.AddrFrom4([4]byte{127, 0, 0, 1}), uint16(tl.Addr().(*net.TCPAddr).Port))
	devices := []uhppote.Device{
		{Name: "u", DeviceID: s1, Address: types.ControllerAddr{AddrPort: udpAddrPort(u1)}, Protocol: "udp"},
		{Name: "t", DeviceID: s2, Address: types.ControllerAddr{AddrPort: tcpAP}, Protocol: "tcp"},
	}
	for _, b := range []struct {
		ip   [4]byte
		port int
	}{{[4]byte{127, 0, 0, 2}, 0}, {[4]byte{127, 0, 0, 3}, fixed}} {
		if b.port == 0 && b.ip[3] == 3 {
			continue
		}
		bind := types.BindAddr{AddrPort: netip.AddrPortFrom(netip.AddrFrom4(b.ip), uint16(b.port))}
		u := uhppote.NewUHPPOTE(bind, types.BroadcastAddr{AddrPort: udpAddrPort(bc)}, types.ListenAddr{}, 150*time.Millisecond, devices, false)
		for rep := 0; rep < 2; rep++ {
			for _, path := range []string{"discovery", "bcast", "udp", "tcp"} {
				if path == "tcp" && b.port != 0 && rep > 0 {
					continue // (a second TCP connection from the same fixed port to the same endpoint: TIME_WAIT is the OS')
				}
				mu.Lock()
				lastSrc, nreq = nil, 0
				mu.Unlock()
				guard(func() {
					switch path {
					case "discovery":
						u.GetDevices()
					case "bcast":
						u.GetStatus(s3)
					case "udp":
						u.GetStatus(s1)
					case "tcp":
						u.GetStatus(s2)
					}
				})
				time.Sleep(2 * time.Millisecond)
				mu.Lock()
				src, n := lastSrc, nreq
				mu.Unlock()
				rec := M{"op": "Source", "path": path, "bind": M{"ip": ints(b.ip[:]), "port": b.port}, "asked": src != nil, "nreq": n, "src": M{"ip": []int{}, "port": 0}}
				if src != nil {
					rec["src"] = M{"ip": ints(src.IP.To4()), "port": src.Port}
				}
				w.put(rec, "source-"+path, fmt.Sprintf("%s/%v/%d", path, b.ip, rep))
			}
		}
	}
	return w.close(), nil
}
