package main

import (
	"encoding/binary"
	"fmt"
	"math/rand"
	"net"
	"net/netip"
	"sync/atomic"
	"time"

	"github.com/uhppoted/uhppote-core/types"
	"github.com/uhppoted/uhppote-core/uhppote"
)

func init() { commands["c08gate"] = runC08Gate }

// gateDriver wraps the REAL driver (hook NewUHPPOTEWithDriver): when armed it holds the next directed / broadcast-to
// call right after the transport has returned - i.e. between Transport!Finish(c) and Transport!Return(c), the point
// at which "another call may be served in between" - until released. A blocking hook doubling as a scheduler gate.
type gateDriver struct {
	inner   uhppote.Driver
	armed   atomic.Bool
	held    chan struct{}
	release chan struct{}
}

func (g *gateDriver) gate() {
	if g.armed.CompareAndSwap(true, false) {
		g.held <- struct{}{}
		<-g.release
	}
}
func (g *gateDriver) Broadcast(a *net.UDPAddr, r []byte) ([][]byte, error) {
	v, err := g.inner.Broadcast(a, r)
	g.gate()
	return v, err
}
func (g *gateDriver) BroadcastTo(a *net.UDPAddr, r []byte, f func([]byte) bool) ([]byte, error) {
	v, err := g.inner.BroadcastTo(a, r, f)
	g.gate()
	return v, err
}
func (g *gateDriver) SendUDP(a *net.UDPAddr, r []byte) ([]byte, error) {
	v, err := g.inner.SendUDP(a, r)
	g.gate()
	return v, err
}
func (g *gateDriver) SendTCP(a *net.TCPAddr, r []byte) ([]byte, error) {
	v, err := g.inner.SendTCP(a, r)
	g.gate()
	return v, err
}
func (g *gateDriver) Listen(s chan any, d chan any, h func([]byte)) error {
	return g.inner.Listen(s, d, h)
}

// the controller's answer is a function of the request alone (serial + index): the harness can recompute it
func gateReply(lt *layoutTables, req []byte) []byte {
	serial := binary.LittleEndian.Uint32(req[4:8])
	ix := binary.LittleEndian.Uint32(req[8:12])
	r := rand.New(rand.NewSource(int64(serial)<<20 ^ int64(ix)))
	m := lt.Rsp["GetCardByIndex"].message(r, 0x17, req[4:8], "valid", nil)
	binary.LittleEndian.PutUint32(m[8:12], ix*16+serial%13+1) // the card number tells the requests apart
	return m
}

// runC08Gate: C08 "every call returns the reply to its own request", at the schedule the transport model names
// explicitly: call A's transport has returned (socket closed, guard released) but A has not looked at the bytes yet,
// while call B - same or another client, same or another path / controller - runs to completion 1..4 times.
func runC08Gate(o *opts) (*summary, error) {
	lt, err := loadLayouts(o.extraArg("layouts"))
	if err != nil {
		return nil, err
	}
	w, err := newShardWriter(o.out, "api", o.shards)
	if err != nil {
		return nil, err
	}
	rng := rand.New(rand.NewSource(o.seed))
	thorough := o.tier == "thorough"

	serveU := func(c *net.UDPConn) {
		buf := make([]byte, 2048)
		for {
			n, src, err := c.ReadFromUDP(buf)
			if err != nil {
				return
			}
			if n == 64 {
				c.WriteToUDP(gateReply(lt, buf[:64]), src)
			}
		}
	}
	const s1, s2, s3 = 405419896, 303986753, 201020304
	u1 := listenUDP()
	defer u1.Close()
	bc := listenUDP()
	defer bc.Close()
	go serveU(u1)
	go serveU(bc)
	tl, err := net.ListenTCP("tcp4", &net.TCPAddr{IP: net.IPv4(127, 0, 0, 1), Port: 0})
	if err != nil {
		return nil, err
	}
	defer tl.Close()
	go func() {
		for {
			conn, err := tl.AcceptTCP()
			if err != nil {
				return
			}
			go func() {
				defer conn.Close()
				buf := make([]byte, 2048)
				conn.SetReadDeadline(time.Now().Add(time.Second))
				if n, err := conn.Read(buf); err == nil && n == 64 {
					conn.Write(gateReply(lt, buf[:64]))
				}
				conn.SetReadDeadline(time.Now().Add(500 * time.Millisecond))
				conn.Read(buf) // the farm closes last
			}()
		}
	}()
	tcpAP := netip.AddrPortFrom(netip.AddrFrom4([4]byte{127, 0, 0, 1}), uint16(tl.Addr().(*net.TCPAddr).Port))
	devices := []uhppote.Device{
		{Name: "u", DeviceID: s1, Address: types.ControllerAddr{AddrPort: udpAddrPort(u1)}, Protocol: "udp"},
		{Name: "t", DeviceID: s2, Address: types.ControllerAddr{AddrPort: tcpAP}, Protocol: "tcp"},
	}
	cfgP := M{"bind": "", "broadcast": udpAddrPort(bc).String(), "devices": []any{
		M{"name": "u", "serial": u32(s1), "addr": udpAddrPort(u1).String(), "proto": "udp"},
		M{"name": "t", "serial": u32(s2), "addr": tcpAP.String(), "proto": "tcp"}}}

	mk := func(bindPort int) (uhppote.IUHPPOTE, *gateDriver) {
		var g *gateDriver
		bind := types.BindAddr{AddrPort: netip.AddrPortFrom(netip.AddrFrom4([4]byte{127, 0, 0, 1}), uint16(bindPort))}
		u := uhppote.NewUHPPOTEWithDriver(bind, types.BroadcastAddr{AddrPort: udpAddrPort(bc)}, types.ListenAddr{}, 3*time.Second, devices, false,
			func(d uhppote.Driver) uhppote.Driver {
				g = &gateDriver{inner: d, held: make(chan struct{}, 1), release: make(chan struct{})}
				return g
			})
		return u, g
	}
	fixed := 0
	if x := o.extraArg("port"); x != "" {
		fmt.Sscanf(x, "%d", &fixed)
	}

	serials := map[string]uint32{"udp": s1, "tcp": s2, "bcast": s3}
	paths := []string{"udp", "tcp", "bcast"}
	nextIx := uint32(1000 + rng.Intn(100000))
	type res struct {
		v   any
		err error
		pn  bool
		msg string
	}
	call := func(u uhppote.IUHPPOTE, path string, ix uint32) res {
		var r res
		r.pn, r.msg = guard(func() { r.v, r.err = u.GetCardByIndex(serials[path], ix) })
		return r
	}
	record := func(path string, ix uint32, r res, role string, sc string) {
		req := make([]byte, 64)
		req[0], req[1] = 0x17, 0x5c
		binary.LittleEndian.PutUint32(req[4:8], serials[path])
		binary.LittleEndian.PutUint32(req[8:12], ix)
		ret := M{"t": "panic", "msg": r.msg}
		if !r.pn {
			ret = projRet(r.v, r.err)
		}
		w.put(M{"op": "GetCardByIndex", "a": M{"serial": u32(serials[path]), "index": u32(ix)}, "sent": []any{}, "route": M{"m": "none"}, "ncalls": 1,
			"delivered": []any{M{"b": ints(gateReply(lt, req)), "keep": true}}, "ret": ret, "render": M{"string": "ok", "json": "ok"}, "cfg": cfgP,
			"gate": M{"role": role, "path": path, "scenario": sc}}, "gate-"+role, sc+"/"+role+fmt.Sprint(ix))
	}

	reps := 1
	if thorough {
		reps = 8
	}
	for rep := 0; rep < reps; rep++ {
		for _, bindPort := range []int{0, fixed} {
			if bindPort == 0 && fixed != 0 && rep%2 == 1 {
				continue
			}
			for _, pa := range paths {
				for _, pb := range paths {
					for _, sameClient := range []bool{true, false} {
						if bindPort != 0 && (pa == "tcp" || pb == "tcp") {
							continue // repeated TCP connections from one fixed local port to one endpoint: TIME_WAIT is the OS', not the library's
						}
						ua, ga := mk(bindPort)
						ub := ua
						if !sameClient {
							ub, _ = mk(bindPort)
						}
						sc := fmt.Sprintf("%s-then-%s/same=%v/bind=%d", pa, pb, sameClient, bindPort)
						ixA := nextIx
						nextIx++
						ga.armed.Store(true)
						doneA := make(chan res, 1)
						go func() { doneA <- call(ua, pa, ixA) }()
						select {
						case <-ga.held:
						case <-time.After(3 * time.Second):
							return nil, fmt.Errorf("gate: call A (%s) never came back from the transport", sc)
						}
						// A's transport has returned; B runs to completion k times before A looks at its bytes
						k := 1 + rng.Intn(4)
						for j := 0; j < k; j++ {
							ixB := nextIx
							nextIx++
							record(pb, ixB, call(ub, pb, ixB), "B", sc)
						}
						ga.release <- struct{}{}
						record(pa, ixA, <-doneA, "A", sc)
					}
				}
			}
		}
	}
	return w.close(), nil
}
