#!/usr/bin/env python3
"""Regenerates /verif/MANIFEST.json from the table below (single source of truth for the interface)."""
import json
import os

VERIF = os.path.dirname(os.path.dirname(os.path.abspath(__file__)))

CHECKS = {
    "C01": dict(
        category="model_checking",
        technique="TLC trace validation (Trace_Api: sent = Wire!EncodeLayout(Messages!Req[op], Api!Fields(op,args))) of API calls recorded at the transport boundary; TLC check of table well-formedness and codec round trip (MC_Wire)",
        text="The protocol (field codec, 65 message layouts, per-operation request construction) is an executable TLA+ definition; TLC checks its well-formedness and round trip, "
             "and then judges every recorded call of the real library (sequences on one client: all ordered pairs of operations, every 1-byte argument over all 256 values, all HH:mm values, random and boundary tuples, serial bit-walks) "
             "by comparing all 64 bytes handed to the transport with the specification's encoding. Exhaustive per field, combinatorial/random across fields; not a proof over all argument tuples.",
        note="Trusted: spec/Messages.tla as the protocol (frozen transcription of the pinned commit, cross-checked against the repository's golden vectors); TLC; the harness projection of arguments (field copies). TZ=UTC.",
        design="4/C01",
    ),
    "C02": dict(
        category="model_checking",
        technique="TLC trace validation (Trace_Api: Api!ResultOK(op,args,cfg,reply,result)) of API calls answered by scripted replies generated field by field from the TLC-exported layouts",
        text="Api!ResultOK defines, per operation, which results are acceptable for a header-correct reply: the protocol decoding of every field (sentinels first), or - for a field outside its domain - an error or the field's zero value, never another value. "
             "TLC judges every recorded call; the harness enumerates every byte of every reply field over all 256 values, out-of-domain / zero / random variants per field, sentinel patterns, calendar patterns in every date slot and HH:mm byte pairs.",
        note="Trusted: spec/Messages.tla + Api.tla as protocol; TLC; result projection by field copy. TZ=UTC. Documented don't-cares are listed in the evidence assumptions.",
        design="4/C02",
    ),
    "C04": dict(
        category="model_checking",
        technique="TLC trace validation (Trace_Codec / Trace_Api conjuncts NoPanic, RenderOK) of recovered-panic outcome records from systematic byte-string and argument enumeration through every decode entry point, operation and the event handler",
        text="Totality: the specification gives every decode entry point and operation a non-panic outcome for every input, so a recorded panic (recovered by the harness) or a panicking String()/JSON rendering of a returned value is a trace the specification rejects. "
             "Inputs: every length 0..80 (+ selected to 2048) x 6 content classes and every single byte of a valid message over all 256 values, for all 65 message types; arbitrary datagrams returned to every operation and the listener; extreme argument tuples.",
        note="Trusted: recover() as panic observer; TLC. The specification contributes the outcome classes and (where inputs are in C02/C05's domain) the values; it cannot itself observe a Go panic.",
        design="4/C04",
    ),
    "C05": dict(
        category="model_checking",
        technique="TLC trace validation (Trace_Codec: EncodedOK / decoded = value / slack independence / dispatch table) of codec calls on all 65 message types in child processes per time zone; slack positions exported from the specification",
        text="For generated in-domain values of every registered message type the specification checks the encoding byte for byte, that decoding (Unmarshal, UnmarshalAs) returns the value, and that it still does after bytes outside every field (positions computed by TLC) are changed; "
             "the dispatchers are checked against Messages!TypeOfCode over all function codes, lengths and protocol ids. One child process per zone: 12 zones quick, every IANA zone thorough.",
        note="Trusted: spec tables; TLC; reflection-based value generation/projection in the harness; existence of a civil time in a zone is taken from Go's time package.",
        design="4/C05",
    ),
    "C07": dict(
        category="model_checking",
        technique="TLC trace validation (Trace_Api: nothing sent <=> Api!Reject(op,args)) of API calls recorded on the scripted transport, incl. the complete 2^32 card-number space as accept intervals (thorough)",
        text="Api!Reject is the complete list of refusal reasons of the property; each recorded call must have put nothing on the transport and returned an error exactly when Reject holds, and exactly one request otherwise. "
             "Boundary-exhaustive argument sets per rule (card numbers around every facility-code boundary x format lists, PINs, AddrPort variants, net.IP shapes, doors 0..255, HH:mm pairs); thorough tier decides the Wiegand-26 accept set over all 2^32 numbers.",
        note="Trusted: TLC; the scripted transport as observation point for 'nothing on the network'; argument projection by field copy.",
        design="4/C07",
    ),
    "C12": dict(
        category="model_checking",
        technique="TLC model check of the BCD laws (MC_Bcd) + TLC trace validation (Trace_C12) of recorded bcd.Encode/Decode calls",
        text="The four BCD laws are model-checked on the specification operators over all strings <=4/5 over a 12-symbol alphabet and all byte strings <=2/3; "
             "every recorded call of the real bcd.Encode/Decode on those same inputs (thorough: all 2^24 three-byte inputs, summarised) is then checked by TLC to equal the specification operator's value, "
             "including both round trips. Exhaustive within the stated bounds, position independence sampled with random long inputs.",
        note="Trusted: TLC's evaluation of spec/Bcd.tla; the harness logs inputs/outputs as byte arrays without interpretation; the dec3 summary (accept set + digit echo flag) is computed by the harness.",
        design="4/C12",
    ),
}

NOT_YET = {
}

ALL = ["C%02d" % i for i in range(1, 19)]


def main():
    checks = []
    for pid in ALL:
        if pid not in CHECKS:
            continue
        c = CHECKS[pid]
        checks.append({
            "property_id": pid,
            "quick_cmd": "tools/vf check %s --tier quick" % pid,
            "thorough_cmd": "tools/vf check %s --tier thorough" % pid,
            "evidence_file": "/verif/evidence/%s.json" % pid,
            "replay_cmd_template": "tools/vf check %s --replay {path}" % pid,
            "engine": "vf",
            "level_claimed": {"category": c["category"], "text": c["text"], "design_ref": "DESIGN.md section " + c["design"]},
            "level_note": c["note"],
            "technique": c["technique"],
        })
    na = []
    for pid in ALL:
        if pid not in CHECKS:
            na.append({"property_id": pid, "reason": NOT_YET.get(pid, "check not built yet in this revision of /verif (planned: DESIGN.md section 4/%s); nothing is claimed for it" % pid)})
    m = {
        "version": 1,
        "setup_cmd": "python3 tools/vf setup",
        "hooks": {
            "guard": "verif",
            "enable": "go build -tags verif (the harness module /verif/harness replaces github.com/uhppoted/uhppote-core with /repo)",
            "baseline_off_cmd": "cd /repo && GOFLAGS=-mod=mod go test -vet=off -count=1 ./...",
            "source_commits": json.load(open(os.path.join(VERIF, "hooks.json")))["source_commits"],
            "add_only": True,
        },
        "engines": [
            {"name": "vf", "path": "tools/vf", "serves_properties": sorted(CHECKS),
             "kind_free_text": "Python orchestrator: builds the Go harness (harness/, -tags verif) from /repo's working tree, model-checks the TLA+ configurations under spec/ with TLC, records traces of the real code, validates them with TLC against the trace specifications, applies known_findings.json, writes evidence"},
        ],
        "checks": checks,
        "not_applicable": na,
        "notes": "Model-based verification with an explicit TLA+ specification (spec/), see DESIGN.md. Exit 2 from a check = infrastructure failure, no verdict.",
    }
    with open(os.path.join(VERIF, "MANIFEST.json"), "w") as f:
        json.dump(m, f, indent=1)
        f.write("\n")


if __name__ == "__main__":
    main()
