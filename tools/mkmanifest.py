#!/usr/bin/env python3
"""Regenerates /verif/MANIFEST.json from the table below (single source of truth for the interface)."""
import json
import os

VERIF = os.path.dirname(os.path.dirname(os.path.abspath(__file__)))

PURE = 'TLC trace validation (Trace_Pure) of recorded calls of the real functions against the specification operators'
TR = 'TLC exhaustive model check of spec/Transport.tla (calls x guard x sockets x clock x network) incl. expected-to-fail design switches; TLC -simulate behaviours exported as scripts and replayed on real loopback sockets (Rig L); TLC trace validation (Trace_Transport, inferred internal steps, depth-first queue) of the recorded events'

CHECKS = {
    "C01": dict(
        category="model_checking",
        technique="TLC trace validation (Trace_Api: sent = Wire!EncodeLayout(Messages!Req[op], Api!Fields(op,args))) of API calls recorded at the transport boundary; TLC check of table well-formedness and codec round trip (MC_Wire)",
        text="The protocol (field codec, 65 message layouts, per-operation request construction) is an executable TLA+ definition; TLC checks its well-formedness and round trip, "
             "and then judges every recorded call of the real library (sequences on one client: all ordered pairs of operations, every 1-byte argument over all 256 values, all HH:mm values, random and boundary tuples, serial bit-walks, dense date histories across a leap-year end, client configurations with every protocol string; ANSWERED histories: every operation answered as succeeded, the identical call again, another operation, again, on a second client, unanswered, and a setter fed with the value a getter has just reported) "
             "by comparing all 64 bytes handed to the transport with the specification's encoding; on the real driver (loopback farm) the request is compared again as it arrived at the controller's socket (WireExact) and counted (ExactlyOneRequest, also with strays ahead of the reply). Exhaustive per field, combinatorial/random across fields; not a proof over all argument tuples.",
        note="Trusted: spec/Messages.tla as the protocol (frozen transcription of the pinned commit, cross-checked against the repository's golden vectors); TLC; the harness projection of arguments (field copies). TZ=UTC.",
        design="4/C01",
    ),
    "C02": dict(
        category="model_checking",
        technique="TLC trace validation (Trace_Api: Api!ResultOK(op,args,cfg,reply,result)) of API calls answered by scripted replies generated field by field from the TLC-exported layouts",
        text="Api!ResultOK defines, per operation, which results are acceptable for a header-correct reply: the protocol decoding of every field (sentinels first), or - for a field outside its domain - an error or the field's zero value, never another value (a boolean byte other than 0/1 and a non-decimal nibble in a date / time field have no acceptable value: the call can only fail). "
             "TLC judges every recorded call; the harness enumerates every byte of every reply field over all 256 values, out-of-domain / zero / random variants per field, sentinel patterns, special byte patterns per field (also with one byte of the pattern corrupted), boundary values of every field kind, calendar patterns in every date slot and HH:mm byte pairs; a zone pass repeats the date/time-bearing operations in child processes running in zones with offset changes (calendar fields on the change days, existing civil times only).",
        note="Trusted: spec/Messages.tla + Api.tla as protocol; TLC; result projection by field copy. TZ=UTC for the main run. Documented don't-cares are listed in the evidence assumptions.",
        design="4/C02",
    ),
    "C03": dict(
        category="model_checking",
        technique=TR,
        text="Invariants AcceptOnlyValid, BcastKeepsWaiting, FailOnlyOnBad, SetAddrNeverReads hold on the complete state space of three bounded configurations (2-3 calls, all datagram classes, strays, peer faults). "
             "Behaviours of the same specification (controller answers of 1-2 datagrams from 8 classes, strays injected into the call's source port, all three paths) are replayed against the unmodified driver on loopback and every recorded scenario must be a behaviour of the specification: accepted / skipped / refused exactly as the model's Recv says; one hand-made behaviour per datagram class x {ordinary, status} call x path and per wrong length (19 lengths, 0..4096, and the genuine TCP reply split in two segments) and path; floods of up to 140 ignored datagrams ahead of the genuine reply; peer faults incl. a TCP peer that ends the stream without a byte (closed); on the real driver every reply-bearing operation over each path with the result kept across 1-4 further exchanges, and a reply with one out-of-domain field right after a well-formed one, judged against its own datagram (OnlyOwnDatagram); and for every reply-bearing operation x path a fatal datagram answering the first request while a well-formed reply would answer any repeated one: the call fails after ONE request (Trace_Api!CheckFatalFirst).",
        note="Trusted: TLC; the farm's concretisation of datagram classes; timing on a 40-50 ms tick with a re-run rule (a rejected scenario is reported only if it is rejected again in at least two isolated re-runs at 3x / 5x tick whose own clockwork was undisturbed, and in more of them than it is accepted in). Operation coverage on real sockets is representative (GetCardByIndex, GetStatus incl. 0x19, SetAddress); per-operation decoding is C02's.",
        design="4/C03",
    ),
    "C04": dict(
        category="model_checking",
        technique="TLC trace validation (Trace_Codec / Trace_Api conjuncts NoPanic, RenderOK) of recovered-panic outcome records from systematic byte-string and argument enumeration through every decode entry point, operation and the event handler",
        text="Totality: the specification gives every decode entry point and operation a non-panic outcome for every input, so a recorded panic (recovered by the harness) or a panicking String()/JSON rendering of a returned value is a trace the specification rejects. "
             "Inputs: every length 0..80 (+ selected to 2048) x 6 content classes, every single byte of a valid message over all 256 values and special patterns per field, for all 65 message types through Unmarshal / UnmarshalAs / UnmarshalArray / UnmarshalArrayElement and the dispatchers; arbitrary datagrams returned to every operation and the listener; C02's field-by-field reply generator through every operation with String() called directly and JSON; byte strings of every length through the REAL driver on loopback (udp, tcp, broadcast, discovery, listener; debug off/on) and windows full of datagrams (60 x 2048, 1200 x 64, 300 x 1 bytes); OnError answers true / false alternately; extreme argument tuples. A harness process killed by a panic whose first non-runtime frame is library code is reported as a violation. The extreme argument tuples are also ANSWERED by well-formed replies, so that whatever comes back for an out-of-range argument is rendered too.",
        note="Trusted: recover() as panic observer; TLC. The specification contributes the outcome classes and (where inputs are in C02/C05's domain) the values; it cannot itself observe a Go panic.",
        design="4/C04",
    ),
    "C05": dict(
        category="model_checking",
        technique="TLC trace validation (Trace_Codec: EncodedOK / decoded = value / slack independence / dispatch table) of codec calls on all 65 message types in child processes per time zone; slack positions exported from the specification",
        text="For generated in-domain values of every registered message type the specification checks the encoding byte for byte, that decoding (Unmarshal, UnmarshalAs) returns the value, that it still does after bytes outside every field (positions computed by TLC) are changed, when decoded into a struct that already holds another message of the type (ReuseIndependent) and after the input buffer is overwritten (NoAlias); boundary values of every field kind (a quarter of the calendar values on the process zone's offset-change days); "
             "the dispatchers are checked against Messages!TypeOfCode over all function codes, lengths and protocol ids. One child process per zone: 12 zones quick, every IANA zone thorough. A shape class per field (FieldTypeFitsLayout) is compared with the layout kind first: a Go field type that cannot hold the layout kind is a violation, and the comparison stays total.",
        note="Trusted: spec tables; TLC; reflection-based value generation/projection in the harness; existence of a civil time in a zone is taken from Go's time package.",
        design="4/C05",
    ),
    "C06": dict(
        category="model_checking",
        technique="TLC trace validation (Trace_Api: route = Api!Route(op,cfg,serial), one transport call) over 32 operations x 270 client configurations on the scripted transport; TLC trace validation (Trace_Transport TAsk: arrival transport/endpoint, source = bind address, exactly once, silent decoys) of real-socket scenarios",
        text="Api!Route is the routing rule of the property (usable address => direct, tcp only when configured tcp, otherwise broadcast to the configured or default broadcast address; discovery always broadcasts). Every recorded call under every configuration of the product (half of them answered with a well-formed reply) must invoke the transport once with exactly that method and endpoint; "
             "on real sockets the farm records where each request arrived, from which source address/port, how often, and that decoy endpoints heard nothing; strangers write to the port of connected-UDP calls too (the kernel never shows them to the call: StrangersCannotTouchDirected, XF_UnconnectedUDP refuted); one client configured with all controllers in every other scenario; the source address of discovery / broadcast-to / UDP / TCP requests from bind addresses 127.0.0.2:0 and 127.0.0.3:fixed as seen by the farm (SourceIsBindAddress). The real-driver pass (a fatal datagram answering the first request of every reply-bearing operation x path, every fatal kind; a well-formed reply ready for a repeated request) adds NoSecondRequest.",
        note="Trusted: TLC; the default broadcast address 255.255.255.255:60000 is only observable at the driver boundary (sealed network).",
        design="4/C06",
    ),
    "C07": dict(
        category="model_checking",
        technique="TLC trace validation (Trace_Api: nothing sent <=> Api!Reject(op,args)) of API calls recorded on the scripted transport, incl. the complete 2^32 card-number space as accept intervals (thorough)",
        text="Api!Reject is the complete list of refusal reasons of the property; each recorded call must have put nothing on the transport and returned an error exactly when Reject holds, and exactly one request otherwise; SetDoorPasscodes requests must carry exactly the valid passcodes (PasscodesSentOrDisabled), also when the lists are consecutive windows of one table; calls that pass every documented check with a date / time of day the wire format cannot carry must still be sent (RejectedOnlyForTheseReasons). "
             "Boundary-exhaustive argument sets per rule (card numbers around every facility-code boundary and 0xNNffffff x format lists, PINs, segment maps with entries under non-segment keys, controllers configured with 1 / 2 / 5 / 8 / no door names, AddrPort variants, net.IP shapes, doors 0..255, HH:mm pairs); thorough tier decides the Wiegand-26 accept set over all 2^32 numbers.",
        note="Trusted: TLC; the scripted transport as observation point for 'nothing on the network'; argument projection by field copy.",
        design="4/C07",
    ),
    "C08": dict(
        category="model_checking",
        technique=TR + "; happens-before model of Broadcast() (spec/Discovery.tla, vector clocks) with NoRace invariant; Go race detector as observer of memory races on the same scripts + discovery + listener shutdown",
        text="NoCrossedReplyStrict, PortExclusive, TimelyAnswerAccepted hold over all interleavings of 3 calls to one controller on a shared fixed port (delays < T); XF_NoGuard, XF_GuardPerClient (the lock owned by a client instead of the process), XF_DeadlineBeforeLock and XF_DiscoveryUnsync each yield the modelled defect's counterexample. "
             "Simulated behaviours with 3-4 concurrent calls (same controller, mixed paths, fixed and ephemeral port) are replayed on real sockets with request tags echoed in replies so that a crossed reply or a refused timely answer is a rejected trace (incl. calls that queue for the fixed port and then use TCP, and two connected-UDP calls to one controller); a gate around the real driver (verif hook) forces the schedule Transport!Finish(a) .. [call b completes 1-4 times] .. Transport!Return(a) over all nine path pairs, same / other client, and each result must interpret its own reply (Trace_Api!CheckGate); the same scripts run under -race, preceded by a cold-start burst (one goroutine per operation released at once on a fresh process), bursts of events into the listener, and calls whose slice arguments are windows of one table; a race is attributed to the first frame of each access that is not runtime / standard library. Optional strengthening, never a verdict about the code: spec/proofs/TransportProofs.tla (TLAPS, 179 obligations) proves the inductive invariants MutexInv, TimeInv and SendsInv of Transport.tla for ANY number of calls, any timeout and any reply plan (one guard holder, at most one socket on the fixed port, nothing held after Finish, the bind never fails; deadline = asked + T, never passed while waiting, no time-out before it; at most one request per call whatever the design switches).",
        note="Whether a memory race happened is observed by the Go race detector, not by the specification (which contributes the synchronisation design and arbitrates the trace). Timing as C03.",
        design="4/C08",
    ),
    "C09": dict(
        category="model_checking",
        technique=TR + "; liveness (Termination) under weak fairness; process-level fd / goroutine counts as logged state",
        text="BoundedReturn, NoEarlyGiveUp, DeadlineFromAsk, Released are invariants of the model; Termination holds under weak fairness; XF_RearmPerRead / XF_NoCloseOnError / XF_DeadlineBeforeLock are refuted. "
             "Replayed behaviours cover silence, late replies, refused and reset TCP, ICMP-refused UDP, accept-and-stall, a TCP peer that never answers the SYN (blackhole), a TCP handshake that completes only on the kernel's SYN retransmission and then stalls (model: Send = dial, Connect; one absolute deadline; XF_RearmAfterConnect refuted), and floods of irrelevant datagrams until the deadline (alone and with the genuine reply at T-1); time-outs must fall in tick T after being asked, timely replies must be accepted, and each child process must hold no more sockets or goroutines afterwards; discovery (Discovery.tla: WindowAbsolute, ReaderQuits under fairness, XF_DiscoveryRearm / XF_DiscoveryHandOff refuted) is exercised under a datagram-per-millisecond flood through the deadline with goroutine / socket accounting (Trace_Api!CheckQuiesce); further passes: Listen on a busy port and on port 0 (descriptors counted before any collection), overlapped discoveries on an ephemeral port, discovery after a failed bind, clients with timeout 0 / negative, a 1.3 s discovery window (reply at 0.88 T listed, silence is an empty list), and every reply-bearing operation against controllers that say nothing (silent UDP socket, TCP peer that never answers, silent broadcast address; T = 90 ms): each call fails after T, not 2 T, and leaves nothing behind.",
        note="Trusted: /proc/self/fd and runtime.NumGoroutine; tick timing with half a tick of slack on time-outs; re-run rule.",
        design="4/C09",
    ),
    "C10": dict(
        category="model_checking",
        technique="TLC model check of spec/Listener.tla (invariants + liveness under weak fairness, XF_SpawnPerEvent, XF_DropWhenBusy, XF_DoneOnClose refuted; NoSendOnClosedPipe); TLC trace validation (Trace_Listener, inferred internal steps, per-sender FIFO network) of real Listen() scenarios on loopback; TLC trace validation (Trace_Api EventDecoded / Stable) of every delivered status",
        text="EventsInOrderOnce, ErrorsInOrderOnce, ConnectedOnce, Complete, Rebindable and Terminates hold for 2 senders x 4 datagrams x quit at any point. Real listener runs (1-3 senders, 8 datagram classes incl. every wrong length in turn and events that repeat the previous controller and index, slow application with abrupt shutdown, OnError answering true / false, start/stop cycles with an immediate re-bind) must be behaviours of that specification - a listener that stops calling back while nobody told it to stop is not (stalled); "
             "each delivered status must equal the specification's decoding of its datagram at delivery and again after the run, also when the handler is fed from one reused, overwritten buffer; a zone pass feeds events whose calendar fields sit on the offset-change days of DST zones (child process in that zone).",
        note="Trusted: TLC; flow control in the harness so that the kernel cannot drop; errors carry no identity (matched to 'some bad datagram'). Scripts are seeded by the harness.",
        design="4/C10",
    ),
    "C11": dict(
        category="model_checking",
        technique="TLC model check of spec/Discovery.tla (ResultSound, ResultComplete, WindowAbsolute, NoRace, ReaderQuits; XF_DiscoveryUnsync, XF_DiscoveryRearm refuted); TLC trace validation (Trace_Api: Api!DiscoveryOK, a recursive matcher of results against the delivered datagram sequence) on the scripted transport and against the real Broadcast()",
        text="Two-sided formulation: complete for datagrams inside the window, sound for everything returned, order preserved, duplicates kept, malformed datagrams contribute nothing and never fail the call; address completed with the broadcast port, name from the configured controller. "
             "Every sequence of <=3/<=4 datagrams over 7 classes through GetDevices on the scripted transport, plus random multisets through the real Broadcast() on loopback with a further valid reply 0.35 T after the timeout (while the call may still be running) that must not be listed; every wrong length between two replies, crowded windows (90 non-replies ahead of three replies, 120 controllers, 90 KiB), serial numbers 0 / 0xffffffff, overlapped discoveries on a shared fixed port.",
        note="Trusted: TLC; in Rig L the sent list is taken as the delivered list (sequential sends on loopback).",
        design="4/C11",
    ),
    "C12": dict(
        category="model_checking",
        technique="TLC model check of the BCD laws (MC_Bcd) + TLC trace validation (Trace_C12) of recorded bcd.Encode/Decode calls; TLAPS proofs of the per-byte nibble lemmas (spec/proofs/BcdProofs.tla, 33 obligations)",
        text="The four BCD laws are model-checked on the specification operators over all strings <=4/5 over a 12-symbol alphabet and all byte strings <=2/3; "
             "every recorded call of the real bcd.Encode/Decode on those same inputs (thorough: all 2^24 three-byte inputs, summarised) is then checked by TLC to equal the specification operator's value, "
             "including both round trips. Exhaustive within the stated bounds, position independence sampled with random long inputs; multi-byte digit runes; the functions called from eight goroutines at once; the earliest inputs once more thousands of values later; results appended to by the caller; the nil slice. Every encoded result is also written into by the caller and the same text encoded again: the later result is judged like the first.",
        note="Trusted: TLC's evaluation of spec/Bcd.tla; the harness logs inputs/outputs as byte arrays without interpretation; the dec3 summary (accept set + digit echo flag) is computed by the harness.",
        design="4/C12",
    ),
    "C13": dict(
        category="model_checking",
        technique=PURE + " (CivilValue / CivilWire) in one child process per time zone; midnight-gap days found per zone from the tz database by the harness",
        text="The specification owns the calendar and the wire form: every date / date-time that exists in the process zone must be reported as its civil value and encode to its own digits. All days whose local midnight is skipped 1900-2100 (found per zone), their neighbours, skipped days (exempt), the days of ordinary offset changes, boundaries and random days through ToDate, ParseDate, wire and JSON decode, String, SystemDate, date-time decode (five clock readings per day) the date+time recombination of GetStatus and of the event listener, date-times held in a foreign (fixed-offset) Location, a dense window across a year end in one process; 25 zones quick, every zone thorough. Dates inside time-profile and task JSON documents are also decoded through a variable that has been used for another document before (the date reported is the one in THIS document).",
        note="Trusted: existence of a civil time in a zone is computed by Go's time package / system tz database (TLA+ has no tz database); TLC.",
        design="4/C13",
    ),
    "C14": dict(
        category="model_checking",
        technique=PURE + " (JsonRoundTrip, JsonRoundTripAsMember, TextValue, TextReject; spec/Text.tla character-level grammars, spec/Addr.tla for address JSON)",
        text="For each public type with a JSON form, generated in-domain values are encoded, decoded into a fresh zero value (nil maps) and as a struct member, and compared semantically by the specification; per type a character-level grammar says which texts denote which value and which must be rejected (date texts also as members of a card document; address texts incl. overflow / non-decimal ports and quad-less texts through JSON). Dates, date-times (random instants 1850-2100 and instants around the zone's own offset changes - the hour that occurs twice), cards and the text form of dates in a child process per zone, a third of the dates on the zone's offset-change days. Profiles and tasks with open-ended validity (the zero date at either end or both) are among the generated values.",
        note="Trusted: TLC; semantic projections in the harness (door / weekday / segment look-ups); documented don't-cares.",
        design="4/C14",
    ),
    "C15": dict(
        category="model_checking",
        technique=PURE + " (AcceptExact, Reject, FormatRoundTrip, RejectNoQuad; spec/Addr.tla) + TLC check of the grammar's consistency (MC_Addr)",
        text="Addr!MustAccept / MustReject / don't-care partition texts per role; every string over {1,0,2,5,.,:} up to length 7/9, all ports (and decimal numbers beyond 65535: MustReject), single-character mutations of valid addresses and format/parse round trips (boundary addresses such as 0.0.0.0 and 255.255.255.255 x boundary ports first, then random) are judged by TLC for all four roles through Parse, MustParse, Set and the XAddrFrom constructors; a port text with a non-digit is refused (NonDecimalPort), an accepted zero-padded port is its decimal value (AcceptedMeansDecimal), the same text parsed twice gets the same answer. Set() is also called on objects that already hold an address (same address with another port, another address with the same port, both different), judged like Parse. A cold pass runs four fresh processes in each of which the first address ever parsed goes through another role's parser.",
        note="Trusted: TLC; texts as code points.",
        design="4/C15",
    ),
    "C16": dict(
        category="model_checking",
        technique=PURE + " (rows of Before/After/Equals verdicts recomputed from the lexicographic operators) + TLC check of trichotomy / transitivity / irreflexivity and agreement with the day number on a bounded grid (MC_Order); TLAPS proofs of the order laws and the segment rule over unbounded integers (spec/proofs/OrderProofs.tla, 8 obligations)",
        text="All 1441^2 HH:mm pairs (thorough; every 5th row quick), every day of four years incl. leap and century years against its calendar neighbours, the year ends of a 400-year cycle (thorough: all years), month ends, boundaries incl. the first day of the range (also as the zero value), values built with ToDate / time.Date / HHmmFromTime, random grids, date-time vs instant around second boundaries and around the offset changes of the operands' own locations; the segment rule (Trace_Api!CheckSegmentRule) over all ordered pairs of a boundary-rich HH:mm set through SetTimeProfile. The segment rule is also judged on profiles that come out of json.Unmarshal, two decoded before either is used (the pair and its reverse): each is accepted or refused for what its own document says.",
        note="Trusted: TLC; whole-second timestamps logged as two 20-bit halves.",
        design="4/C16",
    ),
    "C17": dict(
        category="model_checking",
        technique="TLC model check of spec/Insulation.tla (RoutesBySnapshot, HeldStable; three XF design switches refuted); stateful TLC trace validation (Trace_Insulation: snapshot taken at `construct`, every later call must route by Api!Route(snapshot), every re-check must show the held rendering)",
        text="Every history of <=3/<=4 actions over {mutate caller data, mutate the DeviceList map, call, scribble transport buffers, mutate a result, re-check, clone} (+ random histories of length 20) replayed on the scripted transport, which hands out slices of one reusable buffer; argument values (cards, profiles, tasks' weekday maps, keypad maps, passcode windows with their tail) and the caller's device list (entries with id 0, spare capacity) are re-projected after each call / after construction; on the real driver every reply-bearing operation and discovery over each path with the result kept across 1-4 further exchanges (KeptResultUnaffected). Per operation: the call for the configured controller answered \"succeeded\", further calls for it (routed by the snapshot) and the configuration the client reports afterwards. The same call answered twice by byte-identical replies, the first result edited in between, must give equal results (Trace_Insulation!TSameReply).",
        note="Trusted: TLC; projections of held values; argument immutability by re-projection of the values the caller still holds.",
        design="4/C17",
    ),
    "C18": dict(
        category="model_checking",
        technique="TLC trace validation (Trace_Layout: Wire!EncodedOK / round trip / NoAlias / TagsEnforced applied to the layout carried by each event) of struct types generated from the tag grammar with reflect.StructOf",
        text="The same executable field codec that judges the shipped messages judges generated layouts: every single-field layout (19 Go field types x every fitting offset x top-level/embedded), fixed-value byte tags in four notations at every offset, and 1000/20000 random multi-field layouts packed to the last byte, the embedded struct first / in the middle / last among the top-level fields; inner fields that share a Go name with an outer field or with a field of a second embedded struct; two named Go types of the same name with different layouts; plus aliasing (input buffer overwritten after decode), the zero value of every layout, Marshal by pointer, decoding into a struct that already holds other values, and enforcement of function-code / fixed-value tags. Fixed-value tags are generated in four spellings (either clause order; comma, semicolon or blank between them).",
        note="Trusted: TLC; layouts are harness-generated (seeded), not exported from TLC.",
        design="4/C18",
    ),
}

NOT_YET = {
}

ALL = ["C%02d" % i for i in range(1, 19)]


def main():
    checks = []
    for pid in ALL:
        if pid not in CHECKS:
            continue
        c = CHECKS[pid]
        checks.append({
            "property_id": pid,
            "quick_cmd": "tools/vf check %s --tier quick" % pid,
            "thorough_cmd": "tools/vf check %s --tier thorough" % pid,
            "evidence_file": "/verif/evidence/%s.json" % pid,
            "replay_cmd_template": "tools/vf check %s --replay {path}" % pid,
            "engine": "vf",
            "level_claimed": {"category": c["category"], "text": c["text"], "design_ref": "DESIGN.md section " + c["design"]},
            "level_note": c["note"],
            "technique": c["technique"],
        })
    na = []
    for pid in ALL:
        if pid not in CHECKS:
            na.append({"property_id": pid, "reason": NOT_YET.get(pid, "check not built yet in this revision of /verif (planned: DESIGN.md section 4/%s); nothing is claimed for it" % pid)})
    m = {
        "version": 1,
        "setup_cmd": "python3 tools/vf setup",
        "hooks": {
            "guard": "verif",
            "enable": "go build -tags verif (the harness module /verif/harness replaces github.com/uhppoted/uhppote-core with /repo)",
            "baseline_off_cmd": "cd /repo && GOFLAGS=-mod=mod go test -vet=off -count=1 ./...",
            "source_commits": json.load(open(os.path.join(VERIF, "hooks.json")))["source_commits"],
            "add_only": True,
        },
        "engines": [
            {"name": "vf", "path": "tools/vf", "serves_properties": sorted(CHECKS),
             "kind_free_text": "Python orchestrator: builds the Go harness (harness/, -tags verif) from /repo's working tree, model-checks the TLA+ configurations under spec/ with TLC, records traces of the real code, validates them with TLC against the trace specifications, applies known_findings.json, writes evidence"},
        ],
        "checks": checks,
        "not_applicable": na,
        "notes": "Model-based verification with an explicit TLA+ specification (spec/), see DESIGN.md. Exit 2 from a check = infrastructure failure, no verdict.",
    }
    with open(os.path.join(VERIF, "MANIFEST.json"), "w") as f:
        json.dump(m, f, indent=1)
        f.write("\n")


if __name__ == "__main__":
    main()
