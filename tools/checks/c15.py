"""C15 - address parsing accepts exactly IPv4[:port] under each role's port rule."""
import vflib
from vflib import Verdict
from . import common

PROP = "C15"


def key(conj, rec):
    if rec["fn"] == "parse":
        return "%s:%s:%r" % (conj, rec["role"], rec.get("text"))
    return "%s:%s:%s" % (conj, rec["fn"], rec.get("role"))


def run(tier, replay=None):
    v = Verdict(PROP, tier, "model_checking")
    v.replay_info = {"seed": vflib.seed(), "tier": tier}
    v.assumptions = [
        "spec/Addr.tla: MustAccept = strict a.b.c.d[:port] (octets 0..255 without leading zeros, port plain decimal 0..65535) satisfying the role's port rule; MustReject = strict form violating the rule, a bare quad for listen, or no dotted-quad pattern anywhere in the text; everything else is a don't-care",
        "texts reach the specification as code point sequences",
    ]
    if replay is None:
        common.model_checks(v, [("MC_Addr", "MC_Addr.cfg", {"workers": 4}, "pass")])
    summ = common.harness_traces("c15", tier, shards=16 if tier == "thorough" else 8, env={"TZ": "UTC"})
    common.validate(v, "Trace_Pure", "Trace_Pure.cfg", summ, key)
    if replay is None:
        # cold pass: four fresh processes, in each the first address ever parsed goes through another role's parser
        for role in ("bind", "broadcast", "listen", "controller"):
            cs = common.harness_traces("c15", tier, shards=1, env={"TZ": "UTC"}, extra_args=["-x", "cold=" + role], name="c15-cold-" + role)
            common.validate(v, "Trace_Pure", "Trace_Pure.cfg", cs, key)
    v.coverage["rule"] = ("4 roles x: every string over {1,0,2,5,.,:} up to length 7 (quick) / 9 (thorough) - those with fewer than three dots summarised per length, the rest judged one by one; "
                          "ports (quick: boundaries + every 97th, thorough: all 2^16) on a fixed address + odd port texts; 2500 / 20000 single-character mutations of valid addresses; 2500 / 10000 format-parse round trips. distinct = (role, text)")
    v.coverage["checker_cmd"] = "tlc MC_Addr; tlc Trace_Pure"
    return v.finish(write_evidence=replay is None)
