"""C09 - every call ends within its timeout and releases its socket and goroutines."""
import vflib
from vflib import Verdict
from . import common, transport

PROP = "C09"


def run(tier, replay=None):
    v = Verdict(PROP, tier, "model_checking")
    v.replay_info = {"seed": vflib.seed(), "tier": tier}
    if replay:
        return transport.replay(v, replay)
    v.assumptions = [
        "time is measured in ticks of 50 ms relative to the arrival of the request at the farm ('being asked'); T = 3 ticks; a time-out must be observed in tick T (half a tick of slack for the farm's own latency), a reply scripted for tick d < T must be accepted in tick d",
        "network behaviours: no reply, late reply (delay = T), stray flood until the deadline, TCP accept-and-stall, TCP reset, refused TCP connection, ICMP port unreachable on connected UDP",
        "socket / goroutine release is observed per child process: /proc/self/fd socket count and runtime.NumGoroutine after all scenarios vs before (trusted base)",
        "a hung call (no return after 4T+4 ticks) is recorded as such; liveness itself is model-checked (MC_Transport_live, weak fairness)",
    ]
    common.model_checks(v, [
        # liveness: quick = 3 reply classes x 2 stray classes (0.3 M states), thorough = 4 x 5 (1.2 M states)
        ("MC_Transport", "MC_Transport_live_q.cfg" if tier == "quick" else "MC_Transport_live.cfg", {"workers": 8, "heap": "6g"}, "pass"),
        ("MC_Transport", "MC_Transport_t.cfg", {"workers": 8, "heap": "6g"}, "pass"),
        ("MC_Transport", "XF_RearmPerRead.cfg", {"workers": 2}, "fail"),
        ("MC_Transport", "XF_NoCloseOnError.cfg", {"workers": 2}, "fail"),
        ("MC_Transport", "XF_DeadlineBeforeLock.cfg", {"workers": 2}, "fail"),
        ("MC_Transport", "XF_RearmAfterConnect.cfg", {"workers": 2}, "fail"),
        ("MC_Discovery", "MC_Discovery.cfg", {"workers": 8, "heap": "4g"}, "pass"),
        ("MC_Discovery", "XF_DiscoveryHandOff.cfg", {"workers": 2}, "fail"),
        ("MC_Discovery", "XF_DiscoveryRearm.cfg", {"workers": 2}, "fail"),
    ])
    groups = ["G_mixed_fixed", "G_mixed_eph", "G_udp_fixed", "G_tcp_eph", "G_flood_fixed", "G_flood_eph"]
    n = 36 if tier == "quick" else 400
    total, drift, _ = transport.run_groups(v, groups, n)
    v.coverage["fd_drift"] = drift["fd"]
    v.coverage["goroutine_drift"] = drift["goroutines"]
    if drift["fd"] > 0:
        v.report("leak:sockets", [], {"drift": drift, "what": "a child process holds more sockets after its scenarios than before"})
    if drift["goroutines"] > 0:
        v.report("leak:goroutines", [], {"drift": drift, "what": "a child process holds more goroutines after its scenarios than before"})
    # discovery under a flood that lasts through the deadline (real Broadcast()): bounded return, nothing left behind
    from .c05 import export
    layouts, _ = export()
    disc = common.harness_traces("c09disc", tier, shards=1, extra_args=["-x", "layouts=" + layouts], timeout=1800)
    common.validate(v, "Trace_Api", "Trace_Api.cfg", disc, lambda conj, rec: "%s:%s" % (conj, rec.get("what")))
    v.coverage["rule"] = ("%d simulated behaviours per group (mixed paths incl. set-address, fixed and ephemeral bind port, faults silence / refused / reset, reply delays 0..T incl. late, strays) "
                          "+ hand-made flood behaviours (4..16 irrelevant datagrams per tick until the deadline, alone and with the genuine reply at T-1), replayed on real sockets and validated; "
                          "process-level socket and goroutine counts after each batch; 12 (thorough 150) GetDevices calls under a datagram-per-millisecond flood from 0.7 T to 1.15 T with goroutine / socket accounting. distinct = scenarios" % n)
    v.coverage["checker_cmd"] = "tlc MC_Transport (live: PROPERTY Termination under WF; t; XF_*); tlc Trace_Transport"
    return v.finish()
