"""C16 - date and time comparisons form a strict total order consistent with the calendar."""
import vflib
from vflib import Verdict
from . import common

PROP = "C16"


def key(conj, rec):
    return "%s:%s:a=%s" % (conj, rec["fn"], rec.get("a", rec.get("dt")))


def run(tier, replay=None):
    v = Verdict(PROP, tier, "model_checking")
    v.replay_info = {"seed": vflib.seed(), "tier": tier}
    v.assumptions = [
        "verdicts of Before/After/Equals are logged as one code per pair (1 before, 2 after, 4 equal) in rows per left operand; TLC recomputes each row from the lexicographic operators of spec/Calendar.tla",
        "whole-second timestamps are logged as <<s div 2^20, s mod 2^20>> (TLC integers are 32 bit)",
        "the segment rule of SetTimeProfile (accept <=> end not before start) is judged by Trace_Api!CheckSegmentRule on SetTimeProfile calls over all ordered pairs of a 23-value (thorough: 63) HH:mm set with equal pairs, one-minute neighbours and 24:00",
    ]
    if replay is None:
        common.model_checks(v, [("MC_Order", "MC_Order.cfg", {"workers": 4}, "pass")])
    summ = common.harness_traces("c16", tier, shards=16 if tier == "thorough" else 8, env={"TZ": "UTC"},
                                 extra_args=["-x", "only=" + open(replay + "/k").read()] if False else None)
    common.validate(v, "Trace_Pure", "Trace_Pure.cfg", summ, key)
    # the segment rule of SetTimeProfile: accept <=> end not before start, over all ordered pairs of a boundary-rich HH:mm set
    seg = common.harness_traces("c16seg", tier, shards=4, env={"TZ": "UTC"})
    common.validate(v, "Trace_Api", "Trace_Api.cfg", seg, lambda conj, rec: "%s:SetTimeProfile:%s" % (conj, rec["a"]["profile"]["segments"]))
    v.coverage["rule"] = ("HH:mm: all 1441 right operands for every 5th (quick) / every (thorough) left operand 00:00..24:00; dates: every day of 1900, 2000, 2023, 2024 against its neighbours, year/month boundaries, 0001 and 9999, a 120^2 / 1500^2 random grid "
                          "(values built at random clocks in foreign locations); date-time vs instant: 3000 / 60000 pairs straddling second boundaries. SetTimeProfile accept/reject for all ordered HH:mm pairs of a boundary set. distinct = rows / pairs")
    v.coverage["exhaustive"] = tier == "thorough"
    v.coverage["checker_cmd"] = "tlc MC_Order (laws on a bounded grid); tlc Trace_Pure"
    if replay is None:
        # optional strengthening (never a verdict about the code): TLAPS proofs of the specification-level laws
        pr = vflib.tlaps("OrderProofs")
        v.coverage["tlaps"] = {"module": "spec/proofs/OrderProofs.tla", "what": "strict total order of the lexicographic date / HH:mm operators and the segment rule over unbounded integers",
                               "obligations": pr[0] if pr else None, "proved": pr[1] if pr else None, "wall_s": pr[2] if pr else None,
                               "status": "all proved" if pr and pr[0] == pr[1] else "not discharged in this run (the claim then rests on the TLC bound)"}
    return v.finish(write_evidence=replay is None)
