"""Flow shared by the checks whose events are independent calls of the real code."""
import json
import os

import vflib
from vflib import Verdict, log


_lines = {}


def line_of(path, n):
    if path not in _lines:
        with open(path) as f:
            _lines[path] = f.readlines()
    ls = _lines[path]
    return json.loads(ls[n - 1]) if 1 <= n <= len(ls) else None


def model_checks(v, configs):
    """configs: list of (module, cfg, kwargs, expect) with expect in {'pass','fail'}."""
    states = transitions = 0
    done = []
    for module, cfg, kw, expect in configs:
        if expect == "pass":
            r = vflib.tlc_must_pass(module, cfg, **kw)
        else:
            r = vflib.tlc_must_fail(module, cfg, **kw)
        states += r.distinct
        transitions += r.generated
        done.append({"module": module, "cfg": cfg, "expect": expect, "distinct": r.distinct,
                     "generated": r.generated, "depth": r.depth, "wall_s": round(r.wall, 1),
                     "violated": r.violated_invariants + r.action_violations + (["temporal"] if r.violated_props else [])})
        log("model %s/%s: %s, %d distinct states, %.1fs" % (module, cfg, expect, r.distinct, r.wall))
    v.coverage["states"] = v.coverage.get("states", 0) + states
    v.coverage["transitions"] = v.coverage.get("transitions", 0) + transitions
    v.coverage.setdefault("model_configs", []).extend(done)
    return done


def harness_traces(cmd, tier, shards=8, extra_args=None, env=None, race=False, replay=None, name=None, timeout=3600):
    out = vflib.sub(name or cmd)
    args = [cmd, "-tier", tier, "-seed", vflib.seed(), "-out", out, "-shards", shards]
    if replay:
        args += ["-replay", replay]
    if extra_args:
        args += extra_args
    p = vflib.run_harness(args, env=env, race=race, timeout=timeout)
    try:
        summ = json.loads(p.stdout.strip().splitlines()[-1])
    except Exception:
        raise vflib.Infra("harness %s produced no summary:\n%s\n%s" % (cmd, p.stdout[-2000:], p.stderr[-2000:]))
    return summ


def validate(v, module, cfg, summ, keyfn, env=None, heap="3g", deque=False, prop=None):
    """Validate the harness' shards; report each mismatch of this property under keyfn's key."""
    files = summ["files"]
    if not files:
        raise vflib.Infra("harness wrote no trace")
    results, mismatches = vflib.validate_shards(module, cfg, files, env=env, heap=heap, deque=deque)
    consumed = sum(r.distinct - 1 for r in results)
    if consumed != summ["records"]:
        raise vflib.Infra("trace validation consumed %d of %d records" % (consumed, summ["records"]))
    n = 0
    for f, t in mismatches:
        # <<"MISMATCH", l, prop, conjunct, got, want>>
        line, p, conj = t[1], t[2], t[3]
        if p != (prop or v.prop):
            continue
        rec = line_of(f, line)
        key = keyfn(conj, rec)
        if key is None:
            continue
        n += 1
        rp = os.path.join(vflib.sub("replay"), "rec-%d.ndjson" % n)
        vflib.write_ndjson(rp, [rec])
        v.report(key, [rp], {"conjunct": conj, "got": t[4], "want": t[5], "record": rec,
                             "replay_cmd": "tools/vf check %s --replay <this dir>/%s" % (v.prop, os.path.basename(rp))})
    v.coverage["traces_validated_against_impl"] = v.coverage.get("traces_validated_against_impl", 0) + len(files)
    v.coverage["events_validated"] = v.coverage.get("events_validated", 0) + consumed
    v.coverage["evaluations"] = v.coverage.get("evaluations", 0) + summ["records"]
    v.coverage["distinct_nontrivial"] = v.coverage.get("distinct_nontrivial", 0) + summ.get("distinct", 0)
    v.coverage.setdefault("samples", []).extend(summ.get("samples", [])[:4])
    if summ.get("counts"):
        c = v.coverage.setdefault("classes", {})
        for k, n_ in summ["counts"].items():
            c[k] = c.get(k, 0) + n_
    return mismatches


def replay_file(replay):
    """--replay accepts a replay directory or an ndjson file."""
    if os.path.isdir(replay):
        fs = sorted(f for f in os.listdir(replay) if f.endswith(".ndjson"))
        if not fs:
            raise vflib.Infra("no ndjson in " + replay)
        return os.path.join(replay, fs[0])
    return replay


def kept_pass(v, tier):
    """Real-driver pass shared by C03 and C17: every reply-bearing operation over each delivery path, the result kept while
    1..4 further exchanges pass through the transport, then projected again (Trace_Api!CheckKept)."""
    from .c05 import export
    layouts, _ = export()
    summ = harness_traces("c17net", tier, shards=2, extra_args=["-x", "layouts=" + layouts], timeout=1800)
    validate(v, "Trace_Api", "Trace_Api.cfg", summ, lambda conj, rec: "%s:%s:%s" % (conj, rec["op"], rec["kept"]["path"] if "kept" in rec else rec.get("what")))
    v.coverage["kept_results"] = summ["records"]
    return summ
