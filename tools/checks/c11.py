"""C11 - discovery returns exactly the controllers that answered, despite network noise."""
import vflib
from vflib import Verdict
from . import common
from .c01 import api_replay

PROP = "C11"


def key(conj, rec):
    return "%s:rig%s:classes=%s:n=%d" % (conj, rec.get("rig", "S"), ",".join(rec.get("classes", [])), len(rec["ret"].get("v", [])) if rec["ret"]["t"] == "devices" else -1)


def run(tier, replay=None):
    from .c05 import export
    layouts, _ = export()
    env = {"TZ": "UTC"}
    v = Verdict(PROP, tier, "model_checking")
    v.replay_info = {"seed": vflib.seed(), "tier": tier}
    v.assumptions = [
        "two-sided formulation (DESIGN 4/C11): complete for datagrams that arrived strictly inside the window, sound in that every entry is the decoding of a well-formed datagram that had arrived; Rig L scripts keep datagrams within the first 60% of the window (the boundary is inherently fuzzy)",
        "Rig L records of a sealed-network run use the SENT list as the delivered list (loopback does not drop or reorder sequential sends of one goroutine); SentOK/RouteOK are skipped for them (the request went over a real socket)",
        "a reply whose date is decimal but not a calendar date may be dropped or reported with the zero date",
    ]
    if replay:
        import json, os
        info = json.load(open(os.path.join(replay, "info.json")))
        os.environ["VERIF_SEED"] = str(info.get("seed", vflib.seed()))
        summ = common.harness_traces("c11", info.get("tier", tier), shards=1, env=env, extra_args=["-x", "layouts=%s;only=%s" % (layouts, info["record"]["k"])])
        common.validate(v, "Trace_Api", "Trace_Api.cfg", summ, key)
        return v.finish(write_evidence=False)
    common.model_checks(v, [
        ("MC_Discovery", "MC_Discovery.cfg", {"workers": 8, "heap": "4g"}, "pass"),
        ("MC_Discovery", "XF_DiscoveryUnsync.cfg", {"workers": 4}, "fail"),
        ("MC_Discovery", "XF_DiscoveryRearm.cfg", {"workers": 2}, "fail"),
    ])
    summ = common.harness_traces("c11", tier, shards=8, env=env, extra_args=["-x", "layouts=%s;port=%d" % (layouts, 28600)], timeout=3600)
    common.validate(v, "Trace_Api", "Trace_Api.cfg", summ, key)
    v.coverage["rule"] = ("Rig S: every sequence of <=3 (quick) / <=4 (thorough) datagrams over {valid configured, valid other, duplicate, wrong length, wrong protocol id, wrong function code, non-decimal BCD date} + 300 random longer ones incl. calendar-impossible dates, "
                          "over 3 client configurations (broadcast port set / unset, padded names); Rig L: the real Broadcast() against a farm answering with random multisets inside the window and a late reply after it; two overlapping discoveries on one shared fixed bind port, each controller answering 0.5 T after being asked. distinct = sequences")
    v.coverage["checker_cmd"] = "tlc MC_Discovery; tlc Trace_Api (DiscoveryOK)"
    return v.finish()
