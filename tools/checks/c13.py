"""C13 - calendar dates and times keep their civil value in every time zone."""
import vflib
from vflib import Verdict
from . import common, zones
from .c05 import all_zones

PROP = "C13"
QUICK = ["UTC", "America/Santiago", "America/Havana", "America/Sao_Paulo", "Atlantic/Azores", "Asia/Beirut", "Africa/Cairo", "Pacific/Apia",
         "Etc/GMT-14", "Etc/GMT+12", "Asia/Kathmandu", "Australia/Lord_Howe", "Europe/London", "America/New_York", "Asia/Tehran", "Pacific/Chatham",
         "America/Asuncion", "Asia/Amman", "Asia/Damascus", "Asia/Gaza", "America/Scoresbysund", "Pacific/Kiritimati", "America/Bahia", "Africa/Casablanca", "Asia/Tokyo"]


def key(conj, rec):
    c = rec["civil"]
    if "y" not in c:      # (the expected value is 'no date': a document without one)
        return "%s:%s:zone=%s:class=%s:%s" % (conj, rec["op"], rec["zone"], rec.get("class"), c.get("t"))
    return "%s:%s:zone=%s:class=%s:%04d-%02d-%02d" % (conj, rec["op"], rec["zone"], rec.get("class"), c["y"], c["m"], c["d"])


def run(tier, replay=None):
    v = Verdict(PROP, tier, "model_checking")
    v.replay_info = {"seed": vflib.seed(), "tier": tier}
    v.assumptions = [
        "whether a civil day / time EXISTS in a zone is a fact of the tz database, which TLA+ does not contain: the harness logs it, computed with Go's time package by an independent route (construct at noon / at the clock reading, read the fields back) - trusted base",
        "the dates whose local midnight is removed by a transition (1900-2100) are found per zone by the harness via time.Time.ZoneBounds; (zone, day) pairs with no instant at all are logged with exists=false and exempt",
        "the specification owns the calendar and the wire form: reported value = civil value, wire = BCD digits of the civil value",
    ]
    zs = QUICK if tier == "quick" else all_zones()
    if replay:
        import json, os
        info = json.load(open(os.path.join(replay, "info.json")))
        zs = [info["record"]["zone"] or "UTC"]
    m = zones.per_zone("c13", tier, zs, lambda i, z: "n=%d" % (60 if tier == "quick" else 200))
    common.validate(v, "Trace_Pure", "Trace_Pure.cfg", m, key)
    v.coverage["zones"] = len(zs)
    v.coverage["midnight_gap_days_found"] = sum((e or {}).get("midnight_gap_days", 0) for e in m["extras"])
    v.coverage["rule"] = ("per zone (quick: 25 zones incl. every known midnight-gap zone family, fixed-offset extremes, half-hour zones; thorough: every TZif zone): all days whose local midnight is skipped 1900-2100, their neighbours, entirely skipped days, the days of ordinary offset changes (quick: the latest 24 + 24 random per zone; thorough: all), boundaries 0001/9999, random days - "
                          "through ToDate, ParseDate, wire decode, JSON decode, String, SystemDate decode, and five date-times per day (00:00:00, 12:00:00, 23:59:59, two random) through date-time decode and the date+time recombination of GetStatus and of the event listener. distinct = (zone, operation, civil value)")
    v.coverage["checker_cmd"] = "tlc Trace_Pure (CivilValue, CivilWire)"
    return v.finish(write_evidence=replay is None)
