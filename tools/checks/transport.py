"""Shared machinery of the transport properties (C03, C06, C08, C09): Transport.tla is model-checked,
its behaviours are exported as scripts (G), replayed on Rig L against the real driver on loopback,
and the recorded events are validated against Trace_Transport (V)."""
import glob
import json
import os
import re
import shutil
from concurrent.futures import ThreadPoolExecutor

import vflib
from vflib import log
from . import common

FIXED_GROUPS = {"G_flood_fixed", "G_bcast_fixed", "G_udp_fixed", "G_mixed_fixed", "G_c08_fixed", "G_c08_4", "G_c08_tcp", "G_c08_udp2"}
PROP_OFFSET = {"C03": 0, "C06": 200, "C08": 400, "C09": 600}
PORT_BASE = {"G_flood_fixed": 26000, "G_bcast_fixed": 21000, "G_udp_fixed": 22000, "G_mixed_fixed": 23000, "G_c08_fixed": 24000, "G_c08_4": 25000, "G_c08_tcp": 27000, "G_c08_udp2": 29000}


def generate(group, n, seed, outdir):
    os.makedirs(outdir, exist_ok=True)
    r = vflib.tlc("MC_TransportGen", group + ".cfg", workers=1, heap="2g", timeout=900,
                  env={"VF_OUT": outdir, "VF_GROUP": group},
                  extra=["-simulate", "num=%d" % n, "-depth", "90", "-seed", str(seed)])
    files = sorted(glob.glob(os.path.join(outdir, "beh_%s_*.ndjson" % group)))
    if not files:
        raise vflib.Infra("no scripts generated for %s:\n%s" % (group, r.out[-2000:]))
    return files


def flood_scripts(group, outdir, n):
    """Hand-made behaviours of Transport.tla (they are validated like any other): a call under a continuous
    flood of irrelevant datagrams until its deadline - alone (must time out at T, not later, not earlier)
    or with the genuine reply arriving at T-1 (must be accepted)."""
    import random
    rnd = random.Random(vflib.seed())
    os.makedirs(outdir, exist_ok=True)
    fixed = group.endswith("fixed")
    hdr = {"a": "Cfg", "T": 3, "fixed": fixed, "group": group,
           "calls": {"a": {"path": "bcast", "kind": "normal", "ctl": "S1"}, "b": {"path": "bcast", "kind": "status", "ctl": "S2"}}}
    for i in range(max(4, n // 6)):
        c = rnd.choice(["a", "b"])
        other = "b" if c == "a" else "a"
        timely = i % 2 == 1
        plan = [["valid", 2]] if timely else [["silence", 0]]
        lines = [hdr, {"a": "Enter", "c": c, "t": 0}, {"a": "Send", "c": c, "t": 0, "plan": plan}]
        per = [4, 16, 40, 70][i % 4]   # up to 140 ignored datagrams ahead of the genuine reply
        for rel in range(3):
            for _ in range(per):
                if timely and rel == 2:
                    break
                lines.append({"a": "Stray", "c": c, "t": rel, "rel": rel, "cls": rnd.choice(["badlen", "badserial", "serial0"])})
        lines.append({"a": "Return", "c": c, "t": 2 if timely else 3, "kind": "ok" if timely else "timeout", "cls": "valid" if timely else "none",
                      "from": c if timely else "none", "rel": 2 if timely else 3})
        # the other call follows, answered at once
        lines += [{"a": "Enter", "c": other, "t": 1}, {"a": "Send", "c": other, "t": 3, "plan": [["valid", 0]]},
                  {"a": "Return", "c": other, "t": 3, "kind": "ok", "cls": "valid", "from": other, "rel": 0}]
        vflib.write_ndjson(os.path.join(outdir, "beh_%s_%d.ndjson" % (group, i)), lines)


WRONG_LENGTHS = [0, 1, 2, 7, 8, 9, 32, 63, 65, 66, 127, 128, 129, 1023, 1024, 2047, 2048, 2049, 4096]


def length_scripts(group, outdir):
    """Hand-made behaviours of Transport.tla (validated like any other): one call answered by a datagram of each wrong
    length in turn, followed one tick later by the genuine reply - the broadcast path must skip the first and accept the
    second, the directed paths must fail on the first."""
    os.makedirs(outdir, exist_ok=True)
    calls = {"G_bcast_eph": {"a": {"path": "bcast", "kind": "normal", "ctl": "S1"}, "b": {"path": "bcast", "kind": "status", "ctl": "S2"}},
             "G_udp_eph": {"a": {"path": "udp", "kind": "normal", "ctl": "S1"}, "b": {"path": "udp", "kind": "status", "ctl": "S2"}},
             "G_tcp_eph": {"a": {"path": "tcp", "kind": "normal", "ctl": "S1"}, "b": {"path": "tcp", "kind": "setaddr", "ctl": "S2"}}}[group]
    hdr = {"a": "Cfg", "T": 3, "fixed": False, "group": group, "calls": calls}
    bcast = calls["a"]["path"] == "bcast"
    lens = WRONG_LENGTHS + ([-32, -1, -63] if calls["a"]["path"] == "tcp" else [])    # tcp: the genuine reply split in two segments
    for i, n in enumerate(lens):
        c = "a" if (i % 2 == 0 or calls["b"]["kind"] == "setaddr") else "b"
        plan = [["badlen", 0]] if calls["a"]["path"] == "tcp" else [["badlen", 0], ["valid", 1]]     # G_tcp_eph: MaxReplies = 1
        lines = [hdr, {"a": "Enter", "c": c, "t": 0}, {"a": "Send", "c": c, "t": 0, "plan": plan, "lens": [n]}]
        if bcast:
            lines.append({"a": "Return", "c": c, "t": 1, "kind": "ok", "cls": "valid", "from": c, "rel": 1})
        else:
            lines.append({"a": "Return", "c": c, "t": 0, "kind": "fail", "cls": "badlen", "from": c, "rel": 0})
        vflib.write_ndjson(os.path.join(outdir, "beh_%s_len%s.ndjson" % (group, str(n).replace("-", "split"))), lines)


ALL_CLASSES = ["valid", "badlen", "badserial", "serial0", "badcode", "badproto", "proto19", "malformed"]
GROUP_CALLS = {
    "G_bcast_eph": {"a": {"path": "bcast", "kind": "normal", "ctl": "S1"}, "b": {"path": "bcast", "kind": "status", "ctl": "S2"}},
    "G_udp_eph": {"a": {"path": "udp", "kind": "normal", "ctl": "S1"}, "b": {"path": "udp", "kind": "status", "ctl": "S2"}},
    "G_tcp_eph": {"a": {"path": "tcp", "kind": "normal", "ctl": "S1"}, "b": {"path": "tcp", "kind": "setaddr", "ctl": "S2"}},
    "G_mixed_eph": {"a": {"path": "bcast", "kind": "normal", "ctl": "S1"}, "b": {"path": "udp", "kind": "setaddr", "ctl": "S2"}, "c": {"path": "tcp", "kind": "status", "ctl": "S3"}},
}


def class_scripts(group, outdir):
    """Hand-made behaviours of Transport.tla: every datagram class as the FIRST answer to an ordinary call and to a status
    call (the only function for which protocol id 0x19 is legitimate) on every path - followed, where the group allows two
    replies, by the genuine reply one tick later. What Recv does with each class is the model's Verdict()."""
    os.makedirs(outdir, exist_ok=True)
    calls = GROUP_CALLS[group]
    hdr = {"a": "Cfg", "T": 3, "fixed": False, "group": group, "calls": calls}
    two = group in ("G_bcast_eph", "G_udp_eph")
    for c, cfg in sorted(calls.items()):
        if cfg["kind"] == "setaddr" or (group == "G_mixed_eph" and c != "c"):
            continue
        for cls in ALL_CLASSES:
            plan = [[cls, 0], ["valid", 1]] if two else [[cls, 0]]
            lines = [hdr, {"a": "Enter", "c": c, "t": 0}, {"a": "Send", "c": c, "t": 0, "plan": plan}]
            vflib.write_ndjson(os.path.join(outdir, "beh_%s_cls_%s_%s.ndjson" % (group, c, cls)), lines)


def slow_handshake_script(outdir):
    """Hand-made behaviour of Transport.tla for G_tcp_eph: the TCP handshake completes only on the kernel's SYN retransmission
    (1 s; the peer's accept queue is full at first), then the peer reads the request and stalls. One tick = 400 ms, T = 3 ticks:
    the connection is established in tick 2, and the call must still time out in tick 3 of its dial (one absolute deadline)."""
    os.makedirs(outdir, exist_ok=True)
    g = "G_tcp_eph"
    hdr = {"a": "Cfg", "T": 3, "fixed": False, "group": g, "tick_ms": 400, "calls": GROUP_CALLS[g]}
    lines = [hdr, {"a": "Enter", "c": "a", "t": 0}, {"a": "Send", "c": "a", "t": 0, "plan": [["slowstall", 2]]}]
    vflib.write_ndjson(os.path.join(outdir, "beh_%s_slowhandshake.ndjson" % g), lines)


def fault_then_next_scripts(outdir):
    """Hand-made behaviours of Transport.tla for G_mixed_fixed (a: bcast S1, b: udp set-address S2, c: tcp status S3 on one
    fixed bind port): the TCP call meets each peer fault in turn, and the calls that queue behind it must be served
    normally afterwards - whatever an error path leaves behind (a lock, a socket) shows in the NEXT call."""
    os.makedirs(outdir, exist_ok=True)
    g = "G_mixed_fixed"
    hdr = {"a": "Cfg", "T": 3, "fixed": True, "group": g,
           "calls": {"a": {"path": "bcast", "kind": "normal", "ctl": "S1"}, "b": {"path": "udp", "kind": "setaddr", "ctl": "S2"}, "c": {"path": "tcp", "kind": "status", "ctl": "S3"}}}
    for fault in ("refused", "reset", "closed", "silence", "blackhole"):
        lines = [hdr, {"a": "Enter", "c": "c", "t": 0}, {"a": "Send", "c": "c", "t": 0, "plan": [[fault, 0]]},
                 {"a": "Enter", "c": "a", "t": 1}, {"a": "Enter", "c": "b", "t": 1},
                 {"a": "Send", "c": "a", "t": 1, "plan": [["valid", 1]]}, {"a": "Send", "c": "b", "t": 1, "plan": [["silence", 0]]}]
        vflib.write_ndjson(os.path.join(outdir, "beh_%s_fault_%s.ndjson" % (g, fault)), lines)


def rig(group, scripts_dir, layouts, parts, tick, race=False, out=None, seed=None, port_extra=0):
    out = out or vflib.sub("rigl-" + group)
    exe = vflib.build_harness(race)

    def one(i):
        env = dict(os.environ)
        if race:
            env["GORACE"] = "halt_on_error=0 exitcode=0 log_path=%s" % os.path.join(out, "race-%s-%d" % (group, i))
        args = ["rigl", "-seed", seed if seed is not None else vflib.seed(), "-out", out,
                "-x", "scripts=%s;layouts=%s;group=%s;part=%d/%d;tick=%d;port=%d" % (scripts_dir, layouts, group, i, parts, tick, PORT_BASE.get(group, 0) + PROP_OFFSET.get(os.environ.get("VF_PROP", ""), 800) + port_extra)]
        p = vflib.run_harness(args, env=env, race=race, timeout=1800)
        return json.loads(p.stdout.strip().splitlines()[-1])
    with ThreadPoolExecutor(max_workers=parts) as ex:
        summs = list(ex.map(one, range(parts)))
    merged = os.path.join(out, "trace-%s.ndjson" % group)
    extra = {"calls": 0, "fd_drift": 0, "goroutine_drift": 0}
    with open(merged, "w") as m:
        for s in summs:
            for f in s["files"]:
                m.write(open(f).read())
            extra["calls"] += s["extra"]["calls"]
            extra["fd_drift"] = max(extra["fd_drift"], s["extra"]["fds_after"] - s["extra"]["fds_before"])
            extra["goroutine_drift"] = max(extra["goroutine_drift"], s["extra"]["goroutines_after"] - s["extra"]["goroutines_before"])
    races = parse_races(glob.glob(os.path.join(out, "race-%s-*" % group))) if race else []
    return merged, extra, races, summs


def parse_races(files):
    """Race detector reports in which BOTH conflicting accesses are owned by library code: the owner of an access is the
    first frame of its stack that is not Go runtime / standard library code (a write made by reflect.Value.Set on behalf
    of the codec is the codec's). Races between harness code and itself are the harness' own business."""
    def owner(frames):
        for fr in frames:
            if fr.startswith("main."):                                  # the harness
                return fr
            if "/" in fr and "." in fr.split("/")[0]:                   # a module path that starts with a domain
                return fr
        return frames[0] if frames else ""
    races = []
    for f in files:
        txt = open(f).read()
        for block in txt.split("==================")[1:]:
            if "DATA RACE" not in block:
                continue
            owners = []
            for m in re.finditer(r"(?:Write|Read|Previous write|Previous read|Atomic[^\n]*) (?:at|of)[^\n]*\n((?:[ \t]+[^\n]+\n)+)", block):
                frames = [ln.strip() for ln in m.group(1).splitlines() if ln.strip() and not ln.strip().startswith("/") and not re.match(r"^\S+\.go:\d+", ln.strip())]
                owners.append(owner(frames))
            if len(owners) >= 2 and all("github.com/uhppoted/uhppote-core" in t for t in owners[:2]):
                races.append([t.rsplit("(", 1)[0] for t in owners[:2]])
    return races


def validate(group, trace):
    r = vflib.tlc("Trace_Transport", group + "_trace.cfg", workers=1, heap="4g", timeout=1800, deque=True, env={"VF_TRACE": trace})
    if not r.finished or r.errors:
        raise vflib.Infra("trace validation of %s broke:\n%s" % (group, r.out[-3000:]))
    reached = {}
    for t in r.tuples("REACHED"):
        reached[t[1]] = (t[2], t[3])
    return r, reached


def first_unmatched(scn, consumed):
    ev = scn["ev"]
    if consumed < len(ev):
        e = ev[consumed]
        return "%s(%s)" % (e.get("ev"), ",".join("%s=%s" % (k, e[k]) for k in sorted(e) if k in ("c", "kind", "cls", "rel", "via", "nth", "srcok", "from")))
    return "end"


def run_groups(v, groups, n, tick=50, race=False, parts_fixed=6, classify=None, lengths=False):
    """Generate, replay and validate the given groups. Rejected scenarios are re-run in isolation
    (3 times, 3x tick); they are reported only if they are rejected again at least once."""
    from .c05 import export
    layouts, _ = export()
    vflib.build_harness(race)
    sdir = vflib.sub("scripts")
    os.environ["VF_PROP"] = v.prop
    with ThreadPoolExecutor(max_workers=8) as ex:
        list(ex.map(lambda g: flood_scripts(g, sdir, n) if g.startswith("G_flood") else generate(g, n, vflib.seed() + 17, sdir), groups))
    if "G_mixed_fixed" in groups:
        fault_then_next_scripts(sdir)
    if "G_tcp_eph" in groups:
        slow_handshake_script(sdir)
    if lengths:
        for g in groups:
            if g in ("G_bcast_eph", "G_udp_eph", "G_tcp_eph"):
                length_scripts(g, sdir)
            if g in GROUP_CALLS:
                class_scripts(g, sdir)
    total = {"scenarios": 0, "accepted": 0, "rejected": 0, "calls": 0, "unreproduced": 0, "states": 0, "transitions": 0}
    drift = {"fd": 0, "goroutines": 0}
    samples = []
    allraces = []

    # phase 1: all rigs (real time: nothing CPU-hungry runs alongside); phase 2: all validations
    def do_rig(g):
        parts = parts_fixed if g in FIXED_GROUPS else 2
        trace, extra, races, _ = rig(g, sdir, layouts, parts, tick, race=race)
        return g, trace, extra, races

    with ThreadPoolExecutor(max_workers=3) as ex:
        rigged = list(ex.map(do_rig, groups))

    def do_val(x):
        g, trace, extra, races = x
        r, reached = validate(g, trace)
        return g, trace, extra, races, r, reached

    with ThreadPoolExecutor(max_workers=6) as ex:
        results = list(ex.map(do_val, rigged))

    for g, trace, extra, races, r, reached in results:
        scns = {s["id"]: s for s in vflib.read_ndjson(trace)}
        total["scenarios"] += len(scns)
        total["calls"] += extra["calls"]
        total["states"] += r.distinct
        total["transitions"] += r.generated
        drift["fd"] = max(drift["fd"], extra["fd_drift"])
        drift["goroutines"] = max(drift["goroutines"], extra["goroutine_drift"])
        allraces.extend(races)
        if len(samples) < 3 and scns:
            samples.append(next(iter(scns.values())))
        rejected = []
        for sid, s in scns.items():
            consumed, length = reached.get(sid, (0, len(s["ev"])))
            if consumed >= length and not s.get("hung"):
                total["accepted"] += 1
            else:
                rejected.append((sid, s, consumed))
        if not rejected:
            continue
        # re-run rule: the rejected scenarios (at most 10) are run again in isolation at 3x tick (then 5x). Every
        # scenario carries a timing self-check (how late a 1 ms sleeper woke up while it ran): an attempt whose own
        # clockwork was disturbed by more than 15% of a tick proves nothing and does not count. A scenario is reported
        # only if an UNDISTURBED attempt is rejected again.
        rejected = rejected[:10]
        again = {sid: 0 for sid, _, _ in rejected}
        clean_ok = {sid: 0 for sid, _, _ in rejected}
        last = {}

        def attempt(k):
            one = vflib.sub("rerun-%s-%d" % (g, k))
            for sid, _, _ in rejected:
                shutil.copy(os.path.join(sdir, sid + ".ndjson"), one)
            os.environ["VF_PROP"] = v.prop
            t2, _, _, _ = rig(g, one, layouts, min(len(rejected), 4) if g in FIXED_GROUPS else 1, tick * (3 if k < 3 else 5), race=False, out=one,
                              seed=vflib.seed() + k + 1, port_extra=50 + 20 * k)
            return t2

        def judge(t2):
            _, re2 = validate(g, t2)
            for s2 in vflib.read_ndjson(t2):
                c2, l2 = re2.get(s2["id"], (0, len(s2["ev"])))
                disturbed = s2.get("jitter_us", 0) > 0.15 * s2.get("tick_us", 1 << 40)
                if c2 < l2 or s2.get("hung"):
                    if disturbed:
                        log("re-run of %s disturbed (wake-ups up to %.1f ms late at a %d ms tick): does not count" % (s2["id"], s2.get("jitter_us", 0) / 1000.0, s2.get("tick_us", 0) // 1000))
                        continue
                    again[s2["id"]] += 1
                    last[s2["id"]] = (s2, c2, t2)
                elif not disturbed:
                    clean_ok[s2["id"]] += 1
        for k in range(3):
            judge(attempt(k))
        # scenarios without any undisturbed verdict yet: up to three more attempts at 5x tick, one at a time
        for k in range(3, 6):
            if all(again[sid] + clean_ok[sid] > 0 for sid, _, _ in rejected):
                break
            judge(attempt(k))
        # a single undisturbed rejection is not yet a verdict (on a machine with a load average of 90 one attempt out of many
        # was rejected for a behaviour-preserving change although its own clockwork looked fine): such scenarios get up to
        # two more attempts, and a scenario is reported only if it was rejected in at least two undisturbed attempts and in
        # more of them than it was accepted in - correct code is not rejected twice, a defect is rejected every time
        for k in range(6, 8):
            if not any(again[sid] == 1 or (again[sid] >= 1 and clean_ok[sid] >= again[sid]) for sid, _, _ in rejected):
                break
            judge(attempt(k))
        for sid, s, consumed in rejected:
            if again[sid] < 2 or again[sid] <= clean_ok[sid]:
                total["unreproduced"] += 1
                log("scenario %s rejected (%s) in %d isolated undisturbed re-run(s), accepted in %d: not a verdict, ignored" % (sid, first_unmatched(s, consumed), again[sid], clean_ok[sid]))
                continue
            total["rejected"] += 1
            s2, c2, t2 = last[sid]
            what = first_unmatched(s2, c2)
            key = "%s:%s" % (g, what)
            if classify:
                key = classify(g, s2, c2, key)
                if key is None:
                    continue
            script = os.path.join(sdir, sid + ".ndjson")
            one_trace = os.path.join(vflib.sub("rej"), sid + "-trace.ndjson")
            vflib.write_ndjson(one_trace, [s2])
            v.report(key, [script, one_trace], {"group": g, "scenario": sid, "consumed": c2, "events": s2["ev"], "first_unmatched": what,
                                                "reproduced": "rejected in %d undisturbed re-runs, accepted in %d" % (again[sid], clean_ok[sid]), "tick_ms": tick * 3,
                                                "replay_cmd": "tools/vf check %s --replay <this dir>" % v.prop})
    cov = v.coverage
    cov["states"] = cov.get("states", 0) + total["states"]
    cov["transitions"] = cov.get("transitions", 0) + total["transitions"]
    cov["traces_validated_against_impl"] = cov.get("traces_validated_against_impl", 0) + total["scenarios"]
    cov["scenarios_accepted"] = cov.get("scenarios_accepted", 0) + total["accepted"]
    cov["scenarios_rejected"] = cov.get("scenarios_rejected", 0) + total["rejected"]
    cov["calls_on_real_sockets"] = cov.get("calls_on_real_sockets", 0) + total["calls"]
    cov["evaluations"] = cov.get("evaluations", 0) + total["calls"]
    cov["distinct_nontrivial"] = cov.get("distinct_nontrivial", 0) + total["scenarios"]
    cov.setdefault("samples", []).extend(samples[:2])
    cov["groups"] = sorted(set(cov.get("groups", []) + list(groups)))
    v.unreproduced += total["unreproduced"]
    return total, drift, allraces


def replay(v, path):
    """--replay <dir>: re-run the saved script on the current tree and validate again."""
    from .c05 import export
    layouts, _ = export()
    info = json.load(open(os.path.join(path, "info.json")))
    if "group" not in info:
        # a record of one of the real-driver passes (kept results / FatalFirst / Requests, the discovery and silent-controller
        # accounting, the gate): the pass is run again on the current tree and validated again
        from . import common
        rec = info.get("record", {})
        tier = info.get("tier", "quick")
        if "gate" in rec:
            summ = common.harness_traces("c08gate", tier, shards=2, extra_args=["-x", "layouts=%s;port=%d" % (layouts, 28400)], timeout=1800)
            common.validate(v, "Trace_Api", "Trace_Api.cfg", summ, lambda conj, r: "%s:%s:%s" % (conj, r["gate"]["scenario"], r["gate"]["role"]))
        elif rec.get("op") in ("Quiesce", "Window"):
            summ = common.harness_traces("c09disc", tier, shards=1, extra_args=["-x", "layouts=" + layouts], timeout=1800)
            common.validate(v, "Trace_Api", "Trace_Api.cfg", summ, lambda conj, r: "%s:%s" % (conj, r.get("what")))
        else:
            common.kept_pass(v, tier)
        return v.finish(write_evidence=False)
    g = info["group"]
    script = [f for f in glob.glob(os.path.join(path, "beh_*.ndjson"))]
    if not script:
        raise vflib.Infra("no script in " + path)
    one = vflib.sub("replay-one")
    shutil.copy(script[0], one)
    bad = 0
    for k in range(3):
        t2, _, _, _ = rig(g, one, layouts, 1, info.get("tick_ms", 120), out=vflib.sub("replay-out-%d" % k), seed=vflib.seed() + k)
        _, re2 = validate(g, t2)
        s2 = vflib.read_ndjson(t2)[0]
        c2, l2 = re2.get(s2["id"], (0, len(s2["ev"])))
        if c2 < l2 or s2.get("hung"):
            bad += 1
            v.report("%s:%s" % (g, first_unmatched(s2, c2)), [script[0], t2], dict(info, consumed=c2, events=s2["ev"]))
            break
    return v.finish(write_evidence=False)
