"""Run a harness command once per time zone (child process with TZ set) and merge the traces."""
import os
from concurrent.futures import ThreadPoolExecutor

import vflib
from . import common


def per_zone(cmd, tier, zones, extra, nshards=16):
    vflib.build_harness()

    def one(iz):
        i, z = iz
        return common.harness_traces(cmd, tier, shards=1, env={"TZ": z}, name="%s-z%d" % (cmd, i), extra_args=["-x", extra(i, z)] if extra else None)
    with ThreadPoolExecutor(max_workers=12) as ex:
        summs = list(ex.map(one, enumerate(zones)))
    merged = {"files": [], "records": 0, "distinct": 0, "samples": [], "counts": {}, "extras": []}
    outs = [open(os.path.join(vflib.sub(cmd + "-merged"), "m-%02d.ndjson" % i), "w") for i in range(nshards)]
    for i, s in enumerate(summs):
        for f in s["files"]:
            with open(f) as fh:
                outs[i % nshards].write(fh.read())
        merged["records"] += s["records"]
        merged["distinct"] += s["distinct"]
        if i < 3:
            merged["samples"].extend(s["samples"][:2])
        for k, c in s.get("counts", {}).items():
            merged["counts"][k] = merged["counts"].get(k, 0) + c
        merged["extras"].append(s.get("extra"))
    for o in outs:
        o.close()
    merged["files"] = [o.name for o in outs if os.path.getsize(o.name) > 0]
    return merged
