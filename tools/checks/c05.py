"""C05 - encoding and decoding are mutually inverse for every message type (all time zones)."""
import json
import os

import vflib
from vflib import Verdict
from . import common

PROP = "C05"

QUICK_ZONES = ["UTC", "America/Santiago", "Asia/Kathmandu", "Pacific/Apia", "Etc/GMT-14", "Etc/GMT+12", "Europe/London",
               "America/Havana", "Australia/Lord_Howe", "America/Sao_Paulo", "Asia/Tehran", "Atlantic/Azores"]


def all_zones():
    zs = []
    root = "/usr/share/zoneinfo"
    for d, _, fs in os.walk(root):
        for f in fs:
            p = os.path.join(d, f)
            rel = os.path.relpath(p, root)
            if rel.startswith(("posix/", "right/")) or "." in f or f in ("leapseconds", "tzdata.zi", "zone.tab", "zone1970.tab", "iso3166.tab", "leap-seconds.list", "posixrules", "localtime", "Factory"):
                continue
            try:
                with open(p, "rb") as fh:
                    if fh.read(4) == b"TZif":
                        zs.append(rel)
            except OSError:
                pass
    return sorted(zs)


def export():
    d = vflib.sub("export")
    lay, slack = os.path.join(d, "layouts.json"), os.path.join(d, "slack.json")
    if not os.path.exists(slack):
        r = vflib.tlc("MC_Export", "MC_Export.cfg", workers=1, env={"VF_OUT": lay, "VF_OUT_SLACK": slack})
        if not r.clean or not os.path.exists(slack):
            raise vflib.Infra("export failed:\n" + r.out[-2000:])
    return lay, slack


def key(conj, rec):
    if rec["fn"] == "dispatch":
        return "%s:dispatch:%s:code=%d:len=%d:som=%d" % (conj, rec["dir"], rec["code"], rec["len"], rec["som"])
    if rec["fn"] == "rt":
        bad = []
        for which in ("dec", "dec3", "dec2"):
            d = rec.get(which, {})
            if d.get("t") == "ok":
                for k, v in rec["vals"].items():
                    if d["v"].get(k) != v:
                        cls = "zero" if isinstance(v, dict) and v.get("t") == "zero" else "value"
                        bad.append("%s(%s)" % (k, cls))
                break
        return "%s:%s:%s:tz=%s" % (conj, rec["type"], ",".join(sorted(set(bad))) or rec["enc"]["t"], rec.get("tz"))
    if rec["fn"] == "hold":
        return "%s:hold:%s:%s" % (conj, rec["dir"], rec["type"])
    return "%s:%s" % (conj, rec["fn"])


def run(tier, replay=None):
    _, slack = export()
    if replay:
        info = json.load(open(os.path.join(replay, "info.json")))
        v = Verdict(PROP, info.get("tier", tier), "model_checking")
        os.environ["VERIF_SEED"] = str(info.get("seed", vflib.seed()))
        rec = info["record"]
        summ = common.harness_traces("c05", info.get("tier", tier), shards=1, env={"TZ": rec.get("tz") or "UTC"},
                                     extra_args=["-x", "slack=%s;dispatch=%s;only=%s" % (slack, "1" if rec["fn"] in ("dispatch", "hold") else "0", rec["k"])])
        common.validate(v, "Trace_Codec", "Trace_Codec.cfg", summ, key)
        return v.finish(write_evidence=False)
    v = Verdict(PROP, tier, "model_checking")
    v.replay_info = {"seed": vflib.seed(), "tier": tier}
    v.assumptions = [
        "spec/Messages.tla + spec/Wire.tla are the protocol; slack byte positions are computed by TLC (Wire!SlackBytes) and handed to the harness",
        "in-domain values are generated per Go field type by reflection; a civil date-time that does not exist in the process zone is not generated",
        "one harness child process per time zone (TZ environment variable)",
    ]
    common.model_checks(v, [("MC_Wire", "MC_Wire.cfg", {"workers": 1}, "pass")])
    zones = QUICK_ZONES if tier == "quick" else all_zones()
    n = 25 if tier == "quick" else 12
    v.coverage["zones"] = len(zones)
    summs = []
    from concurrent.futures import ThreadPoolExecutor

    def one(iz):
        i, z = iz
        return common.harness_traces("c05", tier, shards=1, env={"TZ": z}, name="c05-%d" % i,
                                     extra_args=["-x", "slack=%s;dispatch=%s;n=%d" % (slack, "1" if i == 0 else "0", n)])
    vflib.build_harness()
    with ThreadPoolExecutor(max_workers=12) as ex:
        summs = list(ex.map(one, enumerate(zones)))
    # merge per-zone traces into <=16 shards
    merged = {"files": [], "records": 0, "distinct": 0, "samples": [], "counts": {}}
    nsh = 16
    outs = [open(os.path.join(vflib.sub("c05-merged"), "m-%02d.ndjson" % i), "w") for i in range(nsh)]
    for i, s in enumerate(summs):
        for f in s["files"]:
            with open(f) as fh:
                outs[i % nsh].write(fh.read())
        merged["records"] += s["records"]
        merged["distinct"] += s["distinct"]
        if i < 3:
            merged["samples"].extend(s["samples"][:2])
        for k, c in s.get("counts", {}).items():
            merged["counts"][k] = merged["counts"].get(k, 0) + c
    for o in outs:
        o.close()
    merged["files"] = [o.name for o in outs if os.path.getsize(o.name) > 0]
    common.validate(v, "Trace_Codec", "Trace_Codec.cfg", merged, key)
    v.coverage["rule"] = ("per time zone (quick: 12 zones incl. midnight-gap and half-hour zones; thorough: every TZif zone under /usr/share/zoneinfo): N generated in-domain values of each of the 65 message types "
                          "(zero date / date-time included) marshalled, unmarshalled (Unmarshal and UnmarshalAs), and unmarshalled again after flipping slack bytes; "
                          "dispatch: all 256 function codes x lengths {0,1,2,63,64,65,128} (+0..128) x protocol ids {0x17,0x19,0x00,0xff} for both dispatchers. distinct = (type, sample, zone)")
    v.coverage["checker_cmd"] = "tlc Trace_Codec (VF_TRACE=<shard>)"
    return v.finish()
