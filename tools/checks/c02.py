"""C02 - replies are interpreted exactly as the protocol defines, sentinels included."""
import os

import vflib
from vflib import Verdict
from . import common
from .c01 import api_replay

PROP = "C02"


def export_layouts():
    from .c05 import export
    return export()[0]


def field_at(layouts, op, off):
    for f in layouts["rsp"][op]["fields"]:
        w = {"u8": 1, "bool": 1, "u16": 2, "version": 2, "hhmm": 2, "hhmmp": 2, "pin": 3, "sysdate": 3, "systime": 3,
             "u32": 4, "serial": 4, "ipv4": 4, "date": 4, "addrport": 6, "mac": 6, "datetime": 7}[f["kind"]]
        if f["off"] <= off < f["off"] + w:
            return f
    return None


def make_key(layouts):
    import json
    lt = json.load(open(layouts))

    def key(conj, rec):
        # identify the disagreement by operation + the out-of-domain fields of the reply (kind and bytes)
        op = rec["op"]
        if conj != "ResultOK" or not rec.get("delivered"):
            return "%s:%s:k=%s" % (conj, op, rec.get("k"))
        b = rec["delivered"][0]["b"]
        parts = []
        for f in lt["rsp"][op]["fields"]:
            if f["kind"] in ("hhmm", "hhmmp"):
                hh, mm = b[f["off"]], b[f["off"] + 1]
                if all(n <= 9 for n in (hh >> 4, hh & 15, mm >> 4, mm & 15)):
                    h, m = (hh >> 4) * 10 + (hh & 15), (mm >> 4) * 10 + (mm & 15)
                    if m == 60 and h <= 23:
                        parts.append("hhmm-minutes-60")
        tag = ",".join(sorted(set(parts))) or "k=%s" % rec.get("k")
        return "%s:%s:%s:ret=%s" % (conj, op, tag, rec["ret"]["t"])
    return key


def run(tier, replay=None):
    env = {"TZ": "UTC"}
    layouts = export_layouts()
    key = make_key(layouts)
    if replay:
        import json
        info = json.load(open(os.path.join(replay, "info.json")))
        v = Verdict(PROP, info.get("tier", tier), "model_checking")
        os.environ["VERIF_SEED"] = str(info.get("seed", vflib.seed()))
        tz = info["record"].get("tz")
        summ = common.harness_traces("c02", info.get("tier", tier), shards=1, env={"TZ": tz} if tz else env,
                                     extra_args=["-x", "layouts=%s;only=%s%s" % (layouts, info["record"]["k"], ";zonepass=1" if tz else (";poison=" + info["record"]["poison"]) if info["record"].get("poison") else "")])
        common.validate(v, "Trace_Api", "Trace_Api.cfg", summ, key)
        return v.finish(write_evidence=False)
    v = Verdict(PROP, tier, "model_checking")
    v.replay_info = {"seed": vflib.seed(), "tier": tier}
    v.assumptions = [
        "spec/Messages.tla reply layouts are the protocol; spec/Api.tla ResultOK is the interpretation (sentinels, domains, don't-cares listed in DESIGN 4/C02)",
        "replies are delivered through the scripted transport after a correct 4+4 byte header; TZ=UTC, plus a zone pass in two (thorough: six) zones with offset changes restricted to civil times that exist there (what a civil time inside a gap decodes to is C13's subject)",
        "don't-cares: system-date years 69..99, year 0000 dates, GetCardByID asked for and echoed 0xffffffff, PINs above 999999, GetDevice's derived port",
    ]
    common.model_checks(v, [("MC_Wire", "MC_Wire.cfg", {"workers": 1}, "pass")])
    summ = common.harness_traces("c02", tier, shards=16, env=env, extra_args=["-x", "layouts=" + layouts], timeout=7200)
    common.validate(v, "Trace_Api", "Trace_Api.cfg", summ, key, prop=PROP)
    # poison pass: one fresh process per k; in each, the first reply ever decoded for every reply type is refused (field k outside
    # its domain / a stray), the next ten are well formed
    from concurrent.futures import ThreadPoolExecutor
    ks = range(8) if tier == "quick" else range(26)
    with ThreadPoolExecutor(max_workers=8) as ex:
        psumms = list(ex.map(lambda k: common.harness_traces("c02", tier, shards=1, env=env, extra_args=["-x", "layouts=%s;poison=%d" % (layouts, k)], name="c02-poison-%d" % k), ks))
    merged = {"files": [f for p in psumms for f in p["files"]], "records": sum(p["records"] for p in psumms), "distinct": sum(p["distinct"] for p in psumms), "samples": [], "counts": {}}
    common.validate(v, "Trace_Api", "Trace_Api.cfg", merged, key, prop=PROP)
    # zone pass: the operations that carry dates / times, answered with replies whose calendar fields sit on the offset-change
    # days of a zone with DST (civil times that exist there), in a child process running in that zone
    zs = ["America/New_York", "Europe/London", "America/Santiago", "Australia/Lord_Howe", "Asia/Tehran", "Africa/Casablanca"]
    gaps = ["America/Santiago", "America/Havana", "America/Asuncion", "America/Sao_Paulo", "Asia/Beirut"]     # zones with days whose midnight is skipped
    pick = (zs + gaps) if tier == "thorough" else [zs[vflib.seed() % len(zs)], gaps[vflib.seed() % len(gaps)]]
    for z in pick:
        zsumm = common.harness_traces("c02", tier, shards=4, env={"TZ": z}, extra_args=["-x", "layouts=%s;zonepass=1" % layouts], timeout=3600, name="c02-zone-" + z.replace("/", "_"))
        common.validate(v, "Trace_Api", "Trace_Api.cfg", zsumm, key, prop=PROP)
    v.coverage["zone_pass"] = pick
    v.coverage["rule"] = ("per reply-bearing operation (30, GetDevices is C11's): well-formed replies with random field values, argument-echoing replies, sentinel patterns, "
                          "each field outside its domain / zero / random with the others valid, every byte of every field over all 256 values, random payloads; "
                          "date patterns (months 0..13 x days 0..32 x 6 years) in every date slot; HH:mm byte pairs (quick: the plausible quarter + samples, thorough: all 2^16). "
                          "poison pass: fresh processes in which the first reply per type is refused and the following ones are well formed; zone pass: GetStatus / GetTime / SetTime / GetEvent / GetCard* / GetTimeProfile / GetDevice with calendar fields on a DST zone's offset-change days, child process in that zone. distinct = distinct (arguments, reply bytes)")
    v.coverage["checker_cmd"] = "tlc Trace_Api (VF_TRACE=<shard>)"
    return v.finish()
