"""C01 - every request on the wire is exactly the protocol encoding of the call."""
import json
import os

import vflib
from vflib import Verdict
from . import common

PROP = "C01"


def key(conj, rec):
    return "%s:%s:k=%s" % (conj, rec["op"], rec.get("k"))


def _layouts():
    from .c05 import export
    return export()[0]


def api_replay(prop, cmd, module, cfg, tier, replay, keyfn, env):
    """Replay = deterministic regeneration of the recorded run (same seed / tier) filtered to the
    recorded sequence numbers, against the current tree, then validated again."""
    info = json.load(open(os.path.join(replay, "info.json"))) if os.path.isdir(replay) else json.load(open(replay))
    v = Verdict(prop, info.get("tier", tier), "model_checking")
    os.environ["VERIF_SEED"] = str(info.get("seed", vflib.seed()))
    ks = info.get("ks") or [info["record"]["k"]]
    summ = common.harness_traces(cmd, info.get("tier", tier), shards=1, env=env,
                                 extra_args=["-x", "layouts=%s;only=%s" % (_layouts(), ",".join(str(k) for k in ks))])
    common.validate(v, module, cfg, summ, keyfn)
    return v.finish(write_evidence=False)


def run(tier, replay=None):
    env = {"TZ": "UTC"}
    if replay:
        info = json.load(open(os.path.join(replay, "info.json"))) if os.path.isdir(replay) else {}
        if info.get("record", {}).get("op") in ("FatalFirst", "Requests") or "kept" in info.get("record", {}):
            from . import transport
            v = Verdict(PROP, info.get("tier", tier), "model_checking")
            return transport.replay(v, replay)      # a record of the real-driver pass: that pass is run again
        return api_replay(PROP, "c01", "Trace_Api", "Trace_Api.cfg", tier, replay, key, env)
    v = Verdict(PROP, tier, "model_checking")
    v.replay_info = {"seed": vflib.seed(), "tier": tier}
    v.assumptions = [
        "the protocol tables of spec/Messages.tla (frozen transcription of the pinned commit, cross-checked against the repository's golden vectors) are the protocol",
        "requests are observed at the transport boundary (the driver interface), i.e. what is handed to the network; that exactly these bytes reach the network is C06's Rig L run; that exactly ONE request reaches it is counted at the sockets of a loopback farm (real driver, every reply-bearing operation over each path, strays ahead of the reply on the broadcast path)",
        "TZ=UTC for the harness process: time-zone effects on dates are C13's subject",
        "dates are logged as the civil date the argument value holds (time.Time.Date() of the value)",
    ]
    common.model_checks(v, [("MC_Wire", "MC_Wire.cfg", {"workers": 1}, "pass")])
    from .c05 import export
    layouts, _ = export()
    summ = common.harness_traces("c01", tier, shards=16 if tier == "thorough" else 8, env=env, extra_args=["-x", "layouts=" + layouts])
    common.validate(v, "Trace_Api", "Trace_Api.cfg", summ, key)
    # "exactly one ... request reaches the network": counted at the sockets of a loopback farm, below the driver interface
    common.kept_pass(v, tier)
    v.coverage["rule"] = ("sequences of accepted calls on one client over three client configurations: all 32x32 ordered pairs of operations "
                          "(x2 rounds quick, x12 thorough), every one-byte argument through all 256 values, all HH:mm values (step 7 quick / 1 thorough) in every HH:mm slot, "
                          "random in-domain tuples per operation, bit-walks of the serial number of every operation; distinct = distinct (operation, argument tuple)")
    v.coverage["checker_cmd"] = "tlc Trace_Api (VF_TRACE=<shard>); tlc MC_Wire; tlc Trace_Api on the real-driver pass (ExactlyOneRequest)"
    return v.finish()
