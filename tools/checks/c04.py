"""C04 - nothing the network or the caller supplies can crash the library."""
import json
import os

import vflib
from vflib import Verdict
from . import common

PROP = "C04"


def key(conj, rec):
    if rec.get("fn") == "fuzz":
        return "%s:%s:%s:len=%s:%s" % (conj, rec["type"], rec["cls"], rec["len"], rec["first"].get("entry"))
    if rec.get("fn") in ("rt", "dispatch"):
        return "%s:%s:%s" % (conj, rec["fn"], rec.get("type", rec.get("code")))
    return "%s:%s:ret=%s:render=%s" % (conj, rec.get("op"), rec.get("ret", {}).get("t"), rec.get("render"))


def run(tier, replay=None):
    from .c05 import export
    layouts, _ = export()
    env = {"TZ": "UTC"}
    v = Verdict(PROP, tier, "model_checking")
    v.replay_info = {"seed": vflib.seed(), "tier": tier}
    if replay:
        info = json.load(open(os.path.join(replay, "info.json")))
        os.environ["VERIF_SEED"] = str(info.get("seed", vflib.seed()))
        tier = info.get("tier", tier)
    v.assumptions = [
        "panics are observed by recover() in the harness and logged as an outcome class; the specification's part is totality: every entry point has a non-panic outcome for every input",
        "decode entry points: codec.Unmarshal / UnmarshalAs / UnmarshalArrayElement for all 65 registered types, messages.UnmarshalRequest / UnmarshalResponse; all operations and the event handler on the scripted transport",
        "callbacks and channels are non-nil (as the property states)",
    ]
    summ = common.harness_traces("c04", tier, shards=8, env=env, extra_args=["-x", "layouts=" + layouts], timeout=7200)
    common.validate(v, "Trace_Codec", "Trace_Codec.cfg", summ, key)
    api = summ["extra"]["api"]
    common.validate(v, "Trace_Api", "Trace_Api.cfg", api, key)
    # (e) the field-by-field reply generator of C02 (every byte of every reply field over all 256 values, fields outside
    # their domain one at a time, sentinels, date and HH:mm patterns) through every operation, judged here for NoPanic /
    # RenderOK: an array indexed by a wire byte or a nil field behind a half-valid reply only fails for specific values
    byfield = common.harness_traces("c02", tier, shards=16, env=env, extra_args=["-x", "layouts=" + layouts], timeout=7200, name="c02-for-c04")
    common.validate(v, "Trace_Api", "Trace_Api.cfg", byfield, key)
    # (g) C07's argument generator (boundary card numbers x format lists, every AddrPort / net.IP shape, doors 0..255, passcode
    # lists, time profiles with missing / reversed segments): no argument tuple may crash an operation
    argsum = common.harness_traces("c07", tier, shards=8, env=env, timeout=7200, name="c07-for-c04")
    common.validate(v, "Trace_Api", "Trace_Api.cfg", argsum, key)
    # (f) byte strings of every length through the REAL driver on loopback (connected UDP, TCP, broadcast path, discovery,
    # the event listener; debug off and on): the receive buffers and the debug dump are not reachable through a stub
    net = common.harness_traces("c04net", tier, shards=2, env=env, extra_args=["-x", "layouts=" + layouts], timeout=3600)
    common.validate(v, "Trace_Codec", "Trace_Codec.cfg", net, key)
    fuzzed = sum(r.get("n", 0) for f in net["files"] for r in vflib.read_ndjson(f))
    for f in summ["files"]:
        for r in vflib.read_ndjson(f):
            fuzzed += r.get("n", 0)
    v.coverage["byte_strings_decoded"] = fuzzed
    v.coverage["evaluations"] = fuzzed + api["records"] + byfield["records"] + argsum["records"]
    v.coverage["rule"] = ("(a) per registered type (32 request, 31 reply, 2 event): byte strings of every length 0..80 and {127,128,129,255,256,1023,1024,1025,2047,2048} with contents zeros / 0xff / random / header+random / valid prefix / valid suffix, "
                          "and every single byte of a valid message over all 256 values, through every decode entry point + String/JSON of what was decoded (summarised per (type, class, length)); "
                          "(b) every operation answered by 1..3 arbitrary datagrams (7 classes); (c) extreme and random argument tuples incl. nil maps, nil/short IPs, zero / year-20000 / negative-year dates, out-of-range enums; "
                          "(d) 400 arbitrary datagrams through the event listener; (f) replies of every length 0..80 + selected lengths to 4096 x 5 content classes through the real driver on loopback (udp, tcp, broadcast, discovery, listener; debug off/on); (g) C07's argument generator through the operations; (e) C02's field-by-field reply generator through every operation, each result rendered with String (called directly and through fmt) and JSON. distinct = distinct (type/operation, class, length|sample)")
    v.coverage["checker_cmd"] = "tlc Trace_Codec; tlc Trace_Api (conjuncts NoPanic, RenderOK)"
    return v.finish(write_evidence=replay is None)
