"""C12 - BCD coding is exact, total on digit strings and rejects non-decimal nibbles."""
import vflib
from vflib import Verdict
from . import common

PROP = "C12"


def key(conj, rec):
    if rec["fn"] == "dec3":
        return "%s:dec3:%s" % (conj, rec["p"])
    return "%s:%s:%s" % (conj, rec["fn"], rec["in"])


def run(tier, replay=None):
    v = Verdict(PROP, tier, "model_checking")
    v.assumptions = [
        "TLC evaluates the specification operators of spec/Bcd.tla correctly",
        "strings reach the specification as their UTF-8 bytes; a digit is a byte 48..57",
        "the 3-byte exhaustive decode (thorough) is summarised by the harness per leading byte pair: accept set + 'digits echo %02x rendering' flag",
    ]
    if replay is None:
        cfg = "MC_Bcd_t.cfg" if tier == "thorough" else "MC_Bcd_q.cfg"
        common.model_checks(v, [("MC_Bcd", cfg, {"workers": 8, "heap": "6g"}, "pass")])
    summ = common.harness_traces("c12", tier, shards=12 if tier == "thorough" else 6,
                                 replay=common.replay_file(replay) if replay else None)
    common.validate(v, "Trace_C12", "Trace_C12.cfg", summ, key)
    v.coverage["rule"] = ("enc: all strings <=4 (quick) / <=5 (thorough) over {0-9,a,e-acute}, every byte value alone and inside digits; "
                          "dec: all byte strings <=2, length 3 over nibbles {0,5,9,A,F}, thorough: all 2^24 three-byte strings summarised; "
                          "random long inputs (position independence). distinct = distinct inputs")
    v.coverage["exhaustive"] = True
    v.coverage["checker_cmd"] = "tlc Trace_C12 (VF_TRACE=<shard>) ; tlc MC_Bcd"
    if replay is None:
        # optional strengthening (never a verdict about the code): TLAPS proofs of the specification-level laws
        pr = vflib.tlaps("BcdProofs")
        v.coverage["tlaps"] = {"module": "spec/proofs/BcdProofs.tla", "what": "per-byte exactness of the nibble arithmetic (two digits <-> one valid BCD byte, non-decimal nibbles invalid, Bcd2/ToBcd2 inverse)",
                               "obligations": pr[0] if pr else None, "proved": pr[1] if pr else None, "wall_s": pr[2] if pr else None,
                               "status": "all proved" if pr and pr[0] == pr[1] else "not discharged in this run (the claim then rests on the TLC bound)"}
    return v.finish(write_evidence=replay is None)
