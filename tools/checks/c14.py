"""C14 - JSON and text forms of the public types round-trip; bad text is rejected."""
import vflib
from vflib import Verdict
from . import common, zones
from .c05 import all_zones, QUICK_ZONES

PROP = "C14"


def key(conj, rec):
    if rec["fn"] == "json_rt":
        cls = "zero" if isinstance(rec["v"], dict) and rec["v"].get("t") == "zero" else "value"
        outcome = "/".join(str(rec[k].get("t")) for k in ("enc", "dec", "decm"))
        extra = ""
        if rec["type"] == "datetime" and rec["enc"].get("t") == "ok":
            extra = ":abbr=" + rec["enc"]["text"].strip('"').split(" ")[-1][:1]     # '+' / '-' / letter
        return "%s:%s:%s:%s:zone=%s%s" % (conj, rec["type"], cls, outcome, rec.get("zone"), extra)
    if rec["fn"] == "text":
        return "%s:%s:%s:%r" % (conj, rec["type"], rec["via"], rec["text"])
    return "%s:%s:%s:%r" % (conj, rec["fn"], rec.get("role"), rec.get("text"))


def run(tier, replay=None):
    v = Verdict(PROP, tier, "model_checking")
    v.replay_info = {"seed": vflib.seed(), "tier": tier}
    v.assumptions = [
        "equality is semantic: card doors by look-ups 1..4, weekdays by look-ups of the seven days (absent = false), segments by look-ups 1..3 (absent = zero), date-times by their instant, dates by civil value",
        "spec/Text.tla gives, per type, the texts that denote a value, those that must be rejected and the don't-cares (year 0000, non-strict HH:mm:ss shapes, texts merely containing a card-format name, quoted numbers as task types)",
        "date and date-time round trips run in one child process per time zone (date-times carry a zone abbreviation); everything else in UTC",
    ]
    if replay:
        import json, os
        info = json.load(open(os.path.join(replay, "info.json")))
        zs = [info["record"].get("zone") or "UTC"]
    else:
        zs = QUICK_ZONES if tier == "quick" else all_zones()
    m = zones.per_zone("c14", tier, zs, lambda i, z: "zoned=%d" % (0 if i == 0 else 1))
    common.validate(v, "Trace_Pure", "Trace_Pure.cfg", m, key)
    v.coverage["zones"] = len(zs)
    v.coverage["rule"] = ("JSON round trip into a fresh zero value and as a struct member for date, date-time (instants 1850-2100, every zone), HH:mm, PIN, card, time profile, weekdays, segments, task, task type (all 13), control state (all 3), version, MAC and the four address types; "
                          "text side: calendar-impossible and mis-shaped dates, HH:MM for HH 00..29 x MM 00..69, HH:mm:ss grid, PIN digit strings, control-state and task-type names / numbers 0..20, card-format names, address JSON violating each role's port rule. distinct = (zone, type, sample)")
    v.coverage["checker_cmd"] = "tlc Trace_Pure (JsonRoundTrip, JsonRoundTripAsMember, TextValue, TextReject, AcceptExact, Reject)"
    return v.finish(write_evidence=replay is None)
