"""C06 - each request is sent once, to the right endpoint, over the right transport."""
import vflib
from vflib import Verdict
from . import common, transport
from .c01 import api_replay

PROP = "C06"


def key(conj, rec):
    cfg = rec.get("cfg", {})
    tgt = [d for d in cfg.get("devices", []) if d["name"] == "target"]
    kind = "unconfigured"
    if tgt:
        a = tgt[0]["addr"]
        kind = "none" if not a["valid"] else "zeroip" if a["ip"] == [0, 0, 0, 0] else "port0" if a["port"] == 0 else "valid"
        kind += "/" + tgt[0]["proto"]
    return "%s:%s:target=%s:broadcast=%s:got=%s" % (conj, "GetDevices" if rec["op"] == "GetDevices" else "op", kind,
                                                   "set" if cfg.get("broadcast", {}).get("valid") else "unset", rec["route"].get("m"))


def run(tier, replay=None):
    env = {"TZ": "UTC"}
    v = Verdict(PROP, tier, "model_checking")
    v.replay_info = {"seed": vflib.seed(), "tier": tier}
    if replay:
        import os, json
        info = json.load(open(os.path.join(replay, "info.json")))
        if "group" in info or info.get("record", {}).get("op") in ("FatalFirst", "Requests") or "kept" in info.get("record", {}):
            return transport.replay(v, replay)
        return api_replay(PROP, "c06", "Trace_Api", "Trace_Api.cfg", tier, replay, key, env)
    v.assumptions = [
        "Rig S observes which transport method is invoked with which endpoint for every operation x configuration (incl. the 255.255.255.255:60000 default, which cannot be exercised on a sealed network)",
        "Rig L observes, at the farm, the transport and endpoint a request arrived on, its source address (bind address; the fixed port when one is configured), that it arrived once, and that decoy endpoints stay silent",
    ]
    common.model_checks(v, [("MC_Transport", "MC_Transport_t.cfg", {"workers": 8, "heap": "6g"}, "pass"),
                            # the directed UDP path is a CONNECTED socket: strangers' datagrams never reach the call
                            ("MC_Transport", "MC_Transport_udpstrays.cfg", {"workers": 4}, "pass"),
                            ("MC_Transport", "XF_UnconnectedUDP.cfg", {"workers": 4}, "fail")])
    from .c05 import export
    layouts0, _ = export()
    summ = common.harness_traces("c06", tier, shards=8, env=env, extra_args=["-x", "layouts=" + layouts0])
    common.validate(v, "Trace_Api", "Trace_Api.cfg", summ, key)
    v.coverage["configurations"] = summ["extra"]["configurations"]
    # the source address of every kind of request, seen from the farm (bind addresses 127.0.0.2 / 127.0.0.3)
    from .c05 import export
    layouts, _ = export()
    src = common.harness_traces("c06src", tier, shards=1, extra_args=["-x", "layouts=%s;port=%d" % (layouts, 28700)], timeout=600)
    common.validate(v, "Trace_Api", "Trace_Api.cfg", src, lambda conj, rec: "%s:%s:bind=%s" % (conj, rec["path"], rec["bind"]))
    # "exactly one request leaves per call" whatever the controller answers: the real-driver pass (a fatal datagram answering the
    # first request of every reply-bearing operation x path, a well-formed reply ready for any repeated one: NoSecondRequest)
    common.kept_pass(v, tier)
    groups = ["G_mixed_fixed", "G_mixed_eph", "G_udp_fixed"]
    n = 30 if tier == "quick" else 300
    transport.run_groups(v, groups, n)
    v.coverage["rule"] = ("Rig S: 32 operations x 270 client configurations ({unconfigured, no address, 0.0.0.0, port 0, valid, alternate port} x {udp,tcp,any,'',TCP} x 3 bind addresses x {broadcast unset, set, set with other port}), two other controllers always configured; "
                          "Rig L: %d behaviours per group with broadcast / connected UDP / TCP calls: arrival endpoint, source address, exactly-once, silent decoys; discovery / broadcast-to / connected UDP / TCP from bind addresses 127.0.0.2:0 and 127.0.0.3:<fixed>, the source seen by the farm (SourceIsBindAddress). distinct = (operation, configuration) + scenarios" % n)
    v.coverage["checker_cmd"] = "tlc Trace_Api (RouteOK, OneTransportCall); tlc Trace_Transport (TAsk: via/to/srcok/nth)"
    return v.finish()
