"""C10 - the event listener delivers every valid event once, in order, and nothing else."""
import vflib
from vflib import Verdict
from . import common

PROP = "C10"


def key(conj, rec):
    return "%s:rig%s:%s" % (conj, rec.get("rig"), rec["b"][:2] if rec.get("b") else "?")


def run(tier, replay=None):
    from .c05 import export
    layouts, _ = export()
    v = Verdict(PROP, tier, "model_checking")
    v.replay_info = {"seed": vflib.seed(), "tier": tier}
    v.assumptions = [
        "events and errors are separate logs with no cross-order (OnError runs on the receive-loop goroutine, OnEvent on the dispatch goroutine)",
        "senders use window flow control (at most 6 datagrams without a call-back) so that the kernel queue cannot drop; quit only after every datagram produced its call-back",
        "a valid event is identified in OnEvent by the tag the sender put into its sequence-id field; errors carry no identity and are matched to 'some bad datagram being handled'",
        "datagram scripts are seeded by the harness (1-3 senders x 1-12 datagrams x 8 classes, 1-3 start/stop cycles on one address), not exported from TLC; the model is checked exhaustively for 2 senders x 4 datagrams",
    ]
    if replay is None:
        common.model_checks(v, [
            ("Listener", "MC_Listener.cfg", {"workers": 8, "heap": "4g"}, "pass"),
            ("Listener", "XF_SpawnPerEvent.cfg", {"workers": 4}, "fail"),
            ("Listener", "XF_DropWhenBusy.cfg", {"workers": 2}, "fail"),
            ("Listener", "XF_DoneOnClose.cfg", {"workers": 2}, "fail"),
        ])
    summ = common.harness_traces("c10", tier, shards=4, env={"TZ": "UTC"}, extra_args=["-x", "layouts=" + layouts], timeout=3600)
    common.validate(v, "Trace_Api", "Trace_Api.cfg", summ, key)
    # zone pass: valid events with calendar fields on the offset-change days of a zone with DST (existing civil times),
    # through the handler in a child process running in that zone
    zs = ["America/New_York", "Europe/London", "America/Santiago", "Australia/Lord_Howe", "Asia/Tehran", "Africa/Casablanca"]
    gaps = ["America/Santiago", "America/Havana", "America/Asuncion", "America/Sao_Paulo", "Asia/Beirut"]     # zones with days whose midnight is skipped
    pick = (zs + gaps) if tier == "thorough" else [zs[(vflib.seed() + 1) % len(zs)], gaps[(vflib.seed() + 2) % len(gaps)]]
    if replay is None:
        for z in pick:
            zsumm = common.harness_traces("c10", tier, shards=2, env={"TZ": z}, extra_args=["-x", "layouts=%s;zonepass=1" % layouts], timeout=1800, name="c10-zone-" + z.replace("/", "_"))
            common.validate(v, "Trace_Api", "Trace_Api.cfg", zsumm, key)
        v.coverage["zone_pass"] = pick
    trace = summ["extra"]["listener_trace"]
    r = vflib.tlc("Trace_Listener", "Trace_Listener.cfg", workers=1, heap="4g", timeout=1800, deque=True, env={"VF_TRACE": trace})
    if not r.finished or r.errors:
        raise vflib.Infra("listener trace validation broke:\n" + r.out[-3000:])
    scns = {s["id"]: s for s in vflib.read_ndjson(trace)}
    nrej = 0
    for t in r.tuples("REACHED"):
        sid, consumed, length = t[1], t[2], t[3]
        if consumed < length:
            nrej += 1
            s = scns[sid]
            e = s["ev"][consumed]
            what = "%s(%s)" % (e["ev"], ",".join("%s=%s" % (k, e[k]) for k in sorted(e) if k in ("s", "n", "cls")))
            one = vflib.sub("rej") + "/" + sid + ".ndjson"
            vflib.write_ndjson(one, [s])
            v.report("listener:" + what, [one], {"scenario": sid, "consumed": consumed, "events": s["ev"], "first_unmatched": what})
    v.coverage["states"] = v.coverage.get("states", 0) + r.distinct
    v.coverage["transitions"] = v.coverage.get("transitions", 0) + r.generated
    v.coverage["traces_validated_against_impl"] = v.coverage.get("traces_validated_against_impl", 0) + len(scns)
    v.coverage["listener_scenarios"] = len(scns)
    v.coverage.setdefault("samples", []).append(summ["extra"]["sample"])
    v.coverage["rule"] = ("real Listen() on loopback: %d scenarios (start/stop cycles) of 1-3 senders x 1-12 datagrams over {valid, valid 0x19, wrong length incl. > 2048, serial 0, wrong code, wrong protocol id, malformed field}; "
                          "each delivered status compared with the specification's decoding of its datagram at delivery and again after the run (Stable); "
                          "Rig S: the handler fed from one reused, overwritten buffer with every one-byte field over all 256 values; zone pass: events with calendar fields on a DST zone's offset-change days, child process in that zone. distinct = delivered events" % len(scns))
    v.coverage["checker_cmd"] = "tlc Listener (MC_Listener: invariants + PROPERTY Terminates; XF_SpawnPerEvent, XF_DropWhenBusy, XF_DoneOnClose); tlc Trace_Listener; tlc Trace_Api (EventDecoded, Stable)"
    return v.finish(write_evidence=replay is None)
