"""C08 - concurrent use is race-free and replies are never crossed between calls."""
import re

import vflib
from vflib import Verdict
from . import common, transport

PROP = "C08"


def run(tier, replay=None):
    v = Verdict(PROP, tier, "model_checking")
    v.replay_info = {"seed": vflib.seed(), "tier": tier}
    if replay:
        return transport.replay(v, replay)
    v.assumptions = [
        "C08's domain: controller reply delays below the timeout, no strays; all calls of a scenario address the SAME controller on a shared fixed port (G_c08_fixed, G_c08_4, G_c08_udp2: two connected-UDP calls among them) or ephemeral ports (G_c08_eph), or queue for the fixed port and then use TCP, each to its own controller (G_c08_tcp); the farm's reply carries the tag of the request it answers, so a crossed reply is visible in the returned value",
        "whether a memory race happened is observed by the Go race detector (-race build of the harness, same scripts + discovery + listener shutdown); every report with a frame in uhppote-core is a violation",
        "timing: see C03",
    ]
    common.model_checks(v, [
        ("MC_Transport", "MC_Transport_c08.cfg", {"workers": 8, "heap": "6g"}, "pass"),
        ("MC_Transport", "MC_Transport_q.cfg", {"workers": 8, "heap": "6g"}, "pass"),
        ("MC_Transport", "XF_NoGuard.cfg", {"workers": 4}, "fail"),
        ("MC_Transport", "XF_GuardPerClient.cfg", {"workers": 4}, "fail"),
        ("MC_Transport", "XF_DeadlineBeforeLock.cfg", {"workers": 4}, "fail"),
        ("MC_Discovery", "MC_Discovery.cfg", {"workers": 8, "heap": "4g"}, "pass"),
        ("MC_Discovery", "XF_DiscoveryUnsync.cfg", {"workers": 4}, "fail"),
    ])
    # G_mixed_fixed: what an error path (refused / reset / unanswered TCP peer, silence) leaves behind must not keep the
    # calls queued behind it from being served
    groups = ["G_c08_fixed", "G_c08_eph", "G_c08_4", "G_c08_tcp", "G_c08_udp2", "G_mixed_fixed"]
    n = 40 if tier == "quick" else 500
    total, drift, _ = transport.run_groups(v, groups, n)
    # the schedule between Transport!Finish and Transport!Return, forced with a gate around the real driver
    from .c05 import export
    layouts, _ = export()
    gate = common.harness_traces("c08gate", tier, shards=2, extra_args=["-x", "layouts=%s;port=%d" % (layouts, 28400)], timeout=1800)
    common.validate(v, "Trace_Api", "Trace_Api.cfg", gate, lambda conj, rec: "%s:%s:%s" % (conj, rec["gate"]["scenario"], rec["gate"]["role"]))
    # the same scripts under the race detector, plus discovery while replies arrive and listener shutdown
    races = race_run(v, [g for g in groups if g.startswith("G_c08")], 12 if tier == "quick" else 150)
    v.coverage["race_reports"] = len(races)
    v.coverage["rule"] = ("all interleavings of 2-3 calls in the model (exhaustive); %d simulated behaviours per group with 3-4 concurrent calls to one controller over mixed paths replayed on real sockets "
                          "(crossing visible through request tags echoed in replies; timeliness: a reply within T of being asked must be accepted however long the call queued); "
                          "a gate around the real driver holds call A between the transport's return and the decoding of its bytes while call B (same / other client, all 9 path pairs, bind port 0 and fixed) completes 1-4 times - each result must interpret its own reply; the scripts again in a -race build together with GetDevices while replies arrive and Listen being shut down. distinct = scenarios" % n)
    v.coverage["checker_cmd"] = "tlc MC_Transport (c08, q, XF_*); tlc MC_Discovery; tlc Trace_Transport; go build -race"
    # optional strengthening (never a verdict about the code): the mutual-exclusion core of Transport for ANY number of calls
    pr = vflib.tlaps("TransportProofs")
    v.coverage["tlaps"] = {"module": "spec/proofs/TransportProofs.tla", "what": "inductive invariants of spec/Transport.tla, unbounded in calls / timeout / plans / strays: MutexInv (one guard holder, held exactly between Lock and Finish, sockets only with the holder => at most one socket on the fixed port, nothing held after Finish, the bind in Send never fails), TimeInv (deadline = asked + T, never passed while the call waits, no time-out before it), SendsInv (at most one request per call, for every variant of the model)",
                           "obligations": pr[0] if pr else None, "proved": pr[1] if pr else None, "wall_s": pr[2] if pr else None,
                           "status": "all proved" if pr and pr[0] == pr[1] else "not discharged in this run (the claim then rests on the TLC bound)"}
    return v.finish()


def race_run(v, groups, n):
    from .c05 import export
    layouts, _ = export()
    sdir = vflib.sub("scripts-race")
    # (+ G_mixed_eph: overlapping connected-UDP and TCP calls of ONE client on ephemeral ports - nothing serialises them)
    rgroups = groups[:2] + ["G_mixed_eph"]
    for g in rgroups:
        transport.generate(g, n, vflib.seed() + 99, sdir)
    allr = []
    for g in rgroups:
        _, _, races, _ = transport.rig(g, sdir, layouts, 2, 40, race=True, out=vflib.sub("race-" + g))
        allr += races
    # discovery + listener under the race detector
    out = vflib.sub("race-misc")
    env = {"GORACE": "halt_on_error=0 exitcode=0 log_path=%s/race-misc" % out}
    vflib.run_harness(["racemisc", "-seed", vflib.seed(), "-out", out, "-x", "layouts=" + layouts], env=env, race=True, timeout=600)
    import glob
    allr += transport.parse_races(glob.glob(out + "/race-misc*"))
    seen = set()
    for fr in allr:
        key = "race:" + ",".join(sorted(set(re.sub(r"\(\)$", "", x.split("/")[-1]) for x in fr)))
        if key in seen:
            continue
        seen.add(key)
        v.report(key, [], {"frames": fr, "replay_cmd": "tools/vf check C08 (the race detector run is part of every run)"})
    return allr
