"""C03 - only a well-formed reply from the addressed controller is ever accepted."""
import vflib
from vflib import Verdict
from . import common, transport

PROP = "C03"
SAFE = ("pass")


def run(tier, replay=None):
    v = Verdict(PROP, tier, "model_checking")
    v.replay_info = {"seed": vflib.seed(), "tier": tier}
    if replay:
        return transport.replay(v, replay)
    v.assumptions = [
        "datagram classes {valid, badlen, badserial, serial0, badcode, badproto, proto19, malformed, silence} are concretised by the farm from the seed (lengths {0,1,63,65,128,1024} from the seed, and every length of {0,1,2,7,8,9,32,63,65,66,127,128,129,1023,1024,2047,2048,2049,4096} once per path in hand-made scripts, corrupted serial byte, other function code, protocol id {0x18,0x00,0xff,0x16}, non-decimal BCD nibble / boolean byte 2..255)",
        "Rig L: one tick = 40 ms (120 ms when a scenario is re-run), T = 3 ticks; scripted instants sit 0.22 / 0.45 tick inside a tick; a rejected scenario is reported only if it is rejected again in at least two undisturbed isolated re-runs (and in more of them than it is accepted in)",
        "every call of a scenario on a shared fixed port has its own controller serial (a reply abandoned by a timed-out call could otherwise legitimately be taken by the next call - see DESIGN 4/C08 scope)",
    ]
    common.model_checks(v, [
        ("MC_Transport", "MC_Transport_q.cfg", {"workers": 8, "heap": "6g"}, "pass"),
        ("MC_Transport", "MC_Transport_q3.cfg", {"workers": 8, "heap": "6g"}, "pass"),
        ("MC_Transport", "MC_Transport_t.cfg", {"workers": 8, "heap": "6g"}, "pass"),
    ])
    # (G_flood_eph: up to 140 datagrams the broadcast filter ignores ahead of the genuine reply - "keeps waiting for S until its deadline")
    groups = ["G_bcast_fixed", "G_bcast_eph", "G_udp_eph", "G_tcp_eph", "G_mixed_fixed", "G_mixed_eph", "G_flood_eph"]
    if tier == "thorough":
        groups += ["G_udp_fixed"]
    n = 36 if tier == "quick" else 400
    total, drift, _ = transport.run_groups(v, groups, n, lengths=True)
    # "the content of any other datagram never appears in a returned result" - also not later on: results kept across further traffic
    common.kept_pass(v, tier)
    v.coverage["rule"] = ("behaviours of Transport.tla (TLC -simulate, %d per group) over all three delivery paths, controller answers of 1..2 datagrams from 8 classes + silence/refused/reset with delays 0..T, "
                          "plus one hand-made behaviour per datagram class x {ordinary call, status call} x path and per wrong length and path (wrong-length datagram, then the genuine reply); up to 2 strays from 5 classes injected by strangers into the call's source port; each replayed on real sockets and validated by Trace_Transport; every reply-bearing operation over each path on the real driver, the result kept across 1-4 further exchanges and judged again against its own datagram (OnlyOwnDatagram). distinct = scenarios" % n)
    v.coverage["checker_cmd"] = "tlc MC_Transport (3 exhaustive configs); tlc -simulate MC_TransportGen; tlc Trace_Transport (StateDeque)"
    return v.finish()
