"""C07 - invalid arguments are rejected before anything is sent (and only for the listed reasons)."""
import vflib
from vflib import Verdict
from . import common
from .c01 import api_replay

PROP = "C07"


def u32(p):
    return p[0] * 65536 + p[1]


def key(conj, rec):
    op = rec["op"]
    a = rec.get("a", {})
    if op == "W26Intervals":
        return "%s:exhaustive-w26" % conj
    if a.get("extreme"):
        return "%s:%s:unrepresentable-field:k=%s" % (conj, op, rec.get("k"))
    if op == "PutCard":
        return "%s:PutCard:card=%d:formats=%s:pin=%d" % (conj, u32(a["card"]["n"]), a["formats"], u32(a["card"]["pin"]))
    if op == "SetListener":
        return "%s:SetListener:%s" % (conj, a["addr"])
    if op == "SetAddress":
        return "%s:SetAddress:%s/%s/%s" % (conj, a["addr"], a["mask"], a["gw"])
    if op == "SetDoorPasscodes":
        return "%s:SetDoorPasscodes:door=%d:n=%d" % (conj, a["door"], len(a["codes"]))
    return "%s:%s:serial=%d:k=%s" % (conj, op, u32(a["serial"]), rec.get("k"))


def run(tier, replay=None):
    env = {"TZ": "UTC"}
    if replay:
        return api_replay(PROP, "c07", "Trace_Api", "Trace_Api.cfg", tier, replay, key, env)
    v = Verdict(PROP, tier, "model_checking")
    v.replay_info = {"seed": vflib.seed(), "tier": tier}
    v.assumptions = [
        "spec/Api.tla Reject() is the complete list of refusal reasons of the property",
        "'nothing on the network' is observed at the transport boundary (driver interface) of the scripted transport",
        "netip.AddrPort / net.IP arguments reach the specification as raw bytes + validity/zone flags",
    ]
    common.model_checks(v, [("MC_Wire", "MC_Wire.cfg", {"workers": 1}, "pass")])
    summ = common.harness_traces("c07", tier, shards=16 if tier == "thorough" else 8, env=env, timeout=7200)
    common.validate(v, "Trace_Api", "Trace_Api.cfg", summ, key)
    v.coverage["rule"] = ("id 0 on every operation; PutCard over boundary card numbers (every f*100000+{0,1,65535,65536,99999}, f=0..256, 999..1000, 2^24-1, 2^32-1, 9/10-digit numbers) x 8 format lists, PIN boundaries; "
                          "SetListener over IPv4 / IPv6 / IPv4-mapped / zoned / invalid AddrPorts; SetAddress over nil/short/4/16-byte/IPv6 values per slot; "
                          "SetDoorPasscodes doors 0..255 x lists of 0..6 codes; SetTimeProfile {zero,valid} dates x missing segments x ordered HH:mm pairs; "
                          "thorough: ALL 2^32 card numbers against Wiegand-26 as maximal accept intervals. distinct = distinct argument tuples")
    v.coverage["exhaustive"] = tier == "thorough"
    v.coverage["checker_cmd"] = "tlc Trace_Api (VF_TRACE=<shard>)"
    return v.finish()
