"""C17 - clients are insulated from later input changes, results from network buffers."""
import vflib
from vflib import Verdict
from . import common

PROP = "C17"


def run(tier, replay=None):
    from .c05 import export
    layouts, _ = export()
    v = Verdict(PROP, tier, "model_checking")
    v.replay_info = {"seed": vflib.seed(), "tier": tier}
    v.assumptions = [
        "histories are replayed on the scripted transport, which hands out slices of ONE reusable buffer for replies and overwrites it afterwards",
        "a held value is compared through its abstract projection (every exported field incl. maps, IPs, MAC, dates) at return time and at each re-check",
        "argument immutability is checked by re-projecting the values the caller still holds (PutCard's card and format list, ActivateKeypads' map)",
    ]
    if replay is None:
        common.model_checks(v, [
            ("Insulation", "MC_Insulation.cfg", {"workers": 4}, "pass"),
            ("Insulation", "XF_SharedDevices.cfg", {"workers": 2}, "fail"),
            ("Insulation", "XF_SharedMap.cfg", {"workers": 2}, "fail"),
            ("Insulation", "XF_SharedBuffer.cfg", {"workers": 2}, "fail"),
        ])
    summ = common.harness_traces("c17", tier, shards=8, env={"TZ": "UTC"}, extra_args=["-x", "layouts=" + layouts], timeout=3600)
    hists = {}
    states = trans = 0
    from concurrent.futures import ThreadPoolExecutor

    def val(f):
        r = vflib.tlc("Trace_Insulation", "Trace_Insulation.cfg", workers=1, heap="3g", timeout=1800, env={"VF_TRACE": f})
        if not r.finished or r.errors:
            raise vflib.Infra("insulation trace validation broke:\n" + r.out[-3000:])
        return f, r
    with ThreadPoolExecutor(max_workers=8) as ex:
        results = list(ex.map(val, summ["files"]))
    nh = 0
    for f, r in results:
        hs = {h["id"]: h for h in vflib.read_ndjson(f)}
        nh += len(hs)
        states += r.distinct
        trans += r.generated
        for t in r.tuples("REACHED"):
            hid, consumed, length = t[1], t[2], t[3]
            if consumed < length:
                h = hs[hid]
                e = h["ev"][consumed]
                what = e["ev"] + (":" + e.get("op", e.get("what", "")) if e["ev"] in ("call", "clone") else "") + (":" + str(e.get("now", {}).get("t")) if e["ev"] == "recheck" else "")
                one = vflib.sub("rej") + "/" + hid + ".ndjson"
                vflib.write_ndjson(one, [h])
                v.report("insulation:" + what, [one], {"history": hid, "actions": h["actions"], "consumed": consumed, "event": e})
    v.coverage.update({"states": v.coverage.get("states", 0) + states, "transitions": v.coverage.get("transitions", 0) + trans,
                       "traces_validated_against_impl": nh, "evaluations": summ["extra"]["events"], "distinct_nontrivial": nh,
                       "samples": summ["samples"][:1]})
    # the transport's own receive buffers are out of reach of the scripted transport: results kept across further real traffic
    common.kept_pass(v, tier)
    v.coverage["rule"] = ("every history of <=3 (quick) / <=4 (thorough) actions over {mutate caller data, mutate DeviceList map, call, scribble buffers, mutate a result, re-check, clone} followed by call + re-check, "
                          "plus 300 / 5000 random histories of length 20, over 3 client configurations and 12 operations; on the real driver (loopback sockets) every reply-bearing operation and discovery over each delivery path, the result kept across 1-4 further exchanges and projected again (KeptResultUnaffected); distinct = histories")
    v.coverage["checker_cmd"] = "tlc Insulation (MC + 3 XF); tlc Trace_Insulation; tlc Trace_Api (kept results)"
    return v.finish(write_evidence=replay is None)
