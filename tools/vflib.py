"""Shared plumbing for the uhppote-core verification checks.

Every check is: (1) build the Go harness from /repo's working tree with -tags verif,
(2) model-check the property's TLA+ configuration(s) with TLC, (3) let the harness drive the
real code and record ndjson traces, (4) validate the traces against the trace specification
with TLC, (5) compare mismatches with known_findings.json, (6) write evidence, print
KNOWN-FINDING / VIOLATION lines, exit 0 / 1 (2 = infrastructure failure, never a verdict).
"""
import atexit
import json
import os
import re
import shutil
import signal
import subprocess
import sys
import tempfile
import threading
import time
from concurrent.futures import ThreadPoolExecutor

VERIF = os.path.dirname(os.path.dirname(os.path.abspath(__file__)))
REPO = os.environ.get("VERIF_REPO", "/repo")
SPEC = os.path.join(VERIF, "spec")
HARNESS = os.path.join(VERIF, "harness")
# Development aid (seeded-defect runs in parallel scratch worktrees): VERIF_REPO points the harness
# build at another checkout; evidence and replays then go to VERIF_OUT, never to /verif/evidence.
_ALT = os.path.realpath(REPO) != "/repo"
_OUT = os.environ.get("VERIF_OUT") or (tempfile.mkdtemp(prefix="vf-out-") if _ALT else VERIF)
EVIDENCE = os.path.join(_OUT, "evidence")
REPLAYS = os.path.join(_OUT, "replays")
KNOWN = os.path.join(VERIF, "known_findings.json")
TLA_CP = "/opt/veriftools/tla/tla2tools.jar:/opt/veriftools/tla/CommunityModules-deps.jar"

GOENV = {
    "GOFLAGS": "-mod=mod",
    "GOPROXY": "off",
    "GOSUMDB": "off",
    "GOTOOLCHAIN": "local",
    "GONOSUMDB": "*",
    "GONOSUMCHECK": "1",
}


class Infra(Exception):
    """Infrastructure failure: exit 2, never a verdict."""


class LibraryPanic(Exception):
    """The harness process died of a Go panic raised inside uhppote-core (on a goroutine the harness cannot
    recover on, or in a rig that does not wrap its calls): real-code behaviour, a violation of the property
    whose inputs were being played (every property demands a result or an error, never a crash)."""

    def __init__(self, frame, tail):
        Exception.__init__(self, frame)
        self.frame = frame
        self.tail = tail


def library_panic(stderr):
    """Top non-runtime frame of the panicking goroutine if it is library code, else None."""
    m = re.search(r"^(panic: |fatal error: )", stderr, re.M)
    if not m:
        return None
    g = re.search(r"^goroutine \d+ \[running\]:\n", stderr[m.start():], re.M)
    if not g:
        return None
    for line in stderr[m.start() + g.end():].splitlines():
        if not line.strip():
            break
        if line.startswith("\t") or line.startswith(" "):
            continue
        fn = line.rsplit("(", 1)[0] if not line.startswith("panic(") else "panic"
        if fn == "panic" or fn.startswith("runtime.") or fn.startswith("runtime/") or fn.startswith("reflect.") \
                or fn.startswith("encoding/") and "uhppote-core" not in fn or fn.startswith("fmt.") or fn.startswith("strconv.") \
                or fn.startswith("time.") or fn.startswith("bytes.") or fn.startswith("strings.") or fn.startswith("net.") or fn.startswith("sync."):
            continue
        return fn if "github.com/uhppoted/uhppote-core/" in fn else None
    return None


_scratch = None


_scratch_lock = threading.RLock()
_build_lock = threading.Lock()


def scratch():
    global _scratch
    with _scratch_lock:
        return _scratch_locked()


def _scratch_locked():
    global _scratch
    if _scratch is None:
        _scratch = tempfile.mkdtemp(prefix="vf-")
        if not os.environ.get("VF_KEEP"):
            atexit.register(shutil.rmtree, _scratch, True)
        else:
            sys.stderr.write("scratch kept: %s\n" % _scratch)
    return _scratch


def sub(name):
    d = os.path.join(scratch(), name)
    os.makedirs(d, exist_ok=True)
    return d


def seed():
    try:
        return int(os.environ.get("VERIF_SEED", "1"))
    except ValueError:
        return 1


def log(msg):
    sys.stderr.write("[vf %s] %s\n" % (time.strftime("%H:%M:%S"), msg))
    sys.stderr.flush()


# ---------------------------------------------------------------------------------------------
# Go harness


def goenv(extra=None):
    env = dict(os.environ)
    env.update(GOENV)
    env.setdefault("GOCACHE", os.path.join(os.path.expanduser("~"), ".cache", "go-build"))
    if extra:
        env.update(extra)
    return env


def build_harness(race=False):
    """Build /verif/harness against /repo's current working tree (replace directive), hooks on."""
    with _build_lock:
        return _build_harness(race)


def _build_harness(race):
    out = os.path.join(scratch(), "vfh-race" if race else "vfh")
    if os.path.exists(out):
        return out
    # go.sum of the library is needed for its (few) dependencies
    cmd = ["go", "build", "-tags", "verif", "-o", out]
    if race:
        cmd.append("-race")
    cmd.append("./cmd/vfh")
    t0 = time.time()
    hdir = HARNESS
    if _ALT:
        hdir = os.path.join(scratch(), "harness-src")
        if not os.path.exists(hdir):
            shutil.copytree(HARNESS, hdir)
            with open(os.path.join(hdir, "go.mod")) as f:
                gm = f.read()
            with open(os.path.join(hdir, "go.mod"), "w") as f:
                f.write(gm.replace("=> /repo", "=> " + os.path.realpath(REPO)))
    p = subprocess.run(cmd, cwd=hdir, env=goenv({"CGO_ENABLED": "1" if race else "0"}),
                       stdout=subprocess.PIPE, stderr=subprocess.STDOUT, text=True)
    if p.returncode != 0:
        raise Infra("harness build failed:\n" + p.stdout)
    log("harness built%s in %.1fs" % (" (-race)" if race else "", time.time() - t0))
    return out


def run_harness(args, env=None, race=False, timeout=3600, check=True):
    exe = build_harness(race)
    e = dict(os.environ)
    if env:
        e.update(env)
    p = subprocess.run([exe] + [str(a) for a in args], env=e, stdout=subprocess.PIPE,
                       stderr=subprocess.PIPE, text=True, timeout=timeout)
    if check and p.returncode != 0:
        fr = library_panic(p.stderr)
        if fr:
            raise LibraryPanic(fr, p.stderr[-6000:])
        raise Infra("harness %s failed (%d):\n%s\n%s" % (args, p.returncode, p.stdout[-4000:], p.stderr[-4000:]))
    return p


# ---------------------------------------------------------------------------------------------
# TLC

_spec_copy = None
_spec_lock = threading.Lock()


def spec_copy():
    """TLC litters its working directory: always run in a scratch copy of /verif/spec."""
    global _spec_copy
    with _spec_lock:
        if _spec_copy is None:
            d = os.path.join(scratch(), "spec")
            shutil.copytree(SPEC, d)
            _spec_copy = d
    return _spec_copy


class TlcResult:
    def __init__(self, rc, out, wall):
        self.rc = rc
        self.out = out
        self.wall = wall
        self.generated = 0
        self.distinct = 0
        self.depth = 0
        m = None
        for m in re.finditer(r"(\d+) states generated, (\d+) distinct states found", out):
            pass
        if m:
            self.generated, self.distinct = int(m.group(1)), int(m.group(2))
        m = re.search(r"The depth of the complete state graph search is (\d+)", out)
        if m:
            self.depth = int(m.group(1))
        self.finished = "Model checking completed" in out or "Finished in" in out
        self.violated_invariants = re.findall(r"Invariant (\S+) is violated", out)
        self.violated_props = re.findall(r"Temporal propert(?:ies were|y \S+ was) violated", out)
        self.action_violations = re.findall(r"Action property (\S+) is violated", out)
        self.errors = [l for l in out.splitlines() if l.startswith("Error:")]
        self.postcondition_false = "Postcondition" in out and "is false" in out.lower() or "POSTCONDITION" in out and "violated" in out

    @property
    def clean(self):
        return self.rc == 0 and not self.errors

    def tuples(self, tag, limit=3000):
        """PrintT output lines of the form <<"TAG", ...>> parsed into python lists (at most `limit` of them: a defect that
        makes every record disagree prints tens of thousands)."""
        res = []
        for m in re.finditer(r'^<<\s*"%s"' % tag, self.out, re.M):
            res.append(parse_tla_value(self.out, m.start()))
            if len(res) >= limit:
                break
        return res


_RE_FIELD = re.compile(r"([A-Za-z_0-9]+)\s*\|->")
_RE_INT = re.compile(r"-?\d+")
_RE_BOOL = re.compile(r"TRUE|FALSE")
_RE_IDENT = re.compile(r"[A-Za-z_][A-Za-z_0-9]*")


def parse_tla_value(s, start=0):
    """Parse a printed TLA+ value (tuples, strings, ints, booleans, records, sets) into python."""
    pos = [start]

    def ws():
        while pos[0] < len(s) and s[pos[0]] in " \n\t":
            pos[0] += 1

    def val():
        ws()
        if s.startswith("<<", pos[0]):
            pos[0] += 2
            items = []
            ws()
            if s.startswith(">>", pos[0]):
                pos[0] += 2
                return items
            while True:
                items.append(val())
                ws()
                if s.startswith(",", pos[0]):
                    pos[0] += 1
                    continue
                if s.startswith(">>", pos[0]):
                    pos[0] += 2
                    return items
                raise ValueError("bad tuple at %d in %r" % (pos[0], s[:200]))
        if s.startswith("{", pos[0]):
            pos[0] += 1
            items = []
            ws()
            if s.startswith("}", pos[0]):
                pos[0] += 1
                return {"set": items}
            while True:
                items.append(val())
                ws()
                if s.startswith(",", pos[0]):
                    pos[0] += 1
                    continue
                if s.startswith("}", pos[0]):
                    pos[0] += 1
                    return {"set": items}
                raise ValueError("bad set at %d in %r" % (pos[0], s[:200]))
        if s.startswith("[", pos[0]):
            pos[0] += 1
            rec = {}
            while True:
                ws()
                m = _RE_FIELD.match(s, pos[0])
                if not m:
                    raise ValueError("bad record at %d in %r" % (pos[0], s[pos[0]:pos[0] + 200]))
                pos[0] = m.end()
                rec[m.group(1)] = val()
                ws()
                if s.startswith(",", pos[0]):
                    pos[0] += 1
                    continue
                if s.startswith("]", pos[0]):
                    pos[0] += 1
                    return rec
                raise ValueError("bad record end at %d in %r" % (pos[0], s[:200]))
        if s.startswith('"', pos[0]):
            j = pos[0] + 1
            buf = []
            while s[j] != '"':
                if s[j] == "\\":
                    j += 1
                buf.append(s[j])
                j += 1
            pos[0] = j + 1
            return "".join(buf)
        m = _RE_INT.match(s, pos[0])
        if m:
            pos[0] = m.end()
            return int(m.group(0))
        m = _RE_BOOL.match(s, pos[0])
        if m:
            pos[0] = m.end()
            return m.group(0) == "TRUE"
        m = _RE_IDENT.match(s, pos[0])
        if m:
            pos[0] = m.end()
            return m.group(0)
        raise ValueError("cannot parse at %d in %r" % (pos[0], s[:200]))

    return val()


def tlc(module, cfg=None, workers=1, env=None, heap="2g", timeout=1800, extra=None, deque=False, stack="64m", cwd=None):
    """Run TLC on spec/<module>.tla with <cfg> (default <module>.cfg) in the scratch copy."""
    d = cwd or spec_copy()
    meta = tempfile.mkdtemp(prefix="meta-", dir=scratch())
    java = ["java", "-XX:+UseParallelGC", "-Xmx" + heap, "-Djava.io.tmpdir=" + meta]
    if workers == 1:
        java.append("-XX:ParallelGCThreads=2")
    if stack:
        java.append("-Xss" + stack)
    if deque:
        java.append("-Dtlc2.tool.queue.IStateQueue=StateDeque")
    cmd = java + ["-cp", TLA_CP, "tlc2.TLC", "-workers", str(workers), "-metadir", meta,
                  "-config", cfg or (module + ".cfg")]
    if extra:
        cmd += extra
    cmd.append(module)
    e = dict(os.environ)
    e.pop("JAVA_TOOL_OPTIONS", None)
    if env:
        e.update({k: str(v) for k, v in env.items()})
    t0 = time.time()
    try:
        p = subprocess.run(cmd, cwd=d, env=e, stdout=subprocess.PIPE, stderr=subprocess.STDOUT,
                           text=True, timeout=timeout)
    except subprocess.TimeoutExpired:
        raise Infra("TLC timeout (%ss) on %s %s" % (timeout, module, cfg))
    finally:
        shutil.rmtree(meta, True)
    return TlcResult(p.returncode, p.stdout, time.time() - t0)


def tlaps(module, timeout=600):
    """Optional strengthening: machine-check spec/proofs/<module>.tla with the TLA+ proof system. Never a verdict about the
    code: returns (obligations, proved, seconds) or None when the prover is unavailable / stalls."""
    d = os.path.join(spec_copy(), "proofs")
    t0 = time.time()

    def provers():
        # back-end processes of the proof system (Isabelle's poly / its JVM): tlapm does not always take them along when it
        # ends, and an orphaned one spins at 100% CPU for good - which is poison for every check that measures time
        out = subprocess.run(["pgrep", "-f", "polyml|isabelle|Disabelle|zenon|tlapm"], stdout=subprocess.PIPE, text=True).stdout.split()
        return {int(x) for x in out if x.isdigit()}

    before = provers()
    proc = None
    try:
        proc = subprocess.Popen(["tlapm", "--threads", "8", "--cleanfp", "-I", "..", module + ".tla"], cwd=d, stdout=subprocess.PIPE, stderr=subprocess.STDOUT,
                                text=True, start_new_session=True)
        out, _ = proc.communicate(timeout=timeout)
    except FileNotFoundError:
        return None
    except subprocess.TimeoutExpired:
        out = None
    finally:
        if proc is not None:
            try:
                os.killpg(proc.pid, signal.SIGKILL)
            except (ProcessLookupError, PermissionError):
                pass
            try:
                proc.wait(timeout=10)
            except Exception:
                pass
        for pid in provers() - before - {os.getpid()}:
            try:
                os.kill(pid, signal.SIGKILL)
            except (ProcessLookupError, PermissionError):
                pass
    if out is None:
        return None

    class _P:
        stdout = out
    p = _P()
    m = re.search(r"All (\d+) obligations? proved", p.stdout)
    if m:
        return int(m.group(1)), int(m.group(1)), round(time.time() - t0, 1)
    m = re.search(r"(\d+)/(\d+) obligations failed", p.stdout)
    if m:
        return int(m.group(2)), int(m.group(2)) - int(m.group(1)), round(time.time() - t0, 1)
    return None


def tlc_must_pass(module, cfg=None, **kw):
    """Model-check a configuration that is expected to hold; anything else is infrastructure."""
    r = tlc(module, cfg, **kw)
    if not r.clean or r.violated_invariants or r.violated_props:
        raise Infra("model check %s/%s did not pass (a statement about the specification, not the code):\n%s"
                    % (module, cfg, r.out[-3000:]))
    return r


def tlc_must_fail(module, cfg, **kw):
    """Expected-to-fail configuration (a modelled defect): no counterexample => vacuous model => infra."""
    r = tlc(module, cfg, **kw)
    if r.rc == 0 or not (r.violated_invariants or r.violated_props or r.action_violations):
        raise Infra("expected-to-fail configuration %s/%s passed: the model is vacuous\n%s" % (module, cfg, r.out[-2000:]))
    return r


def validate_shards(module, cfg, shard_files, env_name="VF_TRACE", workers_total=16, heap="3g", timeout=3600,
                    env=None, deque=False, tag="MISMATCH"):
    """Trace validation: one TLC process per shard file, in parallel. Returns (results, mismatches)."""
    results = []
    par = max(1, min(len(shard_files), workers_total))

    def one(f):
        e = {env_name: f}
        if env:
            e.update(env)
        return tlc(module, cfg, workers=1, env=e, heap=heap, timeout=timeout, deque=deque)

    with ThreadPoolExecutor(max_workers=par) as ex:
        results = list(ex.map(one, shard_files))
    mismatches = []
    for f, r in zip(shard_files, results):
        if r.errors and not r.tuples(tag) or not r.finished:
            # errors other than the acceptance postcondition are infrastructure
            bad = [x for x in r.errors if "Postcondition" not in x and "postcondition" not in x]
            if bad or not r.finished:
                raise Infra("trace validation %s on %s broke:\n%s" % (module, f, r.out[-3000:]))
        for t in r.tuples(tag):
            mismatches.append((f, t))
    return results, mismatches


# ---------------------------------------------------------------------------------------------
# known findings, verdicts, evidence


def known_findings(prop):
    if not os.path.exists(KNOWN):
        return []
    with open(KNOWN) as f:
        data = json.load(f)
    return [k for k in data.get("findings", []) if k.get("property") == prop and k.get("status") == "known"]


def match_known(prop, key):
    """key: a short stable string identifying the failing input / call site / history class."""
    for k in known_findings(prop):
        if re.fullmatch(k["match"], key):
            return k
    return None


def read_ndjson(path):
    with open(path) as f:
        return [json.loads(l) for l in f if l.strip()]


def write_ndjson(path, records):
    with open(path, "w") as f:
        for r in records:
            f.write(json.dumps(r, separators=(",", ":")))
            f.write("\n")


def save_replay(prop, name, files=None, info=None):
    d = os.path.join(REPLAYS, prop, "%s-%d" % (name, int(time.time() * 1000) % 100000000))
    os.makedirs(d, exist_ok=True)
    for src in files or []:
        if os.path.exists(src):
            shutil.copy(src, d)
    if info is not None:
        with open(os.path.join(d, "info.json"), "w") as f:
            json.dump(info, f, indent=1)
    return d


class Verdict:
    def __init__(self, prop, tier, level):
        self.prop = prop
        self.tier = tier
        self.level = level
        self.t0 = time.time()
        self.violations = []     # (key, replay path)
        self.known = {}          # finding id -> count
        self.coverage = {}
        self.assumptions = []
        self.unreproduced = 0
        self.replay_info = {}

    def violation(self, key, replay):
        self.violations.append((key, replay))

    def known_finding(self, k, what):
        kid = k.get("id", "?")
        if kid not in self.known:
            self.known[kid] = [0, k, what]
        self.known[kid][0] += 1

    def report(self, key, replay_files=None, info=None):
        """A disagreement between code and specification identified by `key`."""
        k = match_known(self.prop, key)
        if k is not None:
            self.known_finding(k, key)
            return False
        if info is not None and self.replay_info:
            info = dict(info)
            info.update(self.replay_info)
        if len(self.violations) < 20:
            path = save_replay(self.prop, re.sub(r"[^A-Za-z0-9_.-]+", "_", key)[:60], replay_files, info)
        else:
            path = self.violations[-1][1]
        self.violation(key, path)
        return True

    def finish(self, write_evidence=True):
        wall = time.time() - self.t0
        os.makedirs(EVIDENCE, exist_ok=True)
        ev = {
            "property_id": self.prop,
            "tier": self.tier,
            "seed": seed(),
            "level": self.level,
            "coverage": self.coverage,
            "assumptions": self.assumptions,
            "wall_s": round(wall, 2),
            "violations": len(self.violations),
            "known_findings": {k: v[0] for k, v in self.known.items()},
            "unreproduced": self.unreproduced,
        }
        if write_evidence:
            with open(os.path.join(EVIDENCE, self.prop + ".json"), "w") as f:
                json.dump(ev, f, indent=1, sort_keys=True)
        for kid, (n, k, what) in sorted(self.known.items()):
            print("KNOWN-FINDING: property=%s %s (%s; %d occurrence(s), e.g. %s)" % (self.prop, kid, k.get("what", ""), n, what))
        seen = set()
        for key, path in self.violations:
            if key in seen or len(seen) >= 10:
                continue
            seen.add(key)
            print("# %s violated: %s" % (self.prop, key))
            print("VIOLATION property=%s replay=%s" % (self.prop, path))
        if len(self.violations) > len(seen):
            print("# ... %d disagreement(s) in total" % len(self.violations))
        sys.stdout.flush()
        log("%s %s: %d violation(s), %d known, %.1fs" % (self.prop, self.tier, len(self.violations), len(self.known), wall))
        return 1 if self.violations else 0
