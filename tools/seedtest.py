#!/usr/bin/env python3
"""seedtest - run the checks against a seeded defect (development aid, not a registered check).

  seedtest.py verify <seeded-dir>              the change compiles, the baseline suite passes with it, the
                                               demonstration fails with it and passes without it
  seedtest.py run <seeded-dir> [--checks C01,C05|all] [--tier quick]
                                               checks against a scratch worktree of /repo with the patch applied
  seedtest.py matrix [--tier quick] [--only id,id] [--jobs N]
                                               every seeded defect x (its own property + the listed extra checks)

Everything happens in a scratch git worktree of /repo (outside /repo and /verif), which is removed afterwards;
/repo itself is never modified. Evidence of these runs goes to a scratch directory, never to /verif/evidence.
"""
import argparse
import fcntl
import json
import os
import re
import shutil
import subprocess
import sys
import tempfile
import time
from concurrent.futures import ThreadPoolExecutor

VERIF = os.path.dirname(os.path.dirname(os.path.abspath(__file__)))
SEEDED = os.path.join(VERIF, "seeded")
GOENV = {"GOFLAGS": "-mod=mod", "GOPROXY": "off", "GOSUMDB": "off", "GOTOOLCHAIN": "local"}
ALL = ["C%02d" % i for i in range(1, 19)]


def sh(cmd, cwd=None, env=None, timeout=3600):
    e = dict(os.environ)
    e.update(GOENV)
    if env:
        e.update(env)
    p = subprocess.run(cmd, cwd=cwd, env=e, stdout=subprocess.PIPE, stderr=subprocess.STDOUT, text=True,
                       timeout=timeout, shell=isinstance(cmd, str))
    return p.returncode, p.stdout


NETNS = subprocess.run("unshare -rn sh -c 'ip link set lo up'", shell=True, stdout=subprocess.DEVNULL, stderr=subprocess.DEVNULL).returncode == 0


class Worktree:
    def __init__(self, patch=None):
        self.dir = tempfile.mkdtemp(prefix="seedwt-")
        os.rmdir(self.dir)
        rc, out = sh(["git", "-C", "/repo", "worktree", "add", "--detach", self.dir, "HEAD"])
        if rc != 0:
            raise RuntimeError(out)
        if patch:
            rc, out = sh(["git", "-C", self.dir, "apply", "--whitespace=nowarn", patch])
            if rc != 0:
                self.close()
                raise RuntimeError("patch does not apply: " + out)

    def close(self):
        sh(["git", "-C", "/repo", "worktree", "remove", "--force", self.dir])
        shutil.rmtree(self.dir, True)
        sh(["git", "-C", "/repo", "worktree", "prune"])

    def __enter__(self):
        return self

    def __exit__(self, *a):
        self.close()


def meta_of(d):
    with open(os.path.join(d, "meta.json")) as f:
        return json.load(f)


def run_demo(wt, d, meta):
    demo = meta["demo"]
    if demo["kind"] == "test":
        dst = os.path.join(wt, demo["pkg"], "zz_seeded_demo_test.go")
        shutil.copy(os.path.join(d, demo["file"]), dst)
        try:
            cmd = ["go", "test", "-vet=off", "-count=1", "-run", demo.get("run", "TestSeeded"), "./" + demo["pkg"]]
            if demo.get("race"):
                cmd.insert(2, "-race")
            env = dict(demo.get("env", {}))
            if demo.get("race"):
                env["CGO_ENABLED"] = "1"
            return sh(cmd, cwd=wt, env=env, timeout=900)
        finally:
            os.remove(dst)
    if demo["kind"] == "main":
        pdir = os.path.join(wt, "zz_seeded_demo")
        os.makedirs(pdir, exist_ok=True)
        shutil.copy(os.path.join(d, demo["file"]), os.path.join(pdir, "main.go"))
        try:
            cmd = ["go", "run"] + (["-race"] if demo.get("race") else []) + ["./zz_seeded_demo"]
            env = dict(demo.get("env", {}))
            if demo.get("race"):
                env["CGO_ENABLED"] = "1"
            return sh(cmd, cwd=wt, env=env, timeout=900)
        finally:
            shutil.rmtree(pdir, True)
    raise RuntimeError("unknown demo kind")


def verify(d):
    meta = meta_of(d)
    res = {}
    with Worktree(os.path.join(d, "patch.diff")) as w:
        rc, out = sh(["go", "build", "./..."], cwd=w.dir)
        res["build_with"] = rc
        # the repository's socket tests bind fixed ports (12345, 65001): one suite run at a time, and a run
        # that lost the port to some other process is repeated
        lock = open("/tmp/.seedtest-suite.lock", "w")
        fcntl.flock(lock, fcntl.LOCK_EX)
        try:
            for _ in range(4):
                # in a private network namespace when the sandbox allows it: nobody else can hold the ports there
                cmd = "go test -vet=off -count=1 ./..."
                if NETNS:
                    cmd = "unshare -rn sh -c 'ip link set lo up && %s'" % cmd
                rc, out = sh(cmd, cwd=w.dir, timeout=1800)
                if rc == 0 or "address already in use" not in out:
                    break
                time.sleep(3)
        finally:
            fcntl.flock(lock, fcntl.LOCK_UN)
            lock.close()
        res["suite_with"] = rc
        if rc != 0:
            res["suite_out"] = out[-1500:]
        rc, out = run_demo(w.dir, d, meta)
        res["demo_with"] = rc
        res["demo_with_out"] = out[-600:]
    with Worktree() as w:
        rc, out = run_demo(w.dir, d, meta)
        res["demo_without"] = rc
        if rc != 0:
            res["demo_without_out"] = out[-1500:]
    res["confirmed"] = res["build_with"] == 0 and res["suite_with"] == 0 and res["demo_with"] != 0 and res["demo_without"] == 0
    return res


def run_checks(d, checks, tier, keep=None):
    """Returns {check: {"rc":..,"violations":[..],"wall":..}} for the patched tree."""
    res = {}
    with Worktree(os.path.join(d, "patch.diff")) as w:
        outdir = tempfile.mkdtemp(prefix="seedout-")
        try:
            def one(c):
                lock = open("/tmp/.seedtest-%s.lock" % c, "w")
                fcntl.flock(lock, fcntl.LOCK_EX)   # fixed bind ports are per property: one run of a check at a time
                try:
                    t0 = time.time()
                    rc, out = sh([os.path.join(VERIF, "tools", "vf"), "check", c, "--tier", tier], cwd=VERIF,
                                 env={"VERIF_REPO": w.dir, "VERIF_OUT": os.path.join(outdir, c), "VF_PROP": c}, timeout=7200)
                    viol = [l for l in out.splitlines() if l.startswith("VIOLATION") or l.startswith("# C")]
                    r = {"rc": rc, "violations": viol[:8], "wall": round(time.time() - t0, 1)}
                    if rc == 2:
                        r["tail"] = out[-1500:]
                    return c, r
                finally:
                    fcntl.flock(lock, fcntl.LOCK_UN)
                    lock.close()
            with ThreadPoolExecutor(max_workers=max(1, min(len(checks), 3))) as ex:
                for c, r in ex.map(one, checks):
                    res[c] = r
        finally:
            if keep:
                shutil.copytree(outdir, keep, dirs_exist_ok=True)
            shutil.rmtree(outdir, True)
    return res


def main():
    ap = argparse.ArgumentParser()
    sp = ap.add_subparsers(dest="cmd")
    a1 = sp.add_parser("verify")
    a1.add_argument("dir", type=os.path.abspath)
    a2 = sp.add_parser("run")
    a2.add_argument("dir", type=os.path.abspath)
    a2.add_argument("--checks", default=None)
    a2.add_argument("--tier", default="quick")
    a2.add_argument("--keep", default=None)
    a3 = sp.add_parser("matrix")
    a3.add_argument("--tier", default="quick")
    a3.add_argument("--only", default=None)
    a3.add_argument("--jobs", type=int, default=3)
    a3.add_argument("--all-checks", action="store_true")
    a4 = sp.add_parser("benign")
    a4.add_argument("--tier", default="quick")
    a4.add_argument("--only", default=None)
    a4.add_argument("--jobs", type=int, default=2)
    a = ap.parse_args()
    if a.cmd == "verify":
        r = verify(a.dir)
        print(json.dumps(r, indent=1))
        return 0 if r["confirmed"] else 1
    if a.cmd == "run":
        meta = meta_of(a.dir)
        checks = ALL if a.checks == "all" else (a.checks.split(",") if a.checks else meta["expected_checks"])
        r = run_checks(a.dir, checks, a.tier, a.keep)
        print(json.dumps(r, indent=1))
        return 0
    if a.cmd == "matrix":
        ids = sorted(x for x in os.listdir(SEEDED) if os.path.exists(os.path.join(SEEDED, x, "meta.json")))
        if a.only:
            ids = [i for i in ids if i in a.only.split(",")]

        def one(i):
            d = os.path.join(SEEDED, i)
            meta = meta_of(d)
            checks = ALL if a.all_checks else meta["expected_checks"]
            return i, meta, run_checks(d, checks, a.tier)
        rows = []
        with ThreadPoolExecutor(max_workers=a.jobs) as ex:
            for i, meta, r in ex.map(one, ids):
                caught = sorted(c for c, x in r.items() if x["rc"] == 1)
                infra = sorted(c for c, x in r.items() if x["rc"] not in (0, 1))
                print("%-10s breaks=%s caught_by=%s%s" % (i, meta["property"], ",".join(caught) or "-",
                                                        (" INFRA=" + ",".join(infra)) if infra else ""))
                sys.stdout.flush()
                rows.append({"id": i, "property": meta["property"], "caught_by": caught, "infra": infra,
                             "walls": {c: x["wall"] for c, x in r.items()}})
        mf = os.path.join(SEEDED, "matrix-%s.json" % a.tier)
        merged = {}
        if os.path.exists(mf):
            with open(mf) as f:
                merged = {r["id"]: r for r in json.load(f)}
        for r in rows:
            merged[r["id"]] = r
        with open(mf, "w") as f:
            json.dump([merged[k] for k in sorted(merged)], f, indent=1)
        return 0
    if a.cmd == "benign":
        # behaviour-preserving changes: every check must stay silent (exit 0) on each of them
        BEN = os.path.join(VERIF, "benign")
        ids = sorted(x for x in os.listdir(BEN) if os.path.exists(os.path.join(BEN, x, "patch.diff")))
        if a.only:
            ids = [i for i in ids if i in a.only.split(",")]

        def one(i):
            d = os.path.join(BEN, i)
            res = {}
            with Worktree(os.path.join(d, "patch.diff")) as w:
                rc, out = sh(["go", "build", "./..."], cwd=w.dir)
                res["build"] = rc
                cmd = "go test -vet=off -count=1 ./..."
                if NETNS:
                    cmd = "unshare -rn sh -c 'ip link set lo up && %s'" % cmd
                rc, out = sh(cmd, cwd=w.dir, timeout=1800)
                res["suite"] = rc
            res["checks"] = run_checks(d, ALL, a.tier, keep=os.path.join("/tmp", "benign-out-" + i))
            return i, res
        rows = []
        with ThreadPoolExecutor(max_workers=a.jobs) as ex:
            for i, r in ex.map(one, ids):
                alarms = sorted(c for c, x in r["checks"].items() if x["rc"] == 1)
                infra = sorted(c for c, x in r["checks"].items() if x["rc"] not in (0, 1))
                print("%-8s build=%d suite=%d alarms=%s infra=%s" % (i, r["build"], r["suite"], ",".join(alarms) or "-", ",".join(infra) or "-"))
                for c in alarms:
                    print("    ", c, r["checks"][c]["violations"][:4])
                sys.stdout.flush()
                rows.append({"id": i, "build": r["build"], "suite": r["suite"], "alarms": alarms, "infra": infra})
        with open(os.path.join(BEN, "result-%s.json" % a.tier), "w") as f:
            json.dump(rows, f, indent=1)
        return 0
    ap.print_help()
    return 2


if __name__ == "__main__":
    sys.exit(main())
